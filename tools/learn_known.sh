#!/bin/bash
# Developer helper (never run by a check): runs a check N times in emit-known mode and appends classes
# that are not yet listed to KNOWN_FINDINGS.txt after printing them for review.
id=$1; n=${2:-2}; tier=${3:-quick}
for i in $(seq 1 $n); do
  VERIF_EMIT_KNOWN=1 /verif/bin/verif check $id --tier $tier 2>&1 | grep "^known:" | sed 's/ shape [^:]*: / /' | cut -c1-330 > /tmp/learn_$id.txt
  new=0
  while IFS= read -r line; do
    cls=$(echo "$line" | grep -o 'class=[^ ]*')
    if ! grep -q -- "property=$id $cls " /verif/KNOWN_FINDINGS.txt; then echo "$line" >> /verif/KNOWN_FINDINGS.txt; echo "NEW: $line" | cut -c1-260; new=$((new+1)); fi
  done < /tmp/learn_$id.txt
  echo "run $i: $new new classes"
done
