#!/bin/bash
# Developer helper: run checks against a seeded change in its own scratch worktree (leaves /repo untouched, so several
# evaluations can run side by side). Usage: eval_mutant_wt.sh <mutant-dir> <check-id>...
# The worktree and the evidence/replays written for it (under /tmp/wt/evout-*) are removed afterwards.
set -u
mdir=$1; shift
export GOFLAGS=-mod=mod GOPROXY=off GOSUMDB=off GOTOOLCHAIN=local
tag=$(echo "$mdir" | tr -c 'A-Za-z0-9\n' '_')
wt=/tmp/wt/ev-$tag; out=/tmp/wt/evout-$tag
rm -rf $wt $out; git -C /repo worktree prune
git -C /repo worktree add -q --detach $wt HEAD || exit 2
cleanup() { git -C /repo worktree remove --force $wt 2>/dev/null; rm -rf $out; }
trap cleanup EXIT
echo "== mutant $mdir"
if ! git -C $wt apply --check $mdir/patch.diff 2>/dev/null; then echo "PATCH DOES NOT APPLY to current HEAD"; exit 3; fi
git -C $wt apply $mdir/patch.diff
(cd $wt && go build ./... ) || { echo "BUILD FAILS"; exit 4; }
(cd $wt/tests && go test -vet=off -count=1 ./... 2>&1 | tail -1)
for c in "$@"; do
  o=$(VERIF_REPO=$wt VERIF_OUT=$out timeout 1500 ${VERIF_BIN:-/verif/bin/verif} check $c 2>&1); rc=$?
  echo "-- check $c exit=$rc"
  echo "$o" | grep -a -E "^VIOLATION|^  class|^C[0-9]+ (quick|thorough)" | cut -c1-300 | head -7
done
