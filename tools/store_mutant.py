#!/usr/bin/env python3
"""Developer helper: copy a confirmed sub-agent mutant from /tmp/wt/<id>-out/<m> to /verif/seeded/<id>-<m>/ and write meta.json.
Usage: store_mutant.py <id> <m> <caught-by> <needs-to-manifest...>
The first line of NOTES.txt is used as the description of what the change breaks."""
import json, os, shutil, sys

pid, m, caught = sys.argv[1], sys.argv[2], sys.argv[3]
needs = " ".join(sys.argv[4:])
src = f"/tmp/wt/{pid}-out/{m}"
dst = f"/verif/seeded/{pid}-{m}"
if os.path.isdir(dst):
    shutil.rmtree(dst)
shutil.copytree(src, dst, ignore=shutil.ignore_patterns("tsh", "*.exe", "out", "o", "std"))
first = ""
notes = os.path.join(src, "NOTES.txt")
if os.path.exists(notes):
    for line in open(notes, errors="replace"):
        if line.strip():
            first = line.strip()
            break
meta = {
    "property": pid,
    "mutant": m,
    "breaks": first,
    "needs_to_manifest": needs or first,
    "produced_by": "independent sub-agent given only the property text and a scratch worktree (second round: asked for a change of a different kind than the first two)",
    "confirmed": "tools/confirm_mutant.sh: applied in a scratch worktree, `go build ./...` ok, `cd tests && go test -vet=off -count=1 ./...` ok, demonstration exits non-zero with the change and zero on the clean tree",
    "checked_with": "tools/eval_mutant.sh: patch applied to /repo's working tree, `verif check <id>`, then `git -C /repo checkout -- .`",
    "caught_by": caught,
}
json.dump(meta, open(os.path.join(dst, "meta.json"), "w"), indent=1)
print("stored", dst)
