#!/bin/bash
# Developer helper: confirm a sub-agent's mutant in its own scratch worktree:
# suite passes with the change, demonstration fails with it and passes without it.
id=$1; m=$2
export GOFLAGS=-mod=mod GOPROXY=off GOSUMDB=off GOTOOLCHAIN=local
wt=/tmp/wt/$id; out=/tmp/wt/$id-out/$m
git -C $wt checkout -q -- . ; git -C $wt clean -fdq
git -C $wt apply $out/patch.diff || { echo "patch does not apply"; exit 2; }
(cd $wt && go build ./... ) || { echo BUILD-FAILS; exit 3; }
suite=$(cd $wt/tests && go test -vet=off -count=1 ./... 2>&1 | tail -1)
rundemo() {
  if [ -f $out/demo.sh ]; then (cd $out && timeout 300 bash demo.sh >/dev/null 2>&1 </dev/null); echo $?;
  else t=$(ls $out/*_test.go 2>/dev/null | head -1); [ -z "$t" ] && { echo nodemo; return; }
       d=$(grep -m1 -o "^package [a-z_]*" $t | awk '{print $2}'); dir=tests; case $d in lexer*) dir=lexer;; parser*) dir=parser;; transpiler*) dir=transpiler;; main) dir=.;; esac
       cp $t $wt/$dir/zz_demo_test.go; (cd $wt/$dir && timeout 300 go test -vet=off -count=1 -run . . >/dev/null 2>&1); rc=$?; rm -f $wt/$dir/zz_demo_test.go; echo $rc; fi
}
with=$(rundemo)
git -C $wt checkout -q -- . ; git -C $wt clean -fdq
without=$(rundemo)
git -C $wt checkout -q -- . ; git -C $wt clean -fdq
echo "$id/$m: suite[$suite] demo-with-mutant=$with demo-on-clean=$without"
