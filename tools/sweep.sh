#!/bin/bash
# Developer helper: evaluates stored seeded changes with the registered quick commands, one line per change in
# /verif/seeded/sweep.log (the input of tools/mkresults.py). Usage: sweep.sh [-P n] <Cxx-mk>...   (default: all)
# For a change whose meta.json names a neighbouring check in caught_by, that check is run too.
par=2
if [ "$1" = "-P" ]; then par=$2; shift 2; fi
list="$@"; [ -z "$list" ] && list=$(ls /verif/seeded | grep '^C[0-9]*-m[0-9]*$')
one() {
  d=$1; id=${d%%-*}
  extra=$(python3 - "$d" <<'P'
import json,re,sys
m=json.load(open('/verif/seeded/%s/meta.json'%sys.argv[1])); pid=m['property']
print(" ".join(sorted(set(re.findall(r'\bC\d\d\b', m.get('caught_by','')))-{pid})))
P
)
  out=$(/verif/tools/eval_mutant_wt.sh /verif/seeded/$d $id $extra 2>&1 | grep -a -E "^== mutant|^-- check|DOES NOT APPLY|BUILD FAILS|^ok|^FAIL" | tr '\n' ' ')
  echo "$out" >> /verif/seeded/sweep.log
  echo "$out" | cut -c1-200
}
export -f one
printf "%s\n" $list | xargs -P $par -I{} bash -c 'one {}'
