#!/usr/bin/env python3
"""Developer helper: writes /verif/seeded/RESULTS.md from the meta.json files, the recorded first-run verdicts below and a
sweep log (lines produced by tools/eval_mutant_wt.sh for every stored mutant). Usage: mkresults.py <sweep.log>..."""
import glob, json, os, re, sys

# verdict of the FIRST run of the property's own check against the change (before any strengthening prompted by it)
FIRST_CAUGHT = {
    # round 1 (checks as first written)
    "C01-m1", "C01-m2", "C04-m2", "C07-m1", "C07-m2", "C11-m1", "C12-m1", "C15-m2", "C16-m1",
    # round 2 (checks as strengthened after round 1)
    "C04-m4", "C05-m4", "C06-m3", "C07-m4", "C10-m4", "C11-m3", "C11-m4", "C12-m4", "C13-m3", "C13-m4", "C14-m3",
    "C15-m3", "C15-m4", "C16-m4",
    # round 3 (checks as strengthened after round 2)
    "C02-m5", "C05-m5", "C06-m5", "C08-m5", "C08-m6", "C09-m5", "C11-m6", "C13-m6", "C15-m6", "C16-m5", "C18-m6",
    # round 4 (checks as strengthened after round 3; two changes per property)
    "C01-m8", "C05-m7", "C05-m8", "C06-m7", "C06-m8", "C07-m8", "C08-m8", "C09-m8", "C11-m7", "C12-m8", "C13-m7", "C14-m7",
    "C15-m7", "C16-m8", "C17-m7", "C18-m7",
}
FIRST_NOTE = {
    "C06-m1": "caught once the position table had been extended (comparison chains)",
    "C06-m2": "caught once the position table had been extended (value-count positions)",
    "C08-m2": "missed by C08, caught by C18 (the property it breaks first)",
    "C08-m4": "flagged, but only through a probe instance of an already known class - counted as missed",
    "C16-m3": "missed by C16 (no multi-file programs), caught by C09",
    "C02-m1": "missed (a first alarm was a generator bug of the check, fixed)",
    "C02-m2": "missed (a first alarm was a generator bug of the check, fixed)",
    "C01-m5": "missed by C01, caught by C02 (multi-target assignment is C02's statement)",
    "C01-m6": "missed by C01, caught by C11",
    "C09-m6": "missed by C09, caught by C14",
    "C16-m6": "missed by C16, caught by C19",
    "C19-m5": "missed by C19 (tsh and the library fail alike), C14 ran into a defect of its own harness - counted as missed",
    "C03-m8": "missed by C03, caught by C04 (evaluation order of index and value)",
    "C10-m7": "missed: every path of the check left the interpreted part of Go (maps.Clone) - such runs now print a note",
    "C15-m8": "missed: every path of the check left the interpreted part of Go (regexp ReplaceAllString) - such runs now print a note",
    "C11-m8": "missed: the deciding paths were unsupported (strings.IndexByte on symbolic text)",
    "C19-m7": "missed: the native probes were all spent on the documented option order",
}

final = {}
for log in sys.argv[1:]:
    for line in open(log, errors="replace"):
        m = re.search(r"== mutant \S*/(C\d+-m\d+)\b(.*)", line)
        if not m:
            continue
        checks = re.findall(r"-- check (C\d+) exit=(\d+)", m.group(2))
        if checks:
            final[m.group(1)] = checks

rows = []
for d in sorted(glob.glob("/verif/seeded/C*-m*")):
    name = os.path.basename(d)
    meta = json.load(open(os.path.join(d, "meta.json")))
    needs = meta.get("needs_to_manifest") or meta.get("breaks") or ""
    if needs.strip() == "see NOTES.txt":
        needs = meta.get("breaks", "")
    needs = re.sub(r"\s+", " ", needs)[:170]
    first = "caught" if name in FIRST_CAUGHT else "missed"
    if name in FIRST_NOTE:
        first = FIRST_NOTE[name]
    fin = final.get(name)
    if fin:
        fin_s = ", ".join("%s %s" % (c, "VIOLATION" if rc == "1" else ("passes" if rc == "0" else "error " + rc)) for c, rc in fin)
    else:
        fin_s = "not re-run"
    rows.append((name, needs, first, fin_s, meta.get("caught_by", "")))

caught_final = sum(1 for r in rows if "VIOLATION" in r[3])
with open("/verif/seeded/RESULTS.md", "w") as f:
    f.write("# Seeded changes: which check catches which change\n\n")
    f.write("Each change was produced by a fresh sub-agent that saw only the property text and a scratch worktree, compiles,\n"
            "passes the repository's 165 tests, and breaks the property for the input named in the third column (details:\n"
            "`<id>-m<k>/NOTES.txt`, demonstration next to it). `first run` is the verdict of the property's own check when the\n"
            "change was first evaluated; `final` is the verdict of the registered quick command with the change applied\n"
            "(`tools/eval_mutant_wt.sh`, last full sweep), `VIOLATION` meaning exit status 1 with a VIOLATION line.\n\n")
    f.write("Totals: %d changes; first run caught %d; final sweep: %d caught.\n\n" % (len(rows), sum(1 for r in rows if r[2] == "caught"), caught_final))
    f.write("| change | needs, to manifest | first run | final | what made the difference |\n|---|---|---|---|---|\n")
    for name, needs, first, fin_s, by in rows:
        f.write("| %s | %s | %s | %s | %s |\n" % (name, needs.replace("|", "\\|"), first, fin_s, by.replace("|", "\\|")))
print("rows", len(rows), "final caught", caught_final)
