#!/bin/bash
# Developer helper: confirm a seeded mutant (compiles, suite passes, demo fails with / passes without the change)
# and run the given checks against it. Usage: eval_mutant.sh <mutant-dir> <check-id>...
# The mutant is applied to /repo's working tree and ALWAYS reverted afterwards.
set -u
mdir=$1; shift
export GOFLAGS=-mod=mod GOPROXY=off GOSUMDB=off GOTOOLCHAIN=local
patch=$mdir/patch.diff
wt=/tmp/wt/evalscratch
rm -rf $wt; git -C /repo worktree prune; git -C /repo worktree add -q --detach $wt HEAD || exit 2
cleanup() { git -C /repo worktree remove --force $wt 2>/dev/null; }
trap cleanup EXIT
echo "== mutant $mdir"
if ! git -C $wt apply --check $patch 2>/dev/null; then echo "PATCH DOES NOT APPLY to current HEAD"; exit 3; fi
git -C $wt apply $patch
(cd $wt && go build ./... ) || { echo "BUILD FAILS"; exit 4; }
(cd $wt/tests && go test -vet=off -count=1 ./... 2>&1 | tail -1)
for c in "$@"; do
  git -C /repo apply $patch || { echo "apply to /repo failed"; exit 5; }
  out=$(timeout 1500 ${VERIF_BIN:-/verif/bin/verif} check $c 2>&1); rc=$?
  git -C /repo checkout -- . ; git -C /repo clean -fdq
  echo "-- check $c exit=$rc"
  echo "$out" | grep -E "^VIOLATION|^  class|^C[0-9]+ (quick|thorough)" | cut -c1-300 | head -7
done
git -C /repo status --short | head -3
