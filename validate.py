#!/opt/veriftools/pyvenv/bin/python3
import json,jsonschema,glob,sys
m=json.load(open('/verif/MANIFEST.json')); jsonschema.validate(m,json.load(open('/root/.vp/MANIFEST.schema.json')))
ids=[l for l in open('/verif/properties.jsonl')]
props=[json.loads(l)['id'] for l in ids]
claimed=[c['property_id'] for c in m['checks']]
na=[c['property_id'] for c in m.get('not_applicable',[])]
for p in props:
    if p not in claimed and p not in na: print("unlisted:",p)
for f in glob.glob('/verif/evidence/*.json'):
    jsonschema.validate(json.load(open(f)),json.load(open('/root/.vp/EVIDENCE.schema.json')))
bad=0
for c in m['checks']:
    try: e=json.load(open(c['evidence_file']))
    except Exception as ex: print("no evidence for",c['property_id'],ex); bad+=1; continue
    if e['level']!=c['level_claimed']['category']: print("level mismatch",c['property_id'],e['level'],c['level_claimed']['category']); bad+=1
    if e['property_id']!=c['property_id']: print("wrong id in",c['evidence_file']); bad+=1
if bad: sys.exit(1)
print("manifest+evidence ok; claimed",claimed)
