//go:build verif

// Native replay/validation driver. It is overlaid into the repository module
// as package main under zzverifdrv/ (never committed there) and built with
// -tags verif from the current working tree. It reads a JSON array of
// requests on stdin and writes a JSON array of results on stdout.
package main

import (
	"encoding/json"
	"fmt"
	"os"
	"path/filepath"
	"time"

	"github.com/monstermichl/typeshell/converters/bash"
	"github.com/monstermichl/typeshell/converters/batch"
	"github.com/monstermichl/typeshell/lexer"
	"github.com/monstermichl/typeshell/transpiler"
)

type Call struct {
	Main   string `json:"main"`
	Target string `json:"target"`
}

type Req struct {
	Op    string            `json:"op"`
	Src   string            `json:"src"`
	Files map[string]string `json:"files"`
	Main  string            `json:"main"`
	Tgt   string            `json:"target"`
	Calls []Call            `json:"calls"`
	Dir   string            `json:"dir"`
}

type Tok struct {
	Type  int    `json:"type"`
	Value string `json:"value"`
	Row   int    `json:"row"`
	Col   int    `json:"col"`
}

type Res struct {
	Tokens  []Tok    `json:"tokens,omitempty"`
	Script  string   `json:"script"`
	Err     string   `json:"err"`
	HasErr  bool     `json:"has_err"`
	Panic   string   `json:"panic"`
	Scripts []Res    `json:"scripts,omitempty"`
	Millis  int64    `json:"millis"`
	Extra   []string `json:"extra,omitempty"`
}

func conv(t string) transpiler.Converter {
	if t == "batch" {
		return batch.New()
	}
	return bash.New()
}

func transpileOnce(tp interface {
	Transpile(string, transpiler.Converter) (string, error)
}, path, target string) (r Res) {
	defer func() {
		if p := recover(); p != nil {
			r.Panic = fmt.Sprint(p)
		}
	}()
	s, err := tp.Transpile(path, conv(target))
	r.Script = s
	if err != nil {
		r.HasErr = true
		r.Err = err.Error()
	}
	return
}

func handle(q Req) (r Res) {
	t0 := time.Now()
	defer func() { r.Millis = time.Since(t0).Milliseconds() }()
	switch q.Op {
	case "tokenize":
		func() {
			defer func() {
				if p := recover(); p != nil {
					r.Panic = fmt.Sprint(p)
				}
			}()
			toks, err := lexer.Tokenize(q.Src)
			for _, t := range toks {
				r.Tokens = append(r.Tokens, Tok{int(t.Type()), t.Value(), t.Row(), t.Column()})
			}
			if err != nil {
				r.HasErr = true
				r.Err = err.Error()
			}
		}()
	case "transpile", "history":
		dir := q.Dir
		if dir == "" {
			d, err := os.MkdirTemp("", "vdrv")
			if err != nil {
				r.Panic = err.Error()
				return
			}
			dir = d
			defer os.RemoveAll(d)
		} else {
			os.MkdirAll(dir, 0o777)
			defer os.RemoveAll(dir)
		}
		for p, c := range q.Files {
			fp := filepath.Join(dir, p)
			os.MkdirAll(filepath.Dir(fp), 0o777)
			os.WriteFile(fp, []byte(c), 0o666)
		}
		t := transpiler.New()
		if q.Op == "transpile" {
			r = transpileOnce(&t, filepath.Join(dir, q.Main), q.Tgt)
		} else {
			for _, c := range q.Calls {
				r.Scripts = append(r.Scripts, transpileOnce(&t, filepath.Join(dir, c.Main), c.Target))
			}
		}
	default:
		r.Panic = "unknown op " + q.Op
	}
	return
}

func main() {
	var reqs []Req
	if err := json.NewDecoder(os.Stdin).Decode(&reqs); err != nil {
		fmt.Fprintln(os.Stderr, err)
		os.Exit(2)
	}
	out := make([]Res, len(reqs))
	for i, q := range reqs {
		out[i] = handle(q)
	}
	json.NewEncoder(os.Stdout).Encode(out)
}
