#!/usr/bin/env python3
# Regenerates MANIFEST.json from the table below (keeps the interface file consistent with the checks that exist).
import json

TV = "translation_validation"
MC = "model_checking"

trust_sh = ("trusted: RefTSH (reference AST evaluator) and ShSem (semantics of the emitted Bash subset, calibrated against "
            "/bin/bash by `verif selftest`), intrinsic models of fmt/strings/strconv/regexp, z3 4.8.12 as deciding solver with every final verdict (thorough: every fourth pruning unsat too) re-decided by z3 5.1.0; program shapes are "
            "enumerated (listed in evidence), values/bytes on each shape are symbolic and decided by the solver; "
            "counterexamples are replayed on the native transpiler and the real bash before being reported; a path the engine or "
            "ShSem cannot interpret (e.g. after a refactoring) is decided by concrete native probes of that path and counted as such")
tech_sh = "SSA symbolic execution + ShSem/RefTSH equivalence decided by z3 per path"

checks = {}

checks["C01"] = (TV,
    "real front-end + Bash back-end executed symbolically from SSA on scalar program shapes (symbolic 64-bit literals, "
    "operator choices, neutral string bytes); the emitted script is interpreted by ShSem and compared, for all values on "
    "each path, with RefTSH's evaluation of the same AST (stdout, exit status, stderr); unsat on every path within the shapes/bounds; "
    "curated shapes plus 200 (quick) / 6000 (thorough) programs from a typed generator (seeded by VERIF_SEED)",
    trust_sh, tech_sh)
checks["C02"] = (TV,
    "as C01 on function/frame shapes: by-value/by-reference parameters, name reuse across frames, global writes from "
    "functions, multi-value returns (also into mixed global/local targets), nested calls (also as statement), empty-string arguments, "
    "simultaneous assignment in every operand form; plus 150 (quick) / 5000 (thorough) generated programs with functions", trust_sh, tech_sh)
checks["C03"] = (TV,
    "as C01 on slice/string shapes: growth with symbolic indices 0..12, aliasing, range, copy, substrings with symbolic "
    "bounds and symbolic string bytes, copy into global/local/parameter destinations inside functions, nested range over non-variable operands; plus 100 (quick) / 4000 (thorough) generated programs with slices", trust_sh, tech_sh)
checks["C04"] = (TV,
    "as C02 with tracer functions at every operand position; the printed trace must equal the reference's left-to-right, "
    "exactly-once, eager order for all steering values", trust_sh,
    "SSA symbolic execution + trace equivalence decided by z3 per path")
checks["C11"] = (MC,
    "bounded symbolic execution of lexer.Tokenize from SSA on fully symbolic byte strings (n<=3) and "
    "on lexeme templates with symbolic hole bytes; every path is compared, for all byte values on it, with an independent reference lexer",
    "trusted: reference lexer oracle/reflex.go, intrinsic models of regexp/strconv/strings, z3 4.8.12; conditions over <=3 "
    "independent byte variables are settled by exhaustive evaluation over their domains, all others by z3; outside the "
    "bound: longer inputs / other templates; counterexamples are replayed on the natively built lexer",
    "SSA symbolic execution + SMT equivalence against a reference lexer, bounded input length")
checks["C12"] = (MC,
    "metamorphic check executed in the SSA executor: for gap positions of seed programs (all gaps of hand-written "
    "statement-form seeds incl. multi-line raw string literals, sampled gaps of the repository's test programs) the layout is replaced from menus of "
    "blanks/tabs/comments (also block comments with a line break)/blank lines/CRLF/final-newline variants; acceptance and emitted bytes must equal those of the "
    "original layout for both targets; a second harness inserts, at every gap of the "
    "hand-written seeds, 1..2 symbolic bytes over {blank, tab}, or a block comment of 0..3 symbolic content bytes over {a * / blank \"} (no terminator inside), "
    "or a line comment of 0..3 symbolic bytes before a line break (the lexer runs on the symbolic bytes); rejected programs are seeds too (acceptance must not change)",
    "reduced strength: the layouts are explored by explicit nondeterministic choice in the executor and outputs are compared "
    "syntactically - no solver query is needed for the menu-driven harness (evidence reports 0), only the symbolic-blanks/comments harness "
    "runs the lexer on symbolic bytes (decided by the byte-domain procedure, by z3 where the code compares bytes relationally); "
    "trusted: host-side token splitter that defines token-preserving re-layouts; differences are re-confirmed on the "
    "native build; outside: layouts not in the menus, windows wider than 2 gaps (quick: 70 sampled gaps of the short test programs, thorough: 600 of all)",
    "SSA execution of lexer+parser+both back-ends on re-laid-out sources (explicit nondeterministic layout choice), byte equality of outputs")
checks["C13"] = (MC,
    "bounded symbolic execution of Transpile for both targets: main file of n fully symbolic bytes (n<=2 quick, n<=3 "
    "thorough), token positions of the repository's test programs replaced by a symbolic byte or a menu lexeme, all import "
    "graphs over three files incl. cycles, 59 statement forms x 10 contexts x {main file, imported file} (jumps, bare expressions, value-less calls as operands, public multi-value declarations), "
    "call graphs with exponentially many call paths; assertion: no Go panic, instruction/depth budget not exceeded, result is "
    "(script,nil) or (\"\",non-empty error)",
    "trusted: intrinsic models, virtual file system; hang candidates and panics are reproduced on the native build under a "
    "watchdog before being reported; outside: longer symbolic files, double-token edits (thorough samples more positions)",
    "SSA symbolic execution with panic capture and budgets; z3 / byte-domain decision for branch feasibility")
checks["C14"] = (MC,
    "bounded exploration in the SSA executor of call histories (1..2 quick, 1..3 thorough) on one transpiler object over 8 "
    "programs (one uses every statement form of the language, one is another program's tree after an edit in place, one fails in the converter after code was emitted, one fails in the parser) x 2 targets (histories of three calls over three of the programs), "
    "3 directory spellings paired with 3 ways the process was started (argv[0], working directory) and every permutation of every map range; each call's text must equal, "
    "for all values of the symbolic integer literals, the text of the same call alone at the canonical location; plus "
    "native repetition/relocation/fresh-process runs under three environments (PATH, HOME, locale, time zone)",
    "trusted: map iteration order is the only process-level nondeterminism reachable (any other nondeterministic stdlib "
    "call ends the path as unsupported); outside: longer histories, other programs",
    "SSA execution with nondeterministic map order and history choice; rope equality decided syntactically or by z3")

# extra entries are appended by later edits of this file
EXTRA_CHECKS = {}
EXTRA_CHECKS["C08"] = (TV,
    "as C01 with a string value of 1..2 (quick) / 1..4 (thorough) symbolic bytes over printable ASCII + newline/tab "
    "travelling along 22 data paths (incl. the tenth/eleventh positional parameter) from 4 origins (raw literal, file read at run time, standard input, captured output of a command); ShSem records "
    "for every data byte the condition under which the shell would interpret it (quote, expansion, escape, word "
    "splitting, globbing, option); one violation condition per path (some byte is active OR an observable differs) is "
    "enumerated per character class by z3, every class witness is re-run on the real bash",
    trust_sh + "; known findings are keyed by (data path, origin, character class) - the region they mask is exactly "
    "those classes; anything else is reported", tech_sh + " with per-character-class enumeration of counterexamples")
EXTRA_CHECKS["C17"] = (TV,
    "as C08 for histories of write/append/read/exists over two paths (top level and in a function, plus a path with a "
    "blank, a path next to its .tmp neighbour, and histories next to seven pre-existing neighbour files that must survive unchanged; fixed shapes for empty content, empty and glob-like paths of exists(), several exists() in one expression, "
    "content and path computed by calls): the resulting virtual file system and the printed reads are compared with a line-store model for all "
    "contents; violations enumerated per character class and confirmed on the real bash (file system included)",
    trust_sh, tech_sh)
EXTRA_CHECKS["C18"] = (TV,
    "as C08 for program calls: probe programs print their argument vector and standard input; the value under test sits "
    "at a symbolic argument position, literal or via a variable, in call statements, captures and 2..3-stage pipelines "
    "with exit statuses 0/3/200, stage arguments computed by order-dependent calls, nested program calls as arguments, programs named by identifiers with result variables/parameters named like the program; "
    "expected argv/pipe/capture/order behaviour from the reference model; Bash only",
    trust_sh + "; the Batch counterpart (_ach through cmd /V:ON) is not claimed (no cmd.exe)", tech_sh)
EXTRA_CHECKS["C15"] = (TV,
    "the real pipeline compiles `import \"strings\"; print(strings.F(args))` for each of the 19 library functions; the "
    "emitted script runs under ShSem with every string argument as symbolic bytes over {a,b,' '} (TrimSpace: escape letters, tab, blank; lengths 0..maxLen (2..4 quick, 3..5 thorough) by "
    "case split, counts -2..4); z3 decides per path that for every argument tuple the output equals what Go's strings "
    "package returns (reference table computed natively)",
    "trusted: ShSem (calibrated against /bin/bash), Go's strings package as reference; arguments travel through files so "
    "that the source is concrete; counterexamples are re-run on the real bash; outside: longer arguments, other alphabets",
    "SSA symbolic execution of the pipeline + ShSem; z3 decides output == reference table per path")
EXTRA_CHECKS["C16"] = (MC,
    "symbolic execution of the full pipeline for both targets on programs assembled from a menu of constructs covering "
    "the whole language (every builtin, empty blocks, nested loops with break/continue, functions); Bash: the script is "
    "accepted by ShSem's grammar (and `bash -n` on a sample and on every rejected script); Batch: structural invariants "
    "on the emitted text (balanced parentheses, every goto/call target defined once, helpers present iff used, loop/if "
    "jumps inside their construct)",
    "reduced strength: construct sequences are explored by explicit nondeterministic choice in the executor and the assertions "
    "are structural predicates on concrete emitted text - no solver query is involved (evidence reports 0); "
    "trusted: ShSem's parser as Bash grammar of the emitted subset, the structural analysis of Batch text (label naming "
    "as emitted); issues are re-checked on the native build's output; outside: programs not expressible with the menu "
    "(2 slots quick / 3 thorough)",
    "SSA execution with nondeterministic construct choice; structural assertions on the emitted scripts")
EXTRA_CHECKS["C09"] = (TV,
    "as C01 on multi-file programs: the real import/link/clean code is executed symbolically on import graphs (single, "
    "two files with top-level code, diamond with shared state, chain, repeated alias, std + local, equal names, imported globals used in nested top-level blocks, equal import strings in two directories, one file under two import strings), every "
    "imported file once with a hash prefix starting with a letter and once with a digit (sha256 stubbed per class); the "
    "emitted script under ShSem must equal the reference module composition for all symbolic arguments; illegal uses "
    "(private, undefined, unknown alias, transitive) must be rejected",
    trust_sh + "; counterexamples are replayed natively with a comment nonce that gives the real SHA-256 prefix the same class",
    tech_sh)
EXTRA_CHECKS["C10"] = (MC,
    "the real pipeline is executed symbolically with one user identifier (21 roles; in six of them the identifier may also equal another identifier that Go keeps apart - nested block, function, sibling, range, switch clause) spelled by 1..6 (quick) / 1..8 "
    "(thorough) symbolic bytes; on every accepted path z3 is asked for each spelling under which a name derived from "
    "the identifier equals another word of the emitted script or a name the shell owns, or differs from another identifier "
    "of the program only in letter case; each spelling found is run "
    "against a neutral spelling on the real bash; behaviour-changing spellings must be in the known list",
    "trusted: behaviour can only change through a coincidence of names (capture); list of shell-owned names in c10.go; "
    "Bash only, Batch case folding not claimed; longer identifiers outside",
    "SSA symbolic execution with symbolic identifier bytes; z3 enumerates capturing spellings; differential run on bash")
EXTRA_CHECKS["C05"] = (TV,
    "reduced strength, model-level: the real front-end + Batch back-end are executed symbolically on the scalar, "
    "function and slice/string shapes of C01-C03 with 32-bit symbolic integers; the emitted script is interpreted by "
    "BatSem (cmd.exe's documented rules: parse-time % expansion, delayed ! expansion, label search, numeric-vs-string "
    "IF, call/exit /B frames, 32-bit set /A) and compared by z3 per path with RefTSH at 32 bits; in addition the Batch "
    "script of every accepted test program of the repository must print under BatSem what its Bash script prints under "
    "the real bash",
    "NO cmd.exe exists in the image: BatSem (oracle/batsem*.go, rules and sources in oracle/BATSEM_NOTES.md) is a "
    "specification that cannot be calibrated against the real interpreter; it reproduces the expected output of all 120 "
    "accepted repository test programs; a counterexample is re-derived by interpreting the natively transpiled concrete "
    "program with BatSem concretely, it cannot be replayed on cmd.exe; string/echo special characters, file and program "
    "helpers are outside the claim",
    "SSA symbolic execution + BatSem/RefTSH(32-bit) equivalence decided by z3 per path (model-level)")
EXTRA_CHECKS["C06"] = (MC,
    "symbolic execution of the real front-end and both back-ends on a table of typed positions x contexts; the offered "
    "expression is a variable whose declared type is 8 symbolic bytes (constrained to the 8 type spellings) or a call "
    "f?() with a symbolic function letter; assertion decided by z3 per path: accepted <=> the symbolic type is one the "
    "position allows, identically for both targets, no script on error",
    "trusted: the position table (Go typing rules + README signatures) as the expected verdict; violations are re-run "
    "natively; outside: positions not in the table, two simultaneously corrupted positions",
    "SSA symbolic execution with symbolic type lexemes; z3 decides accepted <=> expected per path")
EXTRA_CHECKS["C07"] = (MC,
    "symbolic execution of the parser on a 14-slot block-structure template: every (definition slot, use slot) and "
    "(definition, definition) pair with one-byte symbolic names, every placement of break/continue/return/func, "
    "fixed programs on parameters/function order/fall-off-end, and the import boundary (a function of an imported file "
    "whose name is 1..3 symbolic bytes, called through the alias: legal iff the first byte is upper case); assertion decided by z3 per path: accepted <=> the block "
    "model says the program is legal for these names",
    "trusted: the block-visibility model of the template as expected verdict; violations are re-run natively; outside: "
    "other block structures, names longer than one byte, break inside switch (unspecified)",
    "SSA symbolic execution with symbolic identifier bytes; z3 decides accepted <=> expected per path")
EXTRA_CHECKS["C19"] = (MC,
    "symbolic execution of main.main/parseOptions over os.Args built from option/value menus in both orders with short "
    "or long flags, one flag spelled by two symbolic bytes, noise options and trailing singletons, on a virtual file "
    "system with accepted/rejected/invalid inputs (one imports a file with top-level state, one the standard library), values "
    "with a blank at an edge, and long stale outputs whose modification times are symbolic instants (replayed natively with os.Chtimes); assertions: a run with valid options whose input the library accepts succeeds; on normal return exactly D/<stem>.<ext> "
    "per target equals (for all values of the program's symbolic literal) the library result for a fresh converter; on "
    "panic or os.Exit(n>0) no new/changed file for the failing target; exit status 0 only with complete, valid options; input never modified",
    "trusted: virtual file system and os/filepath models; candidates are re-run with the natively built tsh binary; paths the executor cannot follow are probed natively (budget spread over the argument orders); "
    "outside: more than 2 (quick) / 3 (thorough) -t options, write failures",
    "SSA symbolic execution of the command's main with symbolic argument bytes; z3 decides flag spellings and output equality")
checks.update(EXTRA_CHECKS)

na = {}
pending = "check not built yet in this session (work in progress, see DESIGN.md section 3)"

props = [json.loads(l)["id"] for l in open("/verif/properties.jsonl")]
m = {
    "version": 1,
    "setup_cmd": "cd /verif/engine && GOFLAGS=-mod=mod GOPROXY=off GOSUMDB=off GOTOOLCHAIN=local go build -o /verif/bin/verif ./cmd/verif",
    "hooks": {
        "guard": "verif",
        "enable": "no source hooks in /repo: checks load /repo's working tree with go/packages + go/ssa on every run; the native replay driver /verif/harness/drv/main.go (//go:build verif) is overlaid as /repo/zzverifdrv/main.go with `go build -tags verif -overlay` into a scratch directory",
        "baseline_off_cmd": "cd /repo/tests && GOFLAGS=-mod=mod GOPROXY=off GOSUMDB=off go test -vet=off -count=1 ./...",
        "source_commits": [],
        "add_only": True,
    },
    "engines": [{
        "name": "gosym", "path": "/verif/engine", "serves_properties": sorted(checks),
        "kind_free_text": "own go/ssa symbolic executor (Go values with bit-vector leaves, strings as ropes of symbolic bytes and decimal atoms), replay-based path forking, one z3 -in per worker; reference semantics (RefTSH, ShSem) in engine/oracle run on the same symbolic values",
    }],
    "checks": [], "not_applicable": [],
    "notes": "solver-based checking of the real code: see DESIGN.md; known findings and repaired defects in KNOWN_FINDINGS.txt",
}
for p in props:
    if p in checks:
        lv, text, note, tech = checks[p]
        m["checks"].append({
            "property_id": p,
            "quick_cmd": "/verif/bin/verif check %s --tier quick" % p,
            "thorough_cmd": "/verif/bin/verif check %s --tier thorough" % p,
            "evidence_file": "/verif/evidence/%s.json" % p,
            "replay_cmd_template": "/verif/bin/verif replay %s {path}" % p,
            "engine": "gosym",
            "level_claimed": {"category": lv, "text": text, "design_ref": "DESIGN.md section 3 / " + p},
            "level_note": note, "technique": tech,
        })
    else:
        m["not_applicable"].append({"property_id": p, "reason": na.get(p, pending)})
json.dump(m, open("/verif/MANIFEST.json", "w"), indent=1)
print("claimed:", sorted(checks), "not applicable:", [x["property_id"] for x in m["not_applicable"]])
