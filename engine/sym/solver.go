package sym

import (
	"bufio"
	"fmt"
	"io"
	"os/exec"
	"regexp"
	"strconv"
	"strings"
	"time"
)

type Result int

const (
	Unsat Result = iota
	Sat
	Unknown
)

func (r Result) String() string { return [...]string{"unsat", "sat", "unknown"}[r] }

// Stats are cumulative over the life of a Solver.
type Stats struct {
	Queries  int
	Sat      int
	Unsat    int
	Unknown  int
	Errors   int
	Seconds  float64
	Restarts int
	// cross-check of verdicts with a second, independent solver (z3 5.1)
	XQueries   int
	XAgree     int
	XDisagree  int
	XUnknown   int
	XSeconds   float64
	XPruneSeen int // pruning unsat verdicts seen (every VERIF_XCHECK_EVERY-th is cross-checked in mode all)
}

func (s *Stats) Add(o Stats) {
	s.Queries += o.Queries
	s.Sat += o.Sat
	s.Unsat += o.Unsat
	s.Unknown += o.Unknown
	s.Errors += o.Errors
	s.Seconds += o.Seconds
	s.Restarts += o.Restarts
	s.XQueries += o.XQueries
	s.XAgree += o.XAgree
	s.XDisagree += o.XDisagree
	s.XUnknown += o.XUnknown
	s.XSeconds += o.XSeconds
	s.XPruneSeen += o.XPruneSeen
}

// Solver is one persistent SMT-LIB2 process. All definitions and assertions
// of a path live in one (push) level; branch feasibility uses
// check-sat-assuming so nothing is ever defined inside a nested scope.
type Solver struct {
	Cmd       []string
	TimeoutMS int
	Stats     Stats
	Log       io.Writer // optional transcript

	X *Solver // optional second solver: verdicts handed to CrossCheck are re-decided by it from a standalone script

	cmd     *exec.Cmd
	in      io.WriteCloser
	out     *bufio.Reader
	defined map[*Term]bool
	open    bool
}

func NewSolver(cmd []string, timeoutMS int) *Solver {
	return &Solver{Cmd: cmd, TimeoutMS: timeoutMS}
}

func (s *Solver) start() error {
	s.cmd = exec.Command(s.Cmd[0], s.Cmd[1:]...)
	in, err := s.cmd.StdinPipe()
	if err != nil {
		return err
	}
	out, err := s.cmd.StdoutPipe()
	if err != nil {
		return err
	}
	s.cmd.Stderr = s.cmd.Stdout
	if err := s.cmd.Start(); err != nil {
		return err
	}
	s.in = in
	s.out = bufio.NewReaderSize(out, 1<<16)
	s.send("(set-option :print-success false)")
	if strings.Contains(s.Cmd[0], "z3") {
		s.send(fmt.Sprintf("(set-option :timeout %d)", s.TimeoutMS))
	}
	return nil
}

func (s *Solver) send(line string) {
	if s.Log != nil {
		fmt.Fprintln(s.Log, line)
	}
	io.WriteString(s.in, line)
	io.WriteString(s.in, "\n")
}

func (s *Solver) Close() {
	if s.X != nil {
		s.X.Close()
	}
	if s.cmd != nil {
		s.in.Close()
		done := make(chan struct{})
		go func() { s.cmd.Wait(); close(done) }()
		select {
		case <-done:
		case <-time.After(2 * time.Second):
			s.cmd.Process.Kill()
		}
		s.cmd = nil
	}
}

func (s *Solver) restart() {
	if s.cmd != nil {
		s.cmd.Process.Kill()
		s.cmd.Wait()
		s.cmd = nil
	}
	s.Stats.Restarts++
	s.open = false
}

// Begin opens the scope for one path.
func (s *Solver) Begin() {
	if s.cmd == nil {
		if err := s.start(); err != nil {
			panic(err)
		}
	}
	// Every path starts from a reset solver: the answers (and models) of a path then depend only on the
	// path's own sequence of commands, not on which worker ran which paths before (reproducible witnesses).
	s.send("(reset)")
	s.send("(set-option :print-success false)")
	if strings.Contains(s.Cmd[0], "z3") {
		s.send(fmt.Sprintf("(set-option :timeout %d)", s.TimeoutMS))
	}
	s.defined = map[*Term]bool{}
	s.open = true
}

// End closes the path scope.
func (s *Solver) End() {
	s.open = false
}

func (s *Solver) define(t *Term) {
	if t.Op == OpConst || s.defined[t] {
		return
	}
	// iterative post-order to avoid deep recursion on long chains
	type fr struct {
		t *Term
		i int
	}
	stack := []fr{{t, 0}}
	for len(stack) > 0 {
		f := &stack[len(stack)-1]
		if f.i < len(f.t.Args) {
			a := f.t.Args[f.i]
			f.i++
			if a.Op != OpConst && !s.defined[a] {
				stack = append(stack, fr{a, 0})
			}
			continue
		}
		u := f.t
		stack = stack[:len(stack)-1]
		if s.defined[u] {
			continue
		}
		s.defined[u] = true
		if u.Op == OpVar {
			s.send(fmt.Sprintf("(declare-const %s %s)", smtName(u), sortOf(u)))
			if u.Dom != nil {
				s.send(fmt.Sprintf("(assert %s)", domAssertion(u)))
			}
		} else {
			s.send(fmt.Sprintf("(define-fun %s () %s %s)", smtName(u), sortOf(u), defBody(u)))
		}
	}
}

func domAssertion(u *Term) string {
	// ranges of allowed byte values
	var parts []string
	c := 0
	for c < 256 {
		if !domHas(u.Dom, uint64(c)) {
			c++
			continue
		}
		lo := c
		for c < 256 && domHas(u.Dom, uint64(c)) {
			c++
		}
		hi := c - 1
		if lo == hi {
			parts = append(parts, fmt.Sprintf("(= %s #x%02x)", smtName(u), lo))
		} else {
			parts = append(parts, fmt.Sprintf("(and (bvule #x%02x %s) (bvule %s #x%02x))", lo, smtName(u), smtName(u), hi))
		}
	}
	if len(parts) == 0 {
		return "false"
	}
	if len(parts) == 1 {
		return parts[0]
	}
	return "(or " + strings.Join(parts, " ") + ")"
}

// Assert adds t to the path scope.
func (s *Solver) Assert(t *Term) {
	if t.IsTrue() {
		return
	}
	s.define(t)
	s.send(fmt.Sprintf("(assert %s)", smtName(t)))
}

// Declare makes sure a variable is known to the solver (so that it shows in models).
func (s *Solver) Declare(t *Term) { s.define(t) }

// Check decides satisfiability of the path scope plus the extra literals.
func (s *Solver) Check(extra ...*Term) Result {
	var lits []string
	for _, t := range extra {
		if t.IsTrue() {
			continue
		}
		if t.IsFalse() {
			return Unsat
		}
		s.define(t)
		lits = append(lits, smtName(t))
	}
	t0 := time.Now()
	if len(lits) == 0 {
		s.send("(check-sat)")
	} else {
		s.send("(check-sat-assuming (" + strings.Join(lits, " ") + "))")
	}
	r := s.readResult()
	s.Stats.Queries++
	s.Stats.Seconds += time.Since(t0).Seconds()
	switch r {
	case Sat:
		s.Stats.Sat++
	case Unsat:
		s.Stats.Unsat++
	default:
		s.Stats.Unknown++
	}
	return r
}

func (s *Solver) readLine() (string, error) {
	type res struct {
		l   string
		err error
	}
	ch := make(chan res, 1)
	go func() {
		l, err := s.out.ReadString('\n')
		ch <- res{l, err}
	}()
	select {
	case r := <-ch:
		return strings.TrimSpace(r.l), r.err
	case <-time.After(time.Duration(s.TimeoutMS)*time.Millisecond + 20*time.Second):
		return "", fmt.Errorf("solver read timeout")
	}
}

func (s *Solver) readResult() Result {
	for {
		l, err := s.readLine()
		if err != nil {
			s.Stats.Errors++
			s.restart()
			return Unknown
		}
		switch {
		case l == "sat":
			return Sat
		case l == "unsat":
			return Unsat
		case l == "unknown" || l == "timeout":
			return Unknown
		case strings.HasPrefix(l, "(error"):
			s.Stats.Errors++
			if s.Log != nil {
				fmt.Fprintln(s.Log, "; <<", l)
			}
			// an error line makes the whole answer inconclusive; drain the answer that follows
			l2, _ := s.readLine()
			_ = l2
			return Unknown
		case l == "":
			continue
		default:
			// warnings and other chatter
			continue
		}
	}
}

var valRe = regexp.MustCompile(`\(\s*(\|[^|]*\||[^\s()]+)\s+(#x[0-9a-fA-F]+|#b[01]+|true|false)\s*\)`)

// Model returns the values of the given variables after a Sat answer.
func (s *Solver) Model(vars []*Term) map[string]uint64 {
	m := map[string]uint64{}
	var names []string
	for _, v := range vars {
		if s.defined[v] {
			names = append(names, smtName(v))
		} else {
			m[v.Name] = 0
		}
	}
	if len(names) == 0 {
		return m
	}
	s.send("(get-value (" + strings.Join(names, " ") + "))")
	// read until parentheses balance
	depth := 0
	var sb strings.Builder
	started := false
	for {
		l, err := s.readLine()
		if err != nil {
			s.restart()
			return m
		}
		if strings.HasPrefix(l, "(error") {
			return m
		}
		sb.WriteString(l)
		sb.WriteString(" ")
		for _, c := range l {
			if c == '(' {
				depth++
				started = true
			} else if c == ')' {
				depth--
			}
		}
		if started && depth <= 0 {
			break
		}
	}
	for _, mm := range valRe.FindAllStringSubmatch(sb.String(), -1) {
		name := strings.Trim(mm[1], "|")
		v := mm[2]
		var x uint64
		switch {
		case v == "true":
			x = 1
		case v == "false":
			x = 0
		case strings.HasPrefix(v, "#x"):
			x, _ = strconv.ParseUint(v[2:], 16, 64)
		case strings.HasPrefix(v, "#b"):
			x, _ = strconv.ParseUint(v[2:], 2, 64)
		}
		m[name] = x
	}
	return m
}

// OneShot decides a self-contained script with another solver binary (cross-check).
func OneShot(cmd []string, script string, timeout time.Duration) Result {
	c := exec.Command(cmd[0], cmd[1:]...)
	c.Stdin = strings.NewReader(script)
	done := make(chan []byte, 1)
	go func() {
		out, _ := c.CombinedOutput()
		done <- out
	}()
	select {
	case out := <-done:
		txt := string(out)
		if strings.Contains(txt, "(error") {
			return Unknown
		}
		for _, l := range strings.Split(txt, "\n") {
			l = strings.TrimSpace(l)
			if l == "sat" {
				return Sat
			}
			if l == "unsat" {
				return Unsat
			}
		}
		return Unknown
	case <-time.After(timeout):
		if c.Process != nil {
			c.Process.Kill()
		}
		return Unknown
	}
}

// Script renders a standalone SMT-LIB2 problem: the conjunction of ts.
func Script(ts []*Term) string {
	var sb strings.Builder
	defined := map[*Term]bool{}
	var def func(t *Term)
	def = func(t *Term) {
		if t.Op == OpConst || defined[t] {
			return
		}
		for _, a := range t.Args {
			def(a)
		}
		defined[t] = true
		if t.Op == OpVar {
			fmt.Fprintf(&sb, "(declare-const %s %s)\n", smtName(t), sortOf(t))
			if t.Dom != nil {
				fmt.Fprintf(&sb, "(assert %s)\n", domAssertion(t))
			}
		} else {
			fmt.Fprintf(&sb, "(define-fun %s () %s %s)\n", smtName(t), sortOf(t), defBody(t))
		}
	}
	for _, t := range ts {
		def(t)
		fmt.Fprintf(&sb, "(assert %s)\n", smtName(t))
	}
	sb.WriteString("(check-sat)\n")
	return sb.String()
}

// CheckScript decides a standalone problem (declarations, assertions, no check-sat) from a reset state.
func (s *Solver) CheckScript(script string) Result {
	if s.cmd == nil {
		if err := s.start(); err != nil {
			return Unknown
		}
	}
	s.send("(reset)")
	s.send("(set-option :print-success false)")
	if strings.Contains(s.Cmd[0], "z3") {
		s.send(fmt.Sprintf("(set-option :timeout %d)", s.TimeoutMS))
	}
	s.send(script)
	return s.readResult()
}

// CrossCheck re-decides "ts is satisfiable" with the second solver and compares with the primary verdict.
// It returns false when the two solvers contradict each other (sat versus unsat); an unknown of the second
// solver is counted and not treated as a contradiction.
func (s *Solver) CrossCheck(primary Result, ts []*Term) bool {
	if s.X == nil || primary == Unknown {
		return true
	}
	t0 := time.Now()
	r := s.X.CheckScript(Script(ts))
	s.Stats.XQueries++
	s.Stats.XSeconds += time.Since(t0).Seconds()
	switch {
	case r == Unknown:
		s.Stats.XUnknown++
	case r == primary:
		s.Stats.XAgree++
	default:
		s.Stats.XDisagree++
		return false
	}
	return true
}
