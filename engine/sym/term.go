// Package sym is a small hash-consed term language (Bool and fixed-width
// bit-vectors) with constant folding, an SMT-LIB2 printer and a persistent
// solver pipe. It is the only thing the rest of the engine hands to z3.
package sym

import (
	"fmt"
	"math/bits"
	"strings"
)

type Op uint8

const (
	OpConst Op = iota // BV constant (Val, W) or Bool constant (W==0, Val 0/1)
	OpVar
	OpNot
	OpAnd
	OpOr
	OpEq
	OpIte
	OpAdd
	OpSub
	OpMul
	OpSDiv
	OpSRem
	OpUDiv
	OpURem
	OpNeg
	OpBAnd
	OpBOr
	OpBXor
	OpBNot
	OpShl
	OpLShr
	OpAShr
	OpULt
	OpULe
	OpSLt
	OpSLe
	OpZExt
	OpSExt
	OpExtract // Val = lo, W = width
)

var opNames = map[Op]string{
	OpNot: "not", OpAnd: "and", OpOr: "or", OpEq: "=", OpIte: "ite",
	OpAdd: "bvadd", OpSub: "bvsub", OpMul: "bvmul", OpSDiv: "bvsdiv", OpSRem: "bvsrem",
	OpUDiv: "bvudiv", OpURem: "bvurem", OpNeg: "bvneg", OpBAnd: "bvand", OpBOr: "bvor",
	OpBXor: "bvxor", OpBNot: "bvnot", OpShl: "bvshl", OpLShr: "bvlshr", OpAShr: "bvashr",
	OpULt: "bvult", OpULe: "bvule", OpSLt: "bvslt", OpSLe: "bvsle",
}

// Term is immutable and unique per Builder (pointer equality == structural equality).
type Term struct {
	Op   Op
	W    int    // 0 = Bool, else bit-vector width (<=64)
	Val  uint64 // constant value / extract lo
	Name string // variable name
	Args []*Term
	ID   int
	// Dom, for 8-bit variables, is the set of byte values the variable may
	// take (nil = all). It is asserted to the solver when the variable is
	// declared and used for cheap folding of comparisons with constants.
	Dom *[4]uint64
}

func (t *Term) IsConst() bool { return t.Op == OpConst }
func (t *Term) IsBool() bool  { return t.W == 0 }
func (t *Term) IsTrue() bool  { return t.Op == OpConst && t.W == 0 && t.Val == 1 }
func (t *Term) IsFalse() bool { return t.Op == OpConst && t.W == 0 && t.Val == 0 }

// Signed returns the constant as a sign-extended int64.
func (t *Term) Signed() int64 {
	if t.W == 0 || t.W == 64 {
		return int64(t.Val)
	}
	s := uint(64 - t.W)
	return int64(t.Val<<s) >> s
}

type Builder struct {
	table map[string]*Term
	next  int
	Vars  []*Term
	True  *Term
	False *Term
}

func NewBuilder() *Builder {
	b := &Builder{table: map[string]*Term{}}
	b.True = b.mk(&Term{Op: OpConst, W: 0, Val: 1})
	b.False = b.mk(&Term{Op: OpConst, W: 0, Val: 0})
	return b
}

func (b *Builder) key(t *Term) string {
	var sb strings.Builder
	fmt.Fprintf(&sb, "%d/%d/%d/%s", t.Op, t.W, t.Val, t.Name)
	for _, a := range t.Args {
		fmt.Fprintf(&sb, ",%d", a.ID)
	}
	return sb.String()
}

func (b *Builder) mk(t *Term) *Term {
	k := b.key(t)
	if e, ok := b.table[k]; ok {
		return e
	}
	t.ID = b.next
	b.next++
	b.table[k] = t
	if t.Op == OpVar {
		b.Vars = append(b.Vars, t)
	}
	return t
}

func mask(w int) uint64 {
	if w >= 64 {
		return ^uint64(0)
	}
	return (uint64(1) << uint(w)) - 1
}

func (b *Builder) Bool(v bool) *Term {
	if v {
		return b.True
	}
	return b.False
}

func (b *Builder) BV(v uint64, w int) *Term {
	return b.mk(&Term{Op: OpConst, W: w, Val: v & mask(w)})
}

func (b *Builder) Int(v int64, w int) *Term { return b.BV(uint64(v), w) }

// Var creates (or returns) a named variable. w==0: Bool.
func (b *Builder) Var(name string, w int) *Term {
	return b.mk(&Term{Op: OpVar, W: w, Name: name})
}

// ByteVar creates an 8-bit variable restricted to the given alphabet ("" = any).
func (b *Builder) ByteVar(name string, alphabet string) *Term {
	t := b.Var(name, 8)
	if alphabet != "" && t.Dom == nil {
		var d [4]uint64
		for i := 0; i < len(alphabet); i++ {
			c := alphabet[i]
			d[c>>6] |= 1 << (c & 63)
		}
		t.Dom = &d
	}
	return t
}

func domHas(d *[4]uint64, c uint64) bool { return d[c>>6]&(1<<(c&63)) != 0 }

// domEval evaluates pred over the domain of v: returns (allTrue, allFalse).
func domEval(v *Term, pred func(c uint64) bool) (bool, bool) {
	if v.Op != OpVar || v.Dom == nil {
		return false, false
	}
	at, af := true, true
	for c := uint64(0); c < 256; c++ {
		if domHas(v.Dom, c) {
			if pred(c) {
				af = false
			} else {
				at = false
			}
		}
	}
	return at, af
}

func (b *Builder) Not(a *Term) *Term {
	if a.IsConst() {
		return b.Bool(a.Val == 0)
	}
	if a.Op == OpNot {
		return a.Args[0]
	}
	return b.mk(&Term{Op: OpNot, Args: []*Term{a}})
}

func (b *Builder) And(xs ...*Term) *Term {
	var out []*Term
	seen := map[*Term]bool{}
	for _, x := range xs {
		if x.IsFalse() {
			return b.False
		}
		if x.IsTrue() || seen[x] {
			continue
		}
		if x.Op == OpAnd {
			for _, y := range x.Args {
				if !seen[y] {
					seen[y] = true
					out = append(out, y)
				}
			}
			continue
		}
		seen[x] = true
		out = append(out, x)
	}
	for _, x := range out {
		if seen[b.Not(x)] && x.Op != OpNot {
			return b.False
		}
	}
	switch len(out) {
	case 0:
		return b.True
	case 1:
		return out[0]
	}
	return b.mk(&Term{Op: OpAnd, Args: out})
}

func (b *Builder) Or(xs ...*Term) *Term {
	var out []*Term
	seen := map[*Term]bool{}
	for _, x := range xs {
		if x.IsTrue() {
			return b.True
		}
		if x.IsFalse() || seen[x] {
			continue
		}
		if x.Op == OpOr {
			for _, y := range x.Args {
				if !seen[y] {
					seen[y] = true
					out = append(out, y)
				}
			}
			continue
		}
		seen[x] = true
		out = append(out, x)
	}
	for _, x := range out {
		if seen[b.Not(x)] && x.Op != OpNot {
			return b.True
		}
	}
	switch len(out) {
	case 0:
		return b.False
	case 1:
		return out[0]
	}
	return b.mk(&Term{Op: OpOr, Args: out})
}

func (b *Builder) Implies(a, c *Term) *Term { return b.Or(b.Not(a), c) }

func (b *Builder) Eq(x, y *Term) *Term {
	if x == y {
		return b.True
	}
	if x.W != y.W {
		panic(fmt.Sprintf("sym.Eq: width mismatch %d vs %d", x.W, y.W))
	}
	if x.IsConst() && y.IsConst() {
		return b.Bool(x.Val == y.Val)
	}
	if x.IsConst() {
		x, y = y, x
	}
	if y.IsConst() {
		if x.W == 0 {
			if y.Val == 1 {
				return x
			}
			return b.Not(x)
		}
		if at, af := domEval(x, func(c uint64) bool { return c == y.Val }); at {
			return b.True
		} else if af {
			return b.False
		}
		// (ite c a b) == k with constant a,b
		if x.Op == OpIte && x.Args[1].IsConst() && x.Args[2].IsConst() {
			ta, tb := x.Args[1].Val == y.Val, x.Args[2].Val == y.Val
			switch {
			case ta && tb:
				return b.True
			case ta:
				return x.Args[0]
			case tb:
				return b.Not(x.Args[0])
			default:
				return b.False
			}
		}
		// zext(v) == k
		if x.Op == OpZExt {
			inner := x.Args[0]
			if y.Val > mask(inner.W) {
				return b.False
			}
			return b.Eq(inner, b.BV(y.Val, inner.W))
		}
	}
	if x.ID > y.ID {
		x, y = y, x
	}
	return b.mk(&Term{Op: OpEq, Args: []*Term{x, y}})
}

func (b *Builder) Ite(c, x, y *Term) *Term {
	if c.IsTrue() {
		return x
	}
	if c.IsFalse() {
		return y
	}
	if x == y {
		return x
	}
	if x.W != y.W {
		panic("sym.Ite: width mismatch")
	}
	if x.W == 0 {
		if x.IsTrue() && y.IsFalse() {
			return c
		}
		if x.IsFalse() && y.IsTrue() {
			return b.Not(c)
		}
		return b.Or(b.And(c, x), b.And(b.Not(c), y))
	}
	return b.mk(&Term{Op: OpIte, W: x.W, Args: []*Term{c, x, y}})
}

func sx(v uint64, w int) int64 {
	if w >= 64 {
		return int64(v)
	}
	s := uint(64 - w)
	return int64(v<<s) >> s
}

func evalBin(op Op, a, c uint64, w int) uint64 {
	var r uint64
	switch op {
	case OpAdd:
		r = a + c
	case OpSub:
		r = a - c
	case OpMul:
		r = a * c
	case OpUDiv:
		if c == 0 {
			r = mask(w)
		} else {
			r = a / c
		}
	case OpURem:
		if c == 0 {
			r = a
		} else {
			r = a % c
		}
	case OpSDiv:
		sa, sc := sx(a, w), sx(c, w)
		if sc == 0 {
			if sa >= 0 {
				r = mask(w)
			} else {
				r = 1
			}
		} else if sc == -1 {
			r = uint64(-sa)
		} else {
			r = uint64(sa / sc)
		}
	case OpSRem:
		sa, sc := sx(a, w), sx(c, w)
		if sc == 0 {
			r = a
		} else if sc == -1 {
			r = 0
		} else {
			r = uint64(sa % sc)
		}
	case OpBAnd:
		r = a & c
	case OpBOr:
		r = a | c
	case OpBXor:
		r = a ^ c
	case OpShl:
		if c >= uint64(w) {
			r = 0
		} else {
			r = a << c
		}
	case OpLShr:
		if c >= uint64(w) {
			r = 0
		} else {
			r = a >> c
		}
	case OpAShr:
		if c >= uint64(w) {
			c = uint64(w - 1)
		}
		r = uint64(sx(a, w) >> c)
	default:
		panic("sym.Bin: bad op")
	}
	return r & mask(w)
}

// Bin builds an arithmetic / bitwise binary operation.
func (b *Builder) Bin(op Op, x, y *Term) *Term {
	if x.W != y.W {
		panic(fmt.Sprintf("sym.Bin %s: width mismatch %d vs %d", opNames[op], x.W, y.W))
	}
	w := x.W
	if x.IsConst() && y.IsConst() {
		return b.BV(evalBin(op, x.Val, y.Val, w), w)
	}
	switch op {
	case OpAdd:
		if x.IsConst() {
			x, y = y, x
		}
		if y.IsConst() && y.Val == 0 {
			return x
		}
		// (x + c1) + c2
		if y.IsConst() && x.Op == OpAdd && x.Args[1].IsConst() {
			return b.Bin(OpAdd, x.Args[0], b.BV(x.Args[1].Val+y.Val, w))
		}
	case OpSub:
		if y.IsConst() {
			return b.Bin(OpAdd, x, b.BV(-y.Val, w))
		}
		if x == y {
			return b.BV(0, w)
		}
	case OpMul:
		if x.IsConst() {
			x, y = y, x
		}
		if y.IsConst() && y.Val == 1 {
			return x
		}
		if y.IsConst() && y.Val == 0 {
			return y
		}
	}
	if (op == OpAdd || op == OpMul || op == OpBAnd || op == OpBOr || op == OpBXor) && !y.IsConst() && x.ID > y.ID {
		x, y = y, x
	}
	return b.mk(&Term{Op: op, W: w, Args: []*Term{x, y}})
}

func (b *Builder) Neg(x *Term) *Term {
	if x.IsConst() {
		return b.BV(-x.Val, x.W)
	}
	return b.mk(&Term{Op: OpNeg, W: x.W, Args: []*Term{x}})
}

func (b *Builder) BNot(x *Term) *Term {
	if x.IsConst() {
		return b.BV(^x.Val, x.W)
	}
	return b.mk(&Term{Op: OpBNot, W: x.W, Args: []*Term{x}})
}

// Cmp builds OpULt/OpULe/OpSLt/OpSLe.
func (b *Builder) Cmp(op Op, x, y *Term) *Term {
	if x.W != y.W {
		panic("sym.Cmp: width mismatch")
	}
	w := x.W
	ev := func(a, c uint64) bool {
		switch op {
		case OpULt:
			return a < c
		case OpULe:
			return a <= c
		case OpSLt:
			return sx(a, w) < sx(c, w)
		case OpSLe:
			return sx(a, w) <= sx(c, w)
		}
		panic("sym.Cmp: bad op")
	}
	if x.IsConst() && y.IsConst() {
		return b.Bool(ev(x.Val, y.Val))
	}
	if x == y {
		return b.Bool(op == OpULe || op == OpSLe)
	}
	if y.IsConst() {
		if at, af := domEval(x, func(c uint64) bool { return ev(c, y.Val) }); at {
			return b.True
		} else if af {
			return b.False
		}
		if x.Op == OpZExt && (op == OpULt || op == OpULe || sx(y.Val, w) >= 0) {
			inner := x.Args[0]
			if y.Val > mask(inner.W) {
				return b.True
			}
			uop := op
			if op == OpSLt {
				uop = OpULt
			} else if op == OpSLe {
				uop = OpULe
			}
			return b.Cmp(uop, inner, b.BV(y.Val, inner.W))
		}
	}
	if x.IsConst() {
		if at, af := domEval(y, func(c uint64) bool { return ev(x.Val, c) }); at {
			return b.True
		} else if af {
			return b.False
		}
		if y.Op == OpZExt && (op == OpULt || op == OpULe || sx(x.Val, w) >= 0) {
			inner := y.Args[0]
			if x.Val > mask(inner.W) {
				return b.False
			}
			uop := op
			if op == OpSLt {
				uop = OpULt
			} else if op == OpSLe {
				uop = OpULe
			}
			return b.Cmp(uop, b.BV(x.Val, inner.W), inner)
		}
	}
	return b.mk(&Term{Op: op, Args: []*Term{x, y}})
}

func (b *Builder) ZExt(x *Term, w int) *Term {
	if w == x.W {
		return x
	}
	if w < x.W {
		return b.Extract(x, 0, w)
	}
	if x.IsConst() {
		return b.BV(x.Val, w)
	}
	return b.mk(&Term{Op: OpZExt, W: w, Args: []*Term{x}})
}

func (b *Builder) SExt(x *Term, w int) *Term {
	if w == x.W {
		return x
	}
	if w < x.W {
		return b.Extract(x, 0, w)
	}
	if x.IsConst() {
		return b.BV(uint64(sx(x.Val, x.W)), w)
	}
	return b.mk(&Term{Op: OpSExt, W: w, Args: []*Term{x}})
}

func (b *Builder) Extract(x *Term, lo, w int) *Term {
	if lo == 0 && w == x.W {
		return x
	}
	if x.IsConst() {
		return b.BV(x.Val>>uint(lo), w)
	}
	if lo == 0 && (x.Op == OpZExt || x.Op == OpSExt) && x.Args[0].W >= w {
		return b.Extract(x.Args[0], 0, w)
	}
	return b.mk(&Term{Op: OpExtract, W: w, Val: uint64(lo), Args: []*Term{x}})
}

// ---------------------------------------------------------------- printing

func sortOf(t *Term) string {
	if t.W == 0 {
		return "Bool"
	}
	return fmt.Sprintf("(_ BitVec %d)", t.W)
}

func constStr(t *Term) string {
	if t.W == 0 {
		if t.Val == 1 {
			return "true"
		}
		return "false"
	}
	if t.W%4 == 0 {
		return fmt.Sprintf("#x%0*x", t.W/4, t.Val)
	}
	return fmt.Sprintf("#b%0*b", t.W, t.Val)
}

func smtName(t *Term) string {
	if t.Op == OpConst {
		return constStr(t)
	}
	if t.Op == OpVar {
		return "|" + t.Name + "|"
	}
	return fmt.Sprintf("t%d", t.ID)
}

func defBody(t *Term) string {
	var sb strings.Builder
	switch t.Op {
	case OpZExt:
		fmt.Fprintf(&sb, "((_ zero_extend %d) %s)", t.W-t.Args[0].W, smtName(t.Args[0]))
	case OpSExt:
		fmt.Fprintf(&sb, "((_ sign_extend %d) %s)", t.W-t.Args[0].W, smtName(t.Args[0]))
	case OpExtract:
		fmt.Fprintf(&sb, "((_ extract %d %d) %s)", int(t.Val)+t.W-1, t.Val, smtName(t.Args[0]))
	default:
		sb.WriteString("(")
		sb.WriteString(opNames[t.Op])
		for _, a := range t.Args {
			sb.WriteString(" ")
			sb.WriteString(smtName(a))
		}
		sb.WriteString(")")
	}
	return sb.String()
}

// Eval evaluates t under a model (variable name -> value). Missing variables are 0.
func Eval(t *Term, m map[string]uint64) uint64 {
	memo := map[*Term]uint64{}
	var ev func(t *Term) uint64
	ev = func(t *Term) uint64 {
		if v, ok := memo[t]; ok {
			return v
		}
		var r uint64
		a := func(i int) uint64 { return ev(t.Args[i]) }
		bo := func(c bool) uint64 {
			if c {
				return 1
			}
			return 0
		}
		switch t.Op {
		case OpConst:
			r = t.Val
		case OpVar:
			r = m[t.Name] & mask64(t.W)
		case OpNot:
			r = 1 - a(0)
		case OpAnd:
			r = 1
			for i := range t.Args {
				if a(i) == 0 {
					r = 0
					break
				}
			}
		case OpOr:
			r = 0
			for i := range t.Args {
				if a(i) == 1 {
					r = 1
					break
				}
			}
		case OpEq:
			r = bo(a(0) == a(1))
		case OpIte:
			if a(0) == 1 {
				r = a(1)
			} else {
				r = a(2)
			}
		case OpNeg:
			r = (-a(0)) & mask(t.W)
		case OpBNot:
			r = (^a(0)) & mask(t.W)
		case OpULt:
			r = bo(a(0) < a(1))
		case OpULe:
			r = bo(a(0) <= a(1))
		case OpSLt:
			w := t.Args[0].W
			r = bo(sx(a(0), w) < sx(a(1), w))
		case OpSLe:
			w := t.Args[0].W
			r = bo(sx(a(0), w) <= sx(a(1), w))
		case OpZExt:
			r = a(0)
		case OpSExt:
			r = uint64(sx(a(0), t.Args[0].W)) & mask(t.W)
		case OpExtract:
			r = (a(0) >> t.Val) & mask(t.W)
		default:
			// binary arithmetic: reuse constant folder
			r = evalBin(t.Op, a(0), a(1), t.W)
		}
		memo[t] = r
		return r
	}
	return ev(t)
}

func mask64(w int) uint64 {
	if w == 0 {
		return 1
	}
	return mask(w)
}

var _ = bits.Len
