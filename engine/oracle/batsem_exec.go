package oracle

import (
	"sort"
	"strconv"
	"strings"

	"verif/engine/gosym"
	"verif/engine/sym"
)

// ---------------------------------------------------------------------------
// BatSem, part 2: execution (phases 4 to 7) over symbolic values.
// ---------------------------------------------------------------------------

type batCtl int

const (
	batCtlNone   batCtl = iota
	batCtlGoto          // jump to sh.target in the current frame
	batCtlReturn        // exit /B, goto :EOF
)

type batForVar struct {
	name byte
	val  Str
}

type batLocal struct {
	vars    map[string]Str
	delayed bool
}

// BatShell is the state of one cmd.exe batch context.
type BatShell struct {
	C      *gosym.Ctx
	Out    []Str // stdout chunks (line ends are "\n")
	Err    []Str
	Files  map[string]Str // virtual file system (contents as written, i.e. with "\r\n" after echo)
	Stdin  []Str          // lines available to set /p
	Events []string

	// ErrorLevel is the value of the last `exit /B n`.
	ErrorLevel gosym.Value
	// MaxSteps bounds the number of executed commands (default 200000).
	MaxSteps int

	vars    map[string]Str // upper-cased name -> value (defined <=> present)
	lines   [][]Unit
	labels  []string // per line: upper-cased label or ""
	args    [][]Str  // call frames: %1.. of each frame
	forVars []batForVar
	locals  []batLocal // setlocal stack of the current call frame
	delayed bool
	ctl     batCtl
	target  int
	pos     int // index of the line after the command being executed (start of the label search)
	steps   int
	depth   int
}

func NewBatShell(c *gosym.Ctx) *BatShell {
	return &BatShell{C: c, Files: map[string]Str{}, vars: map[string]Str{}, ErrorLevel: int64(0), MaxSteps: 200000}
}

func (sh *BatShell) event(e string) { sh.Events = append(sh.Events, e) }

// RunScript runs a batch script; it returns stdout as one rope and the exit status
// (the operand of the `exit /B` that ended the script).
func (sh *BatShell) RunScript(script Str) (out Str, status gosym.Value) {
	sh.lines = batSplitLines(script)
	sh.labels = make([]string, len(sh.lines))
	for i, l := range sh.lines {
		sh.labels[i], _ = batLabelOf(l)
	}
	sh.args = [][]Str{nil}
	sh.runFrame(0)
	return gosym.Concat(sh.Out...), sh.ErrorLevel
}

func (sh *BatShell) tick() {
	sh.steps++
	if sh.steps&255 == 0 && sh.C.WallExceeded() {
		batUnsup("step budget exceeded (wall-clock limit of the path; non-terminating script?)")
	}
	if sh.steps > sh.MaxSteps {
		batUnsup("step budget exceeded (non-terminating script?)")
	}
}

// runFrame executes lines from index pc until the frame returns (exit /B, goto :EOF, end of file).
func (sh *BatShell) runFrame(pc int) {
	for pc < len(sh.lines) {
		cmd, next := sh.parseAt(pc)
		sh.pos = next
		sh.exec(cmd)
		switch sh.ctl {
		case batCtlGoto:
			sh.ctl = batCtlNone
			pc = sh.target
		case batCtlReturn:
			sh.ctl = batCtlNone
			return
		default:
			pc = next
		}
	}
}

func (sh *BatShell) arg(n int) Str {
	top := sh.args[len(sh.args)-1]
	if n >= 1 && n <= len(top) {
		return top[n-1]
	}
	return Str{}
}

func (sh *BatShell) concInt(t *sym.Term, lo, hi int, what string) int {
	if t.IsConst() {
		return int(t.Signed())
	}
	for k := lo; k <= hi; k++ {
		if sh.C.Branch(sh.C.B.Eq(t, sh.C.B.Int(int64(k), t.W))) {
			return k
		}
	}
	batUnsup("symbolic %s outside the modelled range %d..%d", what, lo, hi)
	return 0
}

// concText renders units as a concrete string; decimal atoms are enumerated in 0..idxMax.
func (sh *BatShell) concText(u []Unit, what string) string {
	var sb strings.Builder
	for _, x := range u {
		switch {
		case x.D != nil:
			sb.WriteString(strconv.Itoa(sh.concInt(x.D, 0, idxMax, "number inside "+what)))
		case x.B != nil:
			batUnsup("%s depends on a data byte", what)
		default:
			sb.WriteString(x.S)
		}
	}
	return sb.String()
}

func (sh *BatShell) getVar(name string) (Str, bool) {
	v, ok := sh.vars[strings.ToUpper(name)]
	return v, ok
}

func (sh *BatShell) setVar(name string, v Str) {
	k := strings.ToUpper(name)
	if len(v.Segs) == 0 {
		delete(sh.vars, k)
		return
	}
	sh.vars[k] = v
}

// ---------------------------------------------------------------- phases 4 and 5

// forSubst replaces %x / %~x for the FOR variables that are in scope.
func (sh *BatShell) forSubst(u []Unit) []Unit {
	if len(sh.forVars) == 0 {
		return u
	}
	find := func(b byte) (Str, bool) {
		for k := len(sh.forVars) - 1; k >= 0; k-- {
			if sh.forVars[k].name == b {
				return sh.forVars[k].val, true
			}
		}
		return Str{}, false
	}
	var out []Unit
	for i := 0; i < len(u); i++ {
		if isConcByte(u[i], '%') && i+1 < len(u) {
			if b, ok := concChar(u[i+1]); ok {
				if v, ok := find(b); ok {
					out = append(out, v.Units()...)
					i++
					continue
				}
				if b == '~' && i+2 < len(u) {
					if b2, ok := concChar(u[i+2]); ok {
						if v, ok := find(b2); ok {
							out = append(out, batStripQuotes(v.Units())...)
							i += 2
							continue
						}
					}
				}
			}
		}
		out = append(out, u[i])
	}
	return out
}

// delayedExpand is phase 5 for one token: only when the token contains "!", carets
// escape the next character and !name! / !name:~a,b! are replaced; an unpaired "!" vanishes.
func (sh *BatShell) delayedExpand(u []Unit) []Unit {
	if !sh.delayed {
		return u
	}
	has := false
	for _, x := range u {
		if isConcByte(x, '!') {
			has = true
			break
		}
	}
	if !has {
		return u
	}
	out := make([]Unit, 0, len(u))
	i := 0
	for i < len(u) {
		b, ok := concChar(u[i])
		if ok && b == '^' {
			if i+1 < len(u) {
				out = append(out, u[i+1])
			}
			i += 2
			continue
		}
		if !ok || b != '!' {
			out = append(out, u[i])
			i++
			continue
		}
		for i+1 < len(u) && isConcByte(u[i+1], '!') {
			i++ // consecutive opening exclamation marks collapse
		}
		j := i + 1
		for j < len(u) && !isConcByte(u[j], '!') {
			j++
		}
		if j >= len(u) {
			sh.event("exclamation-unpaired")
			i++
			continue
		}
		inner := u[i+1 : j]
		colon := -1
		for k, x := range inner {
			if isConcByte(x, ':') {
				colon = k
				break
			}
		}
		if colon < 0 {
			name := sh.concText(inner, "variable name")
			if v, ok := sh.getVar(name); ok {
				out = append(out, v.Units()...)
			} else if batDynamicVar(name) {
				batUnsup("dynamic variable !%s!", name)
			}
		} else {
			name := sh.concText(inner[:colon], "variable name")
			v, ok := sh.getVar(name)
			if !ok {
				batUnsup("!%s:...! with an undefined variable (the modifier text is left in place by cmd.exe)", name)
			}
			out = append(out, sh.substring(name, v, inner[colon+1:]).Units()...)
		}
		i = j + 1
	}
	return out
}

// substring implements !name:~a,b! (help set).
func (sh *BatShell) substring(name string, v Str, mod []Unit) Str {
	if len(mod) == 0 || !isConcByte(mod[0], '~') {
		batUnsup("!%s:search=replace! expansion", name)
	}
	mod = mod[1:]
	readInt := func() (int, bool) {
		if len(mod) == 0 {
			return 0, false
		}
		if mod[0].D != nil {
			k := sh.concInt(mod[0].D, -idxMax, idxMax, "substring position")
			mod = mod[1:]
			return k, true
		}
		j := 0
		if isConcByte(mod[0], '-') || isConcByte(mod[0], '+') {
			j++
		}
		st := j
		for j < len(mod) {
			b, ok := concChar(mod[j])
			if !ok || b < '0' || b > '9' {
				break
			}
			j++
		}
		if j == st {
			return 0, false
		}
		txt := litString(mod[:j])
		if j-st > 1 && txt[st] == '0' {
			batUnsup("substring position with a leading zero")
		}
		k, err := strconv.Atoi(txt)
		if err != nil {
			batUnsup("substring position %q", txt)
		}
		mod = mod[j:]
		return k, true
	}
	a, ok := readInt()
	if !ok {
		batUnsup("!%s:~...! without a start position", name)
	}
	hasB := false
	b := 0
	if len(mod) > 0 {
		if !isConcByte(mod[0], ',') {
			batUnsup("!%s:~! modifier %q", name, units(mod).String())
		}
		mod = mod[1:]
		b, hasB = readInt()
		if !hasB || len(mod) > 0 {
			batUnsup("!%s:~! modifier length", name)
		}
	}
	n, ok := v.Len()
	if !ok {
		batUnsup("substring of a string holding a decimal atom")
	}
	if a < 0 {
		a = max(0, n+a)
	}
	a = min(a, n)
	end := n
	if hasB {
		if b < 0 {
			end = max(a, n+b)
		} else {
			end = min(n, a+b)
		}
	}
	r, _ := v.Sub(a, end)
	return r
}

// expand applies phases 4 and 5 to one token.
func (sh *BatShell) expand(u []Unit) []Unit { return sh.delayedExpand(sh.forSubst(u)) }

// ---------------------------------------------------------------- execution

func (sh *BatShell) exec(c *batCmd) {
	switch c.kind {
	case bkNop:
	case bkSimple:
		sh.tick()
		sh.execSimple(c)
	case bkBlock, bkSeq:
		for _, s := range c.subs {
			sh.exec(s)
			if sh.ctl != batCtlNone {
				return
			}
		}
	case bkIf:
		sh.tick()
		sh.execIf(c)
	case bkFor:
		sh.tick()
		sh.execFor(c)
	}
}

func (sh *BatShell) execSimple(c *batCmd) {
	args := sh.expand(c.args)
	switch c.name {
	case "set":
		sh.doSet(args)
	case "echo":
		sh.doEcho(args)
	case "call":
		sh.doCall(args)
	case "goto":
		sh.doGoto(args)
	case "exit":
		sh.doExit(args)
	case "setlocal":
		cp := make(map[string]Str, len(sh.vars))
		for k, v := range sh.vars {
			cp[k] = v
		}
		sh.locals = append(sh.locals, batLocal{vars: cp, delayed: sh.delayed})
		for _, w := range strings.Fields(strings.ToLower(sh.concText(args, "setlocal option"))) {
			switch w {
			case "enabledelayedexpansion":
				sh.delayed = true
			case "disabledelayedexpansion":
				sh.delayed = false
			case "enableextensions":
			default:
				batUnsup("setlocal %s", w)
			}
		}
	case "endlocal":
		if n := len(sh.locals); n > 0 {
			sh.vars, sh.delayed = sh.locals[n-1].vars, sh.locals[n-1].delayed
			sh.locals = sh.locals[:n-1]
		}
	default:
		batUnsup("command %q (external program or unmodelled builtin)", c.name)
	}
}

// ---------------------------------------------------------------- set

// batSetText removes the optional quotes of `set "name=value"`: the text runs from the
// first quote to the last one; whatever follows the last quote is dropped (help set).
func batSetText(a []Unit) []Unit {
	a = batTrimLeft(a)
	if len(a) > 0 && isConcByte(a[0], '"') {
		a = a[1:]
		for k := len(a) - 1; k >= 0; k-- {
			if isConcByte(a[k], '"') {
				return a[:k]
			}
		}
	}
	return a
}

func batSwitch(a []Unit, letter byte) bool {
	if len(a) < 2 || !isConcByte(a[0], '/') {
		return false
	}
	b, ok := concChar(a[1])
	return ok && (b == letter || b == letter-32)
}

func (sh *BatShell) doSet(args []Unit) {
	a := batTrimLeft(args)
	if batSwitch(a, 'a') {
		sh.doSetA(batSetText(a[2:]))
		return
	}
	if batSwitch(a, 'p') {
		sh.doSetP(batSetText(a[2:]))
		return
	}
	name, val, ok := batSplitAssign(batSetText(a))
	if !ok {
		batUnsup("set without an equal sign (variable listing)")
	}
	sh.setVar(sh.concText(name, "variable name"), units(val))
}

func batSplitAssign(t []Unit) (name, val []Unit, ok bool) {
	for k, x := range t {
		if isConcByte(x, '=') {
			if k == 0 {
				batUnsup("set with an empty variable name")
			}
			return t[:k], t[k+1:], true
		}
	}
	return nil, nil, false
}

func (sh *BatShell) doSetP(t []Unit) {
	name, prompt, ok := batSplitAssign(t)
	if !ok {
		batUnsup("set /p without an equal sign")
	}
	vn := sh.concText(name, "variable name")
	if len(prompt) > 0 {
		sh.Out = append(sh.Out, units(prompt))
	}
	if len(sh.Stdin) == 0 {
		sh.event("set-p-eof")
		return
	}
	line := sh.Stdin[0]
	sh.Stdin = sh.Stdin[1:]
	lu := line.Units()
	if n := len(lu); n > 0 && isConcByte(lu[n-1], '\r') {
		lu = lu[:n-1]
	}
	if len(lu) == 0 {
		return // an empty input line leaves the variable unchanged
	}
	sh.setVar(vn, units(lu))
}

// ---- set /A: 32-bit signed arithmetic (help set)

type batTok struct {
	kind int // 0 number, 1 name, 2 operator
	num  *sym.Term
	s    string
}

func (sh *BatShell) arithTokens(t []Unit) []batTok {
	B := sh.C.B
	var toks []batTok
	i := 0
	for i < len(t) {
		u := t[i]
		if u.D != nil {
			if i+1 < len(t) {
				if b, ok := concChar(t[i+1]); t[i+1].D != nil || (ok && batWordChar(b)) {
					batUnsup("set /A: number glued to other text")
				}
			}
			toks = append(toks, batTok{kind: 0, num: B.Extract(u.D, 0, 32)})
			i++
			continue
		}
		if u.B != nil {
			batUnsup("set /A: data byte in the expression")
		}
		b := u.S[0]
		switch {
		case b == ' ' || b == '\t':
			i++
		case batWordChar(b):
			j := i
			for j < len(t) {
				x, ok := concChar(t[j])
				if !ok {
					if t[j].D != nil {
						batUnsup("set /A: number glued to other text")
					}
					break
				}
				if !batWordChar(x) {
					break
				}
				j++
			}
			txt := litString(t[i:j])
			if b >= '0' && b <= '9' {
				toks = append(toks, batTok{kind: 0, num: B.Int(batParseNumber(txt), 32)})
			} else {
				toks = append(toks, batTok{kind: 1, s: txt})
			}
			i = j
		case strings.IndexByte("+-*/%()=", b) >= 0:
			toks = append(toks, batTok{kind: 2, s: string(b)})
			i++
		default:
			batUnsup("set /A: character %q", string(b))
		}
	}
	return toks
}

// batParseNumber reads a set /A constant: decimal, 0x hexadecimal or 0 octal; it must fit 32 bits.
func batParseNumber(txt string) int64 {
	v, err := strconv.ParseInt(txt, 0, 64)
	if err != nil || strings.ContainsAny(txt, "_bBoO") && !strings.HasPrefix(strings.ToLower(txt), "0x") {
		batUnsup("set /A: invalid number %q (cmd.exe reports an error)", txt)
	}
	if v > 2147483647 {
		batUnsup("set /A: number %s exceeds 32 bits (cmd.exe reports an error)", txt)
	}
	return v
}

type batArith struct {
	sh   *BatShell
	toks []batTok
	i    int
}

func (p *batArith) op(ops string) string {
	if p.i < len(p.toks) && p.toks[p.i].kind == 2 && strings.Contains(ops, p.toks[p.i].s) {
		return p.toks[p.i].s
	}
	return ""
}

func (p *batArith) expr() *sym.Term {
	l := p.term()
	for {
		o := p.op("+-")
		if o == "" {
			return l
		}
		p.i++
		r := p.term()
		if o == "+" {
			l = p.sh.C.B.Bin(sym.OpAdd, l, r)
		} else {
			l = p.sh.C.B.Bin(sym.OpSub, l, r)
		}
	}
}

func (p *batArith) term() *sym.Term {
	B := p.sh.C.B
	l := p.unary()
	for {
		o := p.op("*/%")
		if o == "" {
			return l
		}
		p.i++
		r := p.unary()
		switch o {
		case "*":
			l = B.Bin(sym.OpMul, l, r)
		default:
			if p.sh.C.Branch(B.Eq(r, B.BV(0, 32))) {
				p.sh.Err = append(p.sh.Err, gosym.Conc("Divide by zero error.\n"))
				p.sh.event("div-by-zero")
				batUnsup("division by zero in set /A (excluded input)")
			}
			if o == "/" {
				l = B.Bin(sym.OpSDiv, l, r)
			} else {
				l = B.Bin(sym.OpSRem, l, r)
			}
		}
	}
}

func (p *batArith) unary() *sym.Term {
	switch p.op("-+") {
	case "-":
		p.i++
		return p.sh.C.B.Neg(p.unary())
	case "+":
		p.i++
		return p.unary()
	}
	if p.i >= len(p.toks) {
		batUnsup("set /A: operand expected")
	}
	t := p.toks[p.i]
	switch {
	case t.kind == 0:
		p.i++
		return t.num
	case t.kind == 1:
		p.i++
		return p.sh.varNumber(t.s)
	case t.s == "(":
		p.i++
		v := p.expr()
		if p.op(")") == "" {
			batUnsup("set /A: ) expected")
		}
		p.i++
		return v
	}
	batUnsup("set /A: unexpected %q", t.s)
	return nil
}

// varNumber is the value of a variable named inside a set /A expression: undefined or non-numeric is 0.
func (sh *BatShell) varNumber(name string) *sym.Term {
	B := sh.C.B
	v, ok := sh.getVar(name)
	if !ok {
		return B.BV(0, 32)
	}
	if len(v.Segs) == 1 && v.Segs[0].D != nil {
		return B.Extract(v.Segs[0].D, 0, 32)
	}
	g, conc := v.Go()
	if !conc {
		batUnsup("set /A: variable %s holds symbolic text", name)
	}
	g = strings.TrimSpace(g)
	neg := false
	if strings.HasPrefix(g, "-") {
		neg, g = true, g[1:]
	}
	k := 0
	for k < len(g) && batWordChar(g[k]) {
		k++
	}
	if k == 0 || g[0] < '0' || g[0] > '9' {
		sh.event("arith-nonnumeric:" + name)
		return B.BV(0, 32)
	}
	n := batParseNumber(g[:k])
	if neg {
		n = -n
	}
	return B.Int(n, 32)
}

func (sh *BatShell) doSetA(t []Unit) {
	toks := sh.arithTokens(t)
	p := &batArith{sh: sh, toks: toks}
	target := ""
	if len(toks) >= 2 && toks[0].kind == 1 && toks[1].kind == 2 && toks[1].s == "=" {
		target = toks[0].s
		p.i = 2
	}
	v := p.expr()
	if p.i != len(toks) {
		batUnsup("set /A: unexpected token %d (%q)", p.i, toks[p.i].s)
	}
	if target != "" {
		sh.setVar(target, gosym.DecStr(sh.C.B.SExt(v, 64)))
	}
}

// ---------------------------------------------------------------- echo

func (sh *BatShell) doEcho(args []Unit) {
	if len(args) > 0 && isConcByte(args[0], '.') {
		// echo.text prints the text, an empty line when there is none
		sh.Out = append(sh.Out, gosym.Concat(units(args[1:]), gosym.Conc("\n")))
		return
	}
	if len(args) > 0 {
		if !batIsDelim(args[0]) && !isConcByte(args[0], '(') && !isConcByte(args[0], '/') && !isConcByte(args[0], ':') {
			batUnsup("echo directly followed by %q", units(args).String())
		}
		args = args[1:] // the separator after the command word is not printed
	}
	blank := true
	for _, x := range args {
		if !batIsBlank(x) {
			blank = false
			break
		}
	}
	if blank {
		sh.event("echo-state")
		sh.Out = append(sh.Out, gosym.Conc("ECHO is off.\n"))
		return
	}
	if g, ok := units(batTrimRight(batTrimLeft(args))).Go(); ok {
		switch strings.ToLower(g) {
		case "on", "off":
			sh.event("echo-switch:" + g)
			return
		case "/?":
			batUnsup("echo /?")
		}
	}
	sh.Out = append(sh.Out, gosym.Concat(units(args), gosym.Conc("\n")))
}

// ---------------------------------------------------------------- call / goto / exit

// batSplitArgs splits at blanks , ; = outside double quotes (help call: %1.. as for a batch file).
func batSplitArgs(a []Unit) []Str {
	var out []Str
	var cur []Unit
	inQ := false
	for _, x := range a {
		if isConcByte(x, '"') {
			inQ = !inQ
		}
		if !inQ && batIsDelim(x) {
			if len(cur) > 0 {
				out = append(out, units(cur))
				cur = nil
			}
			continue
		}
		cur = append(cur, x)
	}
	if len(cur) > 0 {
		out = append(out, units(cur))
	}
	return out
}

func (sh *BatShell) findLabel(name string) (int, bool) {
	want := strings.ToUpper(name)
	n := len(sh.lines)
	if want == "" {
		return 0, false
	}
	// from the line after the current command to the end of the file, then from the top
	for k := 0; k < n; k++ {
		if idx := (sh.pos + k) % n; sh.labels[idx] == want {
			return idx, true
		}
	}
	return 0, false
}

func (sh *BatShell) labelArg(a []Unit, cmd string) (label string, rest []Unit, colon bool) {
	a = batTrimLeft(a)
	if len(a) > 0 && isConcByte(a[0], ':') {
		colon = true
		a = a[1:]
	}
	j := 0
	for j < len(a) {
		b, ok := concChar(a[j])
		if !ok {
			batUnsup("%s: label depends on data", cmd)
		}
		if !batWordChar(b) && b != '-' && b != '.' {
			break
		}
		j++
	}
	if j < len(a) && !batIsDelim(a[j]) {
		batUnsup("%s: label followed by %q", cmd, units(a[j:]).String())
	}
	return litString(a[:j]), a[j:], colon
}

func (sh *BatShell) doCall(args []Unit) {
	a := batTrimLeft(args)
	if len(a) == 0 || !isConcByte(a[0], ':') {
		batUnsup("call of an external program or batch file: %q", units(a).String())
	}
	label, rest, _ := sh.labelArg(a, "call")
	// phase 6: call parses its line a second time (carets are doubled, percent expansion and
	// the special characters are processed again); only text that is inert there is modelled
	inQ := false
	for k, x := range rest {
		b, ok := concChar(x)
		if !ok {
			continue
		}
		if b == '"' {
			inQ = !inQ
		}
		if b == '%' || b == '^' || b == '\n' || (!inQ && strings.IndexByte("&|<>", b) >= 0) {
			batUnsup("call argument with %q (second parsing round of call)", string(b))
		}
		if b == '/' && k+1 < len(rest) && isConcByte(rest[k+1], '?') {
			batUnsup("call argument /? (prints the help text)")
		}
	}
	if strings.EqualFold(label, "eof") {
		return // call :EOF returns at once
	}
	line, ok := sh.findLabel(label)
	if !ok {
		batUnsup("call: label %s not found", label)
	}
	sh.depth++
	if sh.depth > 200 {
		batUnsup("call recursion too deep")
	}
	savedPos, savedFor, savedLocals := sh.pos, sh.forVars, sh.locals
	sh.forVars = nil // FOR variables of the caller are not visible in the subroutine
	sh.locals = nil  // setlocal/endlocal pair up per call frame: endlocal cannot end a setlocal of the caller
	sh.args = append(sh.args, batSplitArgs(rest))
	sh.runFrame(line + 1)
	sh.args = sh.args[:len(sh.args)-1]
	if len(sh.locals) > 0 {
		// a setlocal that is still open when the subroutine returns is ended implicitly
		sh.vars, sh.delayed = sh.locals[0].vars, sh.locals[0].delayed
	}
	sh.pos, sh.forVars, sh.locals = savedPos, savedFor, savedLocals
	sh.depth--
}

func (sh *BatShell) doGoto(args []Unit) {
	label, _, colon := sh.labelArg(args, "goto")
	if colon && strings.EqualFold(label, "eof") {
		sh.ctl = batCtlReturn
		return
	}
	line, ok := sh.findLabel(label)
	if !ok {
		batUnsup("goto: label %q not found (cmd.exe aborts the script)", label)
	}
	sh.ctl = batCtlGoto
	sh.target = line + 1
}

func (sh *BatShell) doExit(args []Unit) {
	a := batTrimLeft(args)
	if !batSwitch(a, 'b') {
		batUnsup("exit without /B")
	}
	a = batTrimRight(batTrimLeft(a[2:]))
	if len(a) > 0 {
		switch {
		case len(a) == 1 && a[0].D != nil:
			sh.ErrorLevel = gosym.Value(a[0].D)
			if a[0].D.IsConst() {
				sh.ErrorLevel = a[0].D.Signed()
			}
		default:
			g, ok := units(a).Go()
			if !ok {
				batUnsup("exit /B with symbolic text")
			}
			v, err := strconv.ParseInt(g, 10, 32)
			if err != nil {
				batUnsup("exit /B %q", g)
			}
			sh.ErrorLevel = v
		}
	}
	sh.ctl = batCtlReturn
}

// ---------------------------------------------------------------- if

// ifOperand classifies one operand of equ/neq/lss/leq/gtr/geq: kind 1 = number (t is
// its 32-bit value), 0 = text, -1 = not decidable in the model.
func (sh *BatShell) ifOperand(s Str) (t *sym.Term, kind int) {
	B := sh.C.B
	if len(s.Segs) == 0 {
		return nil, -1
	}
	if len(s.Segs) == 1 && s.Segs[0].D != nil {
		return B.Extract(s.Segs[0].D, 0, 32), 1
	}
	u := s.Units()
	for k, x := range u {
		if b, ok := concChar(x); ok && !(b >= '0' && b <= '9') && !(k == 0 && (b == '-' || b == '+') && len(u) > 1) {
			if k == 1 && (b == 'x' || b == 'X') && isConcByte(u[0], '0') {
				return nil, -1 // hexadecimal constant
			}
			return nil, 0
		}
	}
	g, ok := s.Go()
	if !ok {
		return nil, -1 // digits mixed with symbolic parts
	}
	d := strings.TrimLeft(g, "+-")
	if len(d) > 1 && d[0] == '0' {
		return nil, -1 // octal constant
	}
	v, err := strconv.ParseInt(g, 10, 64)
	if err != nil || v > 2147483647 || v < -2147483648 {
		return nil, -1 // saturating conversion
	}
	return B.Int(v, 32), 1
}

// strOrder compares two texts that consist of digits and double quotes only (for these
// the collation used by cmd.exe agrees with the byte order).
func (sh *BatShell) strOrder(l, r Str) int {
	a := sh.concText(l.Units(), "string comparison operand")
	b := sh.concText(r.Units(), "string comparison operand")
	for _, s := range []string{a, b} {
		for i := 0; i < len(s); i++ {
			if !(s[i] >= '0' && s[i] <= '9') && s[i] != '"' {
				batUnsup("ordering comparison of the strings %q and %q (locale collation)", a, b)
			}
		}
	}
	return strings.Compare(a, b)
}

// condTerm evaluates the condition of an if command to a Bool term (no forking).
func (sh *BatShell) condTerm(c *batCmd) *sym.Term {
	B := sh.C.B
	var t *sym.Term
	switch c.op {
	case "defined":
		_, ok := sh.getVar(sh.concText(sh.expand(c.left), "variable name"))
		t = B.Bool(ok)
	case "exist":
		p := sh.concText(batStripQuotes(sh.expand(c.left)), "path")
		_, ok := sh.Files[p]
		t = B.Bool(ok)
	default:
		if c.ci {
			batUnsup("if /i")
		}
		l, r := units(sh.expand(c.left)), units(sh.expand(c.right))
		if c.op == "==" {
			t = sh.C.StrEq(l, r)
			break
		}
		lt, lk := sh.ifOperand(l)
		rt, rk := sh.ifOperand(r)
		switch {
		case lk == 1 && rk == 1:
			switch c.op {
			case "equ":
				t = B.Eq(lt, rt)
			case "neq":
				t = B.Not(B.Eq(lt, rt))
			case "lss":
				t = B.Cmp(sym.OpSLt, lt, rt)
			case "leq":
				t = B.Cmp(sym.OpSLe, lt, rt)
			case "gtr":
				t = B.Cmp(sym.OpSLt, rt, lt)
			case "geq":
				t = B.Cmp(sym.OpSLe, rt, lt)
			}
		case lk != 0 && rk != 0:
			batUnsup("if %s %s %s: cannot decide between numeric and string comparison", l.String(), c.op, r.String())
		default:
			switch c.op {
			case "equ":
				t = sh.C.StrEq(l, r)
			case "neq":
				t = B.Not(sh.C.StrEq(l, r))
			case "lss":
				t = B.Bool(sh.strOrder(l, r) < 0)
			case "leq":
				t = B.Bool(sh.strOrder(l, r) <= 0)
			case "gtr":
				t = B.Bool(sh.strOrder(l, r) > 0)
			case "geq":
				t = B.Bool(sh.strOrder(l, r) >= 0)
			}
		}
	}
	if c.not {
		t = B.Not(t)
	}
	return t
}

// batConstSet recognises `set "name=<integer>"` (also inside a one-command block).
func batConstSet(c *batCmd) (name string, v int64, ok bool) {
	for c != nil && c.kind == bkBlock && len(c.subs) == 1 {
		c = c.subs[0]
	}
	if c == nil || c.kind != bkSimple || c.name != "set" {
		return "", 0, false
	}
	a := batTrimLeft(c.args)
	if len(a) == 0 || !isConcByte(a[0], '"') {
		return "", 0, false
	}
	n, val, ok := batSplitAssign(batSetText(a))
	if !ok {
		return "", 0, false
	}
	for _, x := range append(append([]Unit(nil), n...), val...) {
		if b, ok := concChar(x); !ok || !(batWordChar(b) || b == '-') {
			return "", 0, false
		}
	}
	iv, err := strconv.ParseInt(litString(val), 10, 32)
	if err != nil || strconv.FormatInt(iv, 10) != litString(val) {
		return "", 0, false
	}
	return strings.ToUpper(litString(n)), iv, true
}

// batMergeable: an if/else tree whose leaves all assign integer constants to one variable.
func batMergeable(c *batCmd) (string, bool) {
	for c != nil && c.kind == bkBlock && len(c.subs) == 1 {
		c = c.subs[0]
	}
	if c == nil {
		return "", false
	}
	if c.kind == bkIf {
		if c.els == nil || c.op == "defined" || c.op == "exist" {
			return "", false
		}
		a, ok1 := batMergeable(c.then)
		b, ok2 := batMergeable(c.els)
		if !ok1 || !ok2 || a != b {
			return "", false
		}
		return a, true
	}
	n, _, ok := batConstSet(c)
	return n, ok
}

func (sh *BatShell) mergedValue(c *batCmd) *sym.Term {
	for c.kind == bkBlock {
		c = c.subs[0]
	}
	B := sh.C.B
	if c.kind == bkIf {
		sh.tick()
		t := sh.condTerm(c)
		switch {
		case t.IsTrue():
			return sh.mergedValue(c.then)
		case t.IsFalse():
			return sh.mergedValue(c.els)
		}
		return B.Ite(t, sh.mergedValue(c.then), sh.mergedValue(c.els))
	}
	_, v, _ := batConstSet(c)
	return B.Int(v, 64)
}

func (sh *BatShell) execIf(c *batCmd) {
	if name, ok := batMergeable(c); ok {
		// `if A op B (set "h=1") else set "h=0"`: one assignment of an if-then-else term, no fork
		sh.steps--
		sh.setVar(name, gosym.DecStr(sh.mergedValue(c)))
		return
	}
	if sh.C.Branch(sh.condTerm(c)) {
		sh.exec(c.then)
	} else if c.els != nil {
		sh.exec(c.els)
	}
}

// ---------------------------------------------------------------- for /f

func (sh *BatShell) execFor(c *batCmd) {
	opts := strings.ToLower(sh.concText(batStripQuotes(c.forOpts), "for options"))
	if opts != "delims=" {
		batUnsup("for /f options %q", opts)
	}
	in := batTrimRight(batTrimLeft(sh.expand(c.forIn)))
	var lines []Str
	n := len(in)
	switch {
	case n >= 2 && isConcByte(in[0], '"') && isConcByte(in[n-1], '"'):
		lines = batLines(in[1 : n-1])
	case n >= 2 && isConcByte(in[0], '\'') && isConcByte(in[n-1], '\''):
		lines = batLines(sh.childCmd(in[1 : n-1]).Units())
	default:
		for _, f := range batSplitArgs(in) {
			p := sh.concText(f.Units(), "file name")
			content, ok := sh.Files[p]
			if !ok {
				sh.Err = append(sh.Err, gosym.Conc("The system cannot find the file "+p+".\n"))
				sh.event("for-file-missing:" + p)
				continue
			}
			lines = append(lines, batLines(content.Units())...)
		}
	}
	saved := sh.forVars
	for _, l := range lines {
		// tokens=1 with an empty delimiter set: the whole line; empty lines and lines
		// that start with the default eol character ";" are skipped (help for)
		lu := l.Units()
		if len(lu) == 0 || isConcByte(lu[0], ';') {
			continue
		}
		sh.forVars = append(saved[:len(saved):len(saved)], batForVar{name: c.forVar, val: l})
		sh.exec(c.body)
		if sh.ctl != batCtlNone {
			break
		}
	}
	sh.forVars = saved
}

// batLines splits text at line feeds (a carriage return before the line feed is dropped).
func batLines(u []Unit) []Str {
	var out []Str
	var cur []Unit
	flush := func() {
		if n := len(cur); n > 0 && isConcByte(cur[n-1], '\r') {
			cur = cur[:n-1]
		}
		out = append(out, units(cur))
		cur = nil
	}
	for _, x := range u {
		if isConcByte(x, '\n') {
			flush()
			continue
		}
		cur = append(cur, x)
	}
	if len(cur) > 0 {
		flush()
	}
	return out
}

// childCmd models `for /f ... in ('command')` for the one shape the back-end emits:
// `echo TEXT> FILE` / `echo TEXT>> FILE` run by a child cmd.exe (delayed expansion off).
// It returns the child's stdout.
func (sh *BatShell) childCmd(cmd []Unit) Str {
	cmd = batTrimLeft(cmd)
	if len(cmd) < 5 || strings.ToLower(sh.concPrefix(cmd, 4)) != "echo" || !isConcByte(cmd[4], ' ') {
		batUnsup("for /f over the output of %q", units(cmd).String())
	}
	body := cmd[5:]
	gt := -1
	for k, x := range body {
		b, ok := concChar(x)
		if !ok {
			continue
		}
		if b == '>' {
			gt = k
			break
		}
		if strings.IndexByte("%^&|<\"", b) >= 0 {
			batUnsup("child cmd.exe: character %q in the echoed text", string(b))
		}
	}
	if gt < 0 {
		batUnsup("child cmd.exe: echo without redirection")
	}
	content, rest := body[:gt], body[gt+1:]
	appendMode := false
	if len(rest) > 0 && isConcByte(rest[0], '>') {
		appendMode = true
		rest = rest[1:]
	}
	path := sh.concText(batTrimRight(batTrimLeft(rest)), "redirection target")
	if path == "" || strings.ContainsAny(path, " \t%^&|<>()\"!,;=") {
		batUnsup("child cmd.exe: redirection target %q", path)
	}
	if n := len(content); n > 0 {
		last := content[n-1]
		if b, ok := concChar(last); last.D != nil || (ok && b >= '0' && b <= '9' && (n == 1 || batIsDelim(content[n-2]))) {
			batUnsup("child cmd.exe: echoed text ends in a digit directly before > (handle redirection)")
		}
	}
	blank := true
	for _, x := range content {
		if !batIsBlank(x) {
			blank = false
		}
	}
	if g, ok := units(batTrimRight(batTrimLeft(content))).Go(); blank || (ok && (strings.EqualFold(g, "on") || strings.EqualFold(g, "off") || g == "/?")) {
		batUnsup("child cmd.exe: echo with the argument %q", units(content).String())
	}
	line := gosym.Concat(units(content), gosym.Conc("\r\n"))
	if appendMode {
		sh.Files[path] = gosym.Concat(sh.Files[path], line)
	} else {
		sh.Files[path] = line
	}
	sh.event("file-write:" + path)
	return Str{}
}

func (sh *BatShell) concPrefix(u []Unit, n int) string {
	var sb strings.Builder
	for _, x := range u[:n] {
		b, ok := concChar(x)
		if !ok {
			return ""
		}
		sb.WriteByte(b)
	}
	return sb.String()
}

// SortedFiles lists the virtual files deterministically.
func (sh *BatShell) SortedFiles() []string {
	var out []string
	for k := range sh.Files {
		out = append(out, k)
	}
	sort.Strings(out)
	return out
}
