package oracle

import (
	"sort"
	"strconv"
	"strings"
	"testing"

	"verif/engine/gosym"
	"verif/engine/sym"
)

const batHead = "@echo off\r\nsetlocal EnableDelayedExpansion\r\nsetlocal\r\nset \"_e=0\"\r\n(set LF=^\r\n\r\n)\r\n"
const batTail = ":end\r\nendlocal & exit /B %_e%\r\n"

func batScript(lines ...string) string {
	return batHead + strings.Join(lines, "\r\n") + "\r\n" + batTail
}

// TestBatSemConcrete pins the cmd.exe rules BatSem implements on small hand-written scripts.
func TestBatSemConcrete(t *testing.T) {
	eng, err := gosym.Load("/repo")
	if err != nil {
		t.Fatal(err)
	}
	cases := []struct {
		name, script, out string
		status            int64
		unsup             string
	}{
		{"echo-forms", batScript(`echo hello  world `, `echo.`, `echo.x`, `echo  `, `echo on`, `echo OFF`), "hello  world \n\nx\nECHO is off.\n", 0, ""},
		{"caret-exclamation", batScript(`set "a=x^!y"`, `echo !a!`, `set "b=p^q"`, `echo !b!`, `set "c=p^q^!"`, `echo !c!`, `set d=p^^q`, `echo !d! %d%`), "x!y\np^q\npq!\np^q pq\n", 0, ""},
		{"percent", batScript(`set "a=50% off"`, `echo !a!`, `set "b=50% and 60% x"`, `echo !b!`, `set "c=5%%2"`, `echo !c!`), "50 off\n50 x\n5%2\n", 0, ""},
		{"lf", batScript(`set "a=x!LF!y"`, `echo !a!`), "x\ny\n", 0, ""},
		{"set-forms", batScript(`set "a=1" trailing`, `set b=2 `, `echo [!a!][!b!]`, `set "a="`, `if defined a (echo def) else echo undef`, `set "q=a"b"`, `echo !q!`, `set "N=upper"`, `echo !n!`), "[1][2 ]\nundef\na\"b\nupper\n", 0, ""},
		{"arith", batScript(`set /A "a=7/-2"`, `set /A "b=-7%%3"`, `set /A "c=2147483647+1"`, `set /A "d=(1+2)*3-010"`, `set /A "e=!nope!+1"`, `set /A "f=a*2"`, `echo !a! !b! !c! !d! !e! !f!`), "-3 -1 -2147483648 1 1 -6\n", 0, ""},
		{"if-numeric-string", batScript(`if 10 lss 9 (echo n1) else echo n0`, `if "10" lss "9" (echo s1) else echo s0`, `if 1 equ "1" (echo q1) else echo q0`, `if -5 lss 3 (echo m1) else echo m0`, `if "a" == "a" (echo e1) else echo e0`, `if not "a" == "A" echo ne`), "n0\ns1\nq0\nm1\ne1\nne\n", 0, ""},
		{"if-blocks", batScript(`set "x=2"`, `if "!x!" equ "1" (`, `echo one`, `goto :_i0`, `) else if "!x!" equ "2" (`, `echo two`, `goto :_i0`, `echo not reached`, `) else (`, `echo other`, `goto :_i0`, `)`, `:_i0`, `echo done`), "two\ndone\n", 0, ""},
		{"block-parse-time-percent", batScript(`set "v=old"`, `if 1 equ 1 (`, `set "v=new"`, `echo %v% !v!`, `)`), "old new\n", 0, ""},
		{"paren-closes-block", batScript(`if 1 equ 1 (echo a(b) & echo c`, `if 1 equ 0 (echo a(b) & echo d`), "a(b\nc\n", 0, ""},
		{"paren-closes-block-2", batScript(`if 1 equ 1 (echo a(b) c)`), "", 0, "unexpected text"},
		{"call-args", batScript(`call :f "a b" c,d  e`, `goto :end`, `:f`, `echo [%1][%~1][%2][%3][%4][%5]`, `exit /B`), "[\"a b\"][a b][c][d][e][]\n", 0, ""},
		{"call-frames", batScript(`call :f 1`, `echo back`, `goto :end`, `:f`, `echo in %1`, `if %1 lss 3 (`, `set /A "n=%1+1"`, `call :f !n!`, `)`, `echo out %1`, `exit /B`), "in 1\nin 2\nin 3\nout 3\nout 2\nout 1\nback\n", 0, ""},
		{"goto-search-order", batScript(`goto :x`, `:x`, `echo first`, `goto :end`, `:X`, `echo second`), "first\n", 0, ""},
		{"goto-eof", batScript(`call :f`, `echo after`, `goto :end`, `:f`, `echo f`, `goto :EOF`, `echo no`), "f\nafter\n", 0, ""},
		{"for-lines", batScript(`set "t=a!LF!!LF!;skipped!LF! b "`, `for /f "delims=" %%i in ("!t!") do echo [%%i]`, `for /f "delims=" %%i in ("") do echo never`), "[a]\n[ b ]\n", 0, ""},
		{"for-indirect", batScript(`set "s=_dv1"`, `set "_dv1_2=val"`, `set "i=2"`, `for /f "delims=" %%i in ("!s!_!i!") do set "h=!%%i!"`, `echo !h!`), "val\n", 0, ""},
		{"for-var-exclamation", batScript(`set "t=a^!b"`, `for /f "delims=" %%i in ("!t!") do echo %%i`), "ab\n", 0, ""},
		{"substring", batScript(`set "s=abcdef"`, `echo !s:~1,2!.!s:~-2!.!s:~2!.!s:~0,-1!.!s:~9!.!s:~4,9!.`), "bc.ef.cdef.abcde..ef.\n", 0, ""},
		{"substring-undefined", batScript(`echo !nope:~0,1!`), "", 0, "undefined variable"},
		{"exit-status", batScript(`echo boom`, `set "_e=1"`, `goto :end`, `echo no`), "boom\n", 1, ""},
		{"setlocal", batScript(`set "a=1"`, `setlocal`, `set "a=2"`, `endlocal`, `echo !a!`), "1\n", 0, ""},
		{"end-in-frame", batScript(`call :f`, `echo after !_e!`, `goto :end`, `:f`, `echo in`, `set "_e=1"`, `goto :end`), "in\nafter 1\n", 1, ""},
		{"setlocal-frame", batScript(`set "a=1"`, `call :f`, `echo !a!`, `goto :end`, `:f`, `setlocal`, `set "a=2"`, `exit /B`), "1\n", 0, ""},
		{"label-in-block", batScript(`if 1 equ 1 (`, `echo a`, `:lbl`, `echo b`, `)`), "a\nb\n", 0, ""},
		{"label-before-close", batScript(`if 1 equ 1 (`, `echo a`, `:lbl`, `)`), "", 0, "label directly before"},
		{"external", batScript(`dir`), "", 0, "external"},
		{"budget", batScript(`:l`, `goto :l`), "", 0, "step budget"},
		{"files", batScript(
			`goto :_eo_h`, `:_fwh`, `set "_a=>"`, `if "%2" equ "1" set "_a=>>"`, `for /f "delims=" %%i in ("!_fa0!") do (`,
			`for /f "delims=" %%j in ('echo %%i!_a! %~1') do (`, `rem`, `)`, `set "_a=>>"`, `)`, `exit /B`,
			`:_frh`, `set "_h="`, `for /f "delims=" %%i in (%~1) do (`, `if defined _h set "_h=!_h!!LF!"`, `set "_h=!_h!%%i"`, `)`, `exit /B`, `:_eo_h`,
			`set "_fa0=one"`, `call :_fwh f.txt 0`, `set "_fa0=two!LF!three"`, `call :_fwh f.txt 1`, `call :_frh f.txt`, `echo !_h!`,
			`if exist "f.txt" (echo yes) else echo no`), "one\ntwo\nthree\nyes\n", 0, ""},
	}
	for _, tc := range cases {
		var out string
		var status int64
		var un string
		eng.Explore(func(c *gosym.Ctx) interface{} {
			defer func() {
				if r := recover(); r != nil {
					if u, ok := r.(BatUnsupported); ok {
						un = u.Msg
						return
					}
					panic(r)
				}
			}()
			sh := NewBatShell(c)
			o, st := sh.RunScript(gosym.Conc(tc.script))
			out, _ = o.Go()
			status, _ = st.(int64)
			return nil
		}, gosym.ExploreOpts{Workers: 1})
		switch {
		case tc.unsup != "":
			if !strings.Contains(un, tc.unsup) {
				t.Errorf("%s: want unsupported %q, got %q (out %q)", tc.name, tc.unsup, un, out)
			}
		case un != "":
			t.Errorf("%s: unsupported: %s", tc.name, un)
		case out != tc.out || status != tc.status:
			t.Errorf("%s: got (%q,%d) want (%q,%d)", tc.name, out, status, tc.out, tc.status)
		}
	}
}

// batRope replaces the placeholders by decimal atoms.
func batRope(text string, atoms map[string]*sym.Term) gosym.Str {
	parts := []gosym.Str{gosym.Conc(text)}
	for ph, t := range atoms {
		var next []gosym.Str
		for _, p := range parts {
			g, ok := p.Go()
			if !ok {
				next = append(next, p)
				continue
			}
			for i, piece := range strings.Split(g, ph) {
				if i > 0 {
					next = append(next, gosym.DecStr(t))
				}
				next = append(next, gosym.Conc(piece))
			}
		}
		parts = next
	}
	return gosym.Concat(parts...)
}

// TestBatSemSymbolic runs an emitted script whose integer literals are decimal atoms:
// one-line ifs must not fork, block ifs and loops fork, and every path's output must be
// the output of the concrete script for a model of the path.
func TestBatSemSymbolic(t *testing.T) {
	eng, err := gosym.Load("/repo")
	if err != nil {
		t.Fatal(err)
	}
	body := []string{
		`goto :_eo__sls`, `:_sls`, `set "%1_len=%2"`, `exit /B`, `:_eo__sls`,
		`goto :_eo__slg`, `:_slg`, `set "_len=!%1_len!"`, `exit /B`, `:_eo__slg`,
		`goto :_eo__ech`, `:_ech`, `if "!_fa0!" neq "" (echo !_fa0!) else echo.`, `exit /B`, `:_eo__ech`,
		`set "x=11111"`, `set "y=22222"`,
		`set /A "_h0=!y!*2"`, `set /A "_h1=!x!+!_h0!"`, `set "z=!_h1!"`,
		`if !z! gtr 10 (set "_h2=1") else set "_h2=0"`,
		`if !x! neq 3 (set "_h3=1") else set "_h3=0"`,
		`if !_h2! equ 1 (if !_h3! equ 1 (set "_h4=1") else set "_h4=0") else set "_h4=0"`,
		`if "!_h4!" equ "1" (`, `set "_fa0=big !z!"`, `call :_ech `, `goto :_i0`, `) else (`,
		`set /A "_h5=!x!/!y!"`, `set "_fa0=small !_h5!"`, `call :_ech `, `goto :_i0`, `)`, `:_i0`,
		`set /A "_dvc=!_dvc!+1"`, `set "_h6=_dv!_dvc!"`, `call :_sls !_h6! 2`,
		`set "!_h6!_0=!x!"`, `set "!_h6!_1=!y!"`, `set "s=!_h6!"`,
		`for /f "delims=" %%i in ("!s!_1") do set "_h7=!%%i!"`,
		`call :_slg !s!`, `set "_h8=!_len!"`, `set "_fa0=!_h7! !_h8!"`, `call :_ech `,
		`set "i=0"`, `set "_fv0="`, `:_f0`, `if defined _fv0 (`, `set /A "_h9=!i!+1"`, `set "i=!_h9!"`, `)`, `set "_fv0=1"`,
		`if !i! lss !x! (set "_h10=1") else set "_h10=0"`,
		`if "!_h10!" equ "1" (`, `set "_fa0=!i!"`, `call :_ech `, `goto :_f0`, `)`, `:_e0`,
	}
	text := batScript(body...)
	type pathRes struct {
		out   gosym.Str
		pc    []*sym.Term
		forks int
	}
	var paths []pathRes
	type check struct {
		got  string
		x, y int64
	}
	var checks []check
	st := eng.Explore(func(c *gosym.Ctx) interface{} {
		x, y := c.B.Var("x", 64), c.B.Var("y", 64)
		c.Assume(c.B.And(c.B.Cmp(sym.OpSLe, c.B.Int(0, 64), x), c.B.Cmp(sym.OpSLe, x, c.B.Int(4, 64))))
		c.Assume(c.B.And(c.B.Cmp(sym.OpSLe, c.B.Int(1, 64), y), c.B.Cmp(sym.OpSLe, y, c.B.Int(5, 64))))
		sh := NewBatShell(c)
		o, _ := sh.RunScript(batRope(text, map[string]*sym.Term{"11111": x, "22222": y}))
		r, m := c.Sat()
		if r != sym.Sat {
			t.Errorf("path condition not satisfiable")
			return nil
		}
		return [2]interface{}{o, m}
	}, gosym.ExploreOpts{Workers: 1, OnPath: func(r *gosym.PathResult) {
		if r.End != "done" {
			t.Errorf("path ended with %s: %s", r.End, r.Detail)
			return
		}
		ret := r.Ret.([2]interface{})
		o, m := ret[0].(gosym.Str), ret[1].(map[string]uint64)
		paths = append(paths, pathRes{out: o, forks: r.Forks})
		// evaluate the rope under the model and compare with the concrete run
		var sb strings.Builder
		for _, g := range o.Segs {
			switch {
			case g.D != nil:
				sb.WriteString(strconv.FormatInt(int64(sym.Eval(g.D, m)), 10))
			case g.B != nil:
				sb.WriteByte(byte(sym.Eval(g.B, m)))
			default:
				sb.WriteString(g.S)
			}
		}
		checks = append(checks, check{got: sb.String(), x: int64(m["x"]), y: int64(m["y"])})
	}})
	for _, ck := range checks {
		conc := strings.NewReplacer("11111", strconv.FormatInt(ck.x, 10), "22222", strconv.FormatInt(ck.y, 10)).Replace(text)
		var want string
		eng.Explore(func(c *gosym.Ctx) interface{} {
			o, _ := NewBatShell(c).RunScript(gosym.Conc(conc))
			want, _ = o.Go()
			return nil
		}, gosym.ExploreOpts{Workers: 1})
		if ck.got != want {
			t.Errorf("model x=%d y=%d: symbolic path gives %q, concrete run %q", ck.x, ck.y, ck.got, want)
		}
	}
	// x+2y > 10 && x != 3 or not (2 outcomes), then the loop runs x times (5 values of x; 4 when x != 3 is forced... )
	var sizes []int
	for _, p := range paths {
		sizes = append(sizes, len(p.out.Segs))
	}
	sort.Ints(sizes)
	t.Logf("paths=%d completed=%d rope sizes=%v", st.Paths, st.Completed, sizes)
	if st.Completed < 5 || st.Completed > 12 {
		t.Errorf("unexpected number of paths: %d", st.Completed)
	}
}
