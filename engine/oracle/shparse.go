package oracle

import (
	"fmt"
	"strings"

	"verif/engine/gosym"
	"verif/engine/sym"
)

// ---------------------------------------------------------------------------
// ShSem, part 1: parser for the Bash subset the back-end emits. The script is
// a rope: concrete template text with symbolic bytes and decimal atoms inside
// words. Symbolic bytes are taken as ordinary word characters; whenever the
// lexical context would give some value of the byte a syntactic meaning, a
// hazard (the condition under which that happens) is recorded instead of
// being modelled.
// ---------------------------------------------------------------------------

type Unit = gosym.Seg

// Hazard: under Cond, a data byte is interpreted by the shell instead of being data.
type Hazard struct {
	Cond *sym.Term
	What string
}

type ShUnsupported struct{ Msg string }

func unsup(format string, a ...interface{}) { panic(ShUnsupported{fmt.Sprintf(format, a...)}) }

// word parts
type PartKind int

const (
	PLit    PartKind = iota // literal characters (already unescaped)
	PDQ                     // double-quoted sequence of parts
	PParam                  // parameter expansion
	PCmdSub                 // $( list )
	PArith                  // $(( expr ))
)

type Part struct {
	Kind    PartKind
	Lit     []Unit
	Sub     []Part   // PDQ
	ShParam *ShParam // PParam
	List    []*Cmd   // PCmdSub
	Arith   []Part   // PArith: expression text as parts (literals and parameter expansions)
	Quoted  bool     // literal came from quotes/escapes (no splitting/globbing/reserved-word meaning)
}

type ShParam struct {
	Name   string // variable name, or "1".."9", "?", "@", "#"
	Len    bool   // ${#name} / ${#name[@]}
	Index  []Part // ${name[idx]} (nil when absent); "@" index is represented by AllIdx
	AllIdx bool
	Off    []Part // ${name:off:len}
	Length []Part
	HasSub bool
}

type Word struct{ Parts []Part }

type CmdKind int

const (
	CSimple CmdKind = iota
	CIf
	CWhile
	CForArith
	CFuncDef
	CGroup
	CPipeline
	CAndOr
	CNot
)

type Redir struct {
	Op     string // ">", ">>", "<"
	Target Word
}

type Cmd struct {
	Kind    CmdKind
	Assigns []ShAssign
	Words   []Word
	Redirs  []Redir
	// compound
	Conds            [][]*Cmd // if/elif conditions, while condition at [0]
	Bodies           [][]*Cmd // if/elif bodies (+ else as last when HasElse), loop body at [0]
	HasElse          bool
	Init, Test, Step []Part   // for (( ; ; ))
	Name             string   // function name
	Sub              []*Cmd   // pipeline members / and-or members
	Ops              []string // and-or operators between Sub members
	Line             int
}

type ShAssign struct {
	Name  string
	Index []Part // name[idx]=...
	Value Word
	Array []Word // name=(w1 w2)
	IsArr bool
}

type shParser struct {
	c   *gosym.Ctx
	u   []Unit
	i   int
	hz  *[]Hazard
	ctx string
}

func isConcByte(u Unit, b byte) bool { return u.B == nil && u.D == nil && u.S[0] == b }

func (p *shParser) peekIs(k int, b byte) bool {
	return p.i+k < len(p.u) && isConcByte(p.u[p.i+k], b)
}

func (p *shParser) eof() bool { return p.i >= len(p.u) }

func (p *shParser) hazard(u Unit, chars string, where string) {
	if u.B == nil {
		return
	}
	B := p.c.B
	var parts []*sym.Term
	for i := 0; i < len(chars); i++ {
		parts = append(parts, B.Eq(u.B, B.BV(uint64(chars[i]), 8)))
	}
	h := B.Or(parts...)
	if !h.IsFalse() {
		*p.hz = append(*p.hz, Hazard{Cond: h, What: where})
	}
}

const unquotedSpecial = " \t\n;&|<>()'\"\\$`*?[]#~{}!="
const dqSpecial = "\"$`\\"

func concChar(u Unit) (byte, bool) {
	if u.B == nil && u.D == nil {
		return u.S[0], true
	}
	return 0, false
}

func isNameStart(b byte) bool { return b == '_' || (b >= 'a' && b <= 'z') || (b >= 'A' && b <= 'Z') }
func isNameChar(b byte) bool  { return isNameStart(b) || (b >= '0' && b <= '9') }

func (p *shParser) skipBlanks() {
	for !p.eof() {
		if p.peekIs(0, ' ') || p.peekIs(0, '\t') {
			p.i++
		} else if p.peekIs(0, '\\') && p.peekIs(1, '\n') {
			p.i += 2
		} else {
			break
		}
	}
}

func (p *shParser) skipBlanksAndNewlines() {
	for !p.eof() {
		p.skipBlanks()
		if p.peekIs(0, '\n') || p.peekIs(0, ';') {
			p.i++
		} else if p.peekIs(0, '#') {
			for !p.eof() && !p.peekIs(0, '\n') {
				p.i++
			}
		} else {
			break
		}
	}
}

// ParseScript parses a whole script.
func ParseScript(c *gosym.Ctx, script gosym.Str, hz *[]Hazard) []*Cmd {
	p := &shParser{c: c, u: script.Units(), hz: hz}
	cmds := p.parseList(nil)
	p.skipBlanksAndNewlines()
	if !p.eof() {
		unsup("trailing text in script at unit %d: %s", p.i, p.around())
	}
	return cmds
}

func (p *shParser) around() string {
	lo, hi := max(0, p.i-20), min(len(p.u), p.i+20)
	return gosym.Str{Segs: append([]Unit(nil), p.u[lo:hi]...)}.String()
}

// readBareWord returns the concrete text of the next word if it is a plain literal (for reserved words).
func (p *shParser) peekBare() string {
	j := p.i
	var sb strings.Builder
	for j < len(p.u) {
		b, ok := concChar(p.u[j])
		if !ok {
			return ""
		}
		if strings.IndexByte(" \t\n;&|<>()", b) >= 0 {
			break
		}
		sb.WriteByte(b)
		j++
	}
	return sb.String()
}

func (p *shParser) eatBare(w string) bool {
	p.skipBlanks()
	if p.peekBare() == w {
		p.i += len(w)
		return true
	}
	return false
}

func inList(s string, l []string) bool {
	for _, x := range l {
		if x == s {
			return true
		}
	}
	return false
}

// parseList parses commands until one of the stop words (not consumed) or ')' / EOF.
func (p *shParser) parseList(stop []string) []*Cmd {
	var out []*Cmd
	for {
		p.skipBlanksAndNewlines()
		if p.eof() || p.peekIs(0, ')') {
			return out
		}
		if w := p.peekBare(); w != "" && inList(w, stop) {
			return out
		}
		out = append(out, p.parseAndOr())
		p.skipBlanks()
		if p.peekIs(0, ';') || p.peekIs(0, '\n') {
			p.i++
		} else if p.peekIs(0, '#') {
			continue
		} else if !p.eof() && !p.peekIs(0, ')') {
			if w := p.peekBare(); w == "" || !inList(w, stop) {
				unsup("unexpected text after command: %s", p.around())
			}
		}
	}
}

func (p *shParser) parseAndOr() *Cmd {
	first := p.parsePipeline()
	var subs []*Cmd
	var ops []string
	for {
		p.skipBlanks()
		if p.peekIs(0, '&') && p.peekIs(1, '&') {
			p.i += 2
			ops = append(ops, "&&")
		} else if p.peekIs(0, '|') && p.peekIs(1, '|') {
			p.i += 2
			ops = append(ops, "||")
		} else {
			break
		}
		p.skipBlanksAndNewlines()
		subs = append(subs, p.parsePipeline())
	}
	if len(ops) == 0 {
		return first
	}
	return &Cmd{Kind: CAndOr, Sub: append([]*Cmd{first}, subs...), Ops: ops}
}

func (p *shParser) parsePipeline() *Cmd {
	p.skipBlanks()
	neg := false
	if p.peekBare() == "!" {
		p.i++
		neg = true
	}
	first := p.parseCommand()
	members := []*Cmd{first}
	for {
		p.skipBlanks()
		if p.peekIs(0, '|') && !p.peekIs(1, '|') {
			p.i++
			p.skipBlanksAndNewlines()
			members = append(members, p.parseCommand())
		} else {
			break
		}
	}
	var r *Cmd
	if len(members) == 1 {
		r = first
	} else {
		r = &Cmd{Kind: CPipeline, Sub: members}
	}
	if neg {
		r = &Cmd{Kind: CNot, Sub: []*Cmd{r}}
	}
	return r
}

func (p *shParser) parseCommand() *Cmd {
	p.skipBlanks()
	w := p.peekBare()
	switch w {
	case "if":
		p.i += 2
		c := &Cmd{Kind: CIf}
		for {
			cond := p.parseList([]string{"then"})
			if !p.eatBare("then") {
				unsup("expected then: %s", p.around())
			}
			body := p.parseList([]string{"elif", "else", "fi"})
			// the shell grammar has no empty compound lists
			if len(cond) == 0 {
				unsup("syntax error: empty condition list before then: %s", p.around())
			}
			if len(body) == 0 {
				unsup("syntax error: empty list after then: %s", p.around())
			}
			c.Conds = append(c.Conds, cond)
			c.Bodies = append(c.Bodies, body)
			if p.eatBare("elif") {
				continue
			}
			if p.eatBare("else") {
				eb := p.parseList([]string{"fi"})
				if len(eb) == 0 {
					unsup("syntax error: empty list after else: %s", p.around())
				}
				c.Bodies = append(c.Bodies, eb)
				c.HasElse = true
			}
			if !p.eatBare("fi") {
				unsup("expected fi: %s", p.around())
			}
			return c
		}
	case "while":
		p.i += 5
		c := &Cmd{Kind: CWhile}
		c.Conds = [][]*Cmd{p.parseList([]string{"do"})}
		if !p.eatBare("do") {
			unsup("expected do")
		}
		c.Bodies = [][]*Cmd{p.parseList([]string{"done"})}
		if !p.eatBare("done") {
			unsup("expected done: %s", p.around())
		}
		if len(c.Conds[0]) == 0 || len(c.Bodies[0]) == 0 {
			unsup("syntax error: empty list in a while loop: %s", p.around())
		}
		return c
	case "for":
		p.i += 3
		p.skipBlanks()
		if !(p.peekIs(0, '(') && p.peekIs(1, '(')) {
			unsup("only arithmetic for loops are modelled")
		}
		p.i += 2
		c := &Cmd{Kind: CForArith}
		c.Init = p.parseArithUntil(";")
		c.Test = p.parseArithUntil(";")
		c.Step = p.parseArithUntil("))")
		p.skipBlanks()
		if p.peekIs(0, ';') {
			p.i++
		}
		p.skipBlanksAndNewlines()
		if !p.eatBare("do") {
			unsup("expected do after for")
		}
		c.Bodies = [][]*Cmd{p.parseList([]string{"done"})}
		if !p.eatBare("done") {
			unsup("expected done")
		}
		if len(c.Bodies[0]) == 0 {
			unsup("syntax error: empty for body: %s", p.around())
		}
		return c
	case "{":
		p.i++
		c := &Cmd{Kind: CGroup}
		c.Bodies = [][]*Cmd{p.parseList([]string{"}"})}
		if !p.eatBare("}") {
			unsup("expected }")
		}
		if len(c.Bodies[0]) == 0 {
			unsup("syntax error: empty group: %s", p.around())
		}
		return c
	}
	// function definition: name() {
	if w != "" && strings.HasSuffix(w, "()") == false {
		// look for name followed by "()"
		j := p.i
		k := j
		for k < len(p.u) {
			b, ok := concChar(p.u[k])
			if !ok || !isNameChar(b) {
				break
			}
			k++
		}
		if k > j && k+1 < len(p.u) && isConcByte(p.u[k], '(') && isConcByte(p.u[k+1], ')') {
			name := gosym.Str{Segs: append([]Unit(nil), p.u[j:k]...)}.String()
			p.i = k + 2
			p.skipBlanksAndNewlines()
			if !p.eatBare("{") {
				unsup("expected { after function name")
			}
			c := &Cmd{Kind: CFuncDef, Name: name}
			c.Bodies = [][]*Cmd{p.parseList([]string{"}"})}
			if !p.eatBare("}") {
				unsup("expected } closing function %s: %s", name, p.around())
			}
			if len(c.Bodies[0]) == 0 {
				unsup("syntax error: empty body of function %s", name)
			}
			return c
		}
	}
	return p.parseSimple()
}

// parseArithUntil collects expression parts up to the terminator (consumed).
func (p *shParser) parseArithUntil(term string) []Part {
	var parts []Part
	var lit []Unit
	flush := func() {
		if len(lit) > 0 {
			parts = append(parts, Part{Kind: PLit, Lit: lit})
			lit = nil
		}
	}
	depth := 0
	for !p.eof() {
		if depth == 0 {
			match := true
			for k := 0; k < len(term); k++ {
				if !p.peekIs(k, term[k]) {
					match = false
					break
				}
			}
			if match {
				p.i += len(term)
				flush()
				return parts
			}
		}
		u := p.u[p.i]
		if b, ok := concChar(u); ok {
			switch b {
			case '(':
				depth++
			case ')':
				depth--
			case '$':
				flush()
				parts = append(parts, p.parseDollar(true))
				continue
			}
		} else if u.B != nil {
			p.hazard(u, "", "arithmetic")
			B := p.c.B
			notDigit := B.Not(B.And(B.Cmp(sym.OpULe, B.BV('0', 8), u.B), B.Cmp(sym.OpULe, u.B, B.BV('9', 8))))
			if !notDigit.IsFalse() {
				*p.hz = append(*p.hz, Hazard{Cond: notDigit, What: "data byte inside arithmetic expansion"})
			}
		}
		lit = append(lit, u)
		p.i++
	}
	unsup("unterminated arithmetic expression")
	return nil
}

func (p *shParser) parseSimple() *Cmd {
	c := &Cmd{Kind: CSimple}
	for {
		p.skipBlanks()
		if p.eof() {
			break
		}
		b, conc := concChar(p.u[p.i])
		if conc {
			if b == '\n' || b == ';' || b == ')' || b == '#' {
				break
			}
			if b == '&' || b == '|' {
				break
			}
			if b == '>' || b == '<' {
				op := string(b)
				p.i++
				if b == '>' && p.peekIs(0, '>') {
					op = ">>"
					p.i++
				}
				p.skipBlanks()
				c.Redirs = append(c.Redirs, Redir{Op: op, Target: p.parseWord()})
				continue
			}
		}
		// assignment?
		if len(c.Words) == 0 || p.isLocalCmd(c) {
			if a, ok := p.tryAssign(); ok {
				if p.isLocalCmd(c) {
					// "local name=value": keep as words for the builtin, but remember the assignment
					c.Assigns = append(c.Assigns, a)
					continue
				}
				c.Assigns = append(c.Assigns, a)
				continue
			}
		}
		c.Words = append(c.Words, p.parseWord())
	}
	return c
}

func (p *shParser) isLocalCmd(c *Cmd) bool {
	if len(c.Words) != 1 {
		return false
	}
	w := c.Words[0]
	return len(w.Parts) == 1 && w.Parts[0].Kind == PLit && !w.Parts[0].Quoted && litString(w.Parts[0].Lit) == "local"
}

func litString(u []Unit) string {
	var sb strings.Builder
	for _, x := range u {
		if x.B != nil || x.D != nil {
			return ""
		}
		sb.WriteString(x.S)
	}
	return sb.String()
}

func (p *shParser) tryAssign() (ShAssign, bool) {
	j := p.i
	if j >= len(p.u) {
		return ShAssign{}, false
	}
	b, ok := concChar(p.u[j])
	if !ok || !isNameStart(b) {
		return ShAssign{}, false
	}
	k := j
	for k < len(p.u) {
		b, ok := concChar(p.u[k])
		if !ok || !isNameChar(b) {
			break
		}
		k++
	}
	name := litString(p.u[j:k])
	save := p.i
	var index []Part
	if k < len(p.u) && isConcByte(p.u[k], '[') {
		p.i = k + 1
		index = p.parseArithUntil("]")
		k = p.i
	}
	if k >= len(p.u) || !isConcByte(p.u[k], '=') {
		p.i = save
		return ShAssign{}, false
	}
	p.i = k + 1
	a := ShAssign{Name: name, Index: index}
	if p.peekIs(0, '(') {
		p.i++
		a.IsArr = true
		for {
			p.skipBlanksAndNewlines()
			if p.peekIs(0, ')') {
				p.i++
				break
			}
			if p.eof() {
				unsup("unterminated array literal")
			}
			a.Array = append(a.Array, p.parseWord())
		}
		return a, true
	}
	// value word may be empty
	if p.eof() || p.peekIs(0, ' ') || p.peekIs(0, '\n') || p.peekIs(0, ';') || p.peekIs(0, '\t') {
		return a, true
	}
	a.Value = p.parseWord()
	return a, true
}

// parseWord parses one shell word up to an unquoted delimiter.
func (p *shParser) parseWord() Word {
	var w Word
	var lit []Unit
	flush := func(q bool) {
		if len(lit) > 0 {
			w.Parts = append(w.Parts, Part{Kind: PLit, Lit: lit, Quoted: q})
			lit = nil
		}
	}
	start := p.i
	for !p.eof() {
		u := p.u[p.i]
		b, conc := concChar(u)
		if !conc {
			if u.B != nil {
				p.hazard(u, unquotedSpecial, "unquoted word")
			}
			lit = append(lit, u)
			p.i++
			continue
		}
		if strings.IndexByte(" \t\n;&|<>()", b) >= 0 {
			break
		}
		switch b {
		case '"':
			flush(false)
			p.i++
			w.Parts = append(w.Parts, Part{Kind: PDQ, Sub: p.parseDQ()})
		case '\'':
			flush(false)
			p.i++
			var q []Unit
			for !p.eof() && !p.peekIs(0, '\'') {
				if x := p.u[p.i]; x.B != nil {
					p.hazard(x, "'", "single-quoted word")
				}
				q = append(q, p.u[p.i])
				p.i++
			}
			if p.eof() {
				unsup("unterminated single quote")
			}
			p.i++
			w.Parts = append(w.Parts, Part{Kind: PLit, Lit: q, Quoted: true})
		case '\\':
			flush(false)
			p.i++
			if p.eof() {
				break
			}
			if x := p.u[p.i]; x.B != nil {
				// escaped data byte: a newline would be a line continuation
				p.hazard(x, "\n", "backslash-escaped byte")
			}
			w.Parts = append(w.Parts, Part{Kind: PLit, Lit: []Unit{p.u[p.i]}, Quoted: true})
			p.i++
		case '$':
			flush(false)
			w.Parts = append(w.Parts, p.parseDollar(false))
		case '`':
			unsup("backquote command substitution")
		default:
			lit = append(lit, u)
			p.i++
		}
	}
	flush(false)
	if p.i == start {
		unsup("empty word at: %s", p.around())
	}
	return w
}

func (p *shParser) parseDQ() []Part {
	var parts []Part
	var lit []Unit
	flush := func() {
		if len(lit) > 0 {
			parts = append(parts, Part{Kind: PLit, Lit: lit, Quoted: true})
			lit = nil
		}
	}
	for {
		if p.eof() {
			unsup("unterminated double quote")
		}
		u := p.u[p.i]
		b, conc := concChar(u)
		if !conc {
			if u.B != nil {
				p.dqHazard(u)
			}
			lit = append(lit, u)
			p.i++
			continue
		}
		switch b {
		case '"':
			p.i++
			flush()
			return parts
		case '\\':
			if p.i+1 < len(p.u) {
				nx := p.u[p.i+1]
				if nb, ok := concChar(nx); ok {
					if strings.IndexByte("$`\"\\\n", nb) >= 0 {
						p.i += 2
						if nb != '\n' {
							lit = append(lit, nx)
						}
						continue
					}
				} else if nx.B != nil {
					// backslash followed by a data byte: the pair collapses if the byte is special
					p.hazard(nx, "$`\"\\\n", "byte after backslash in double quotes")
				}
			}
			lit = append(lit, u)
			p.i++
		case '$':
			flush()
			parts = append(parts, p.parseDollar(true))
		case '`':
			unsup("backquote command substitution")
		default:
			lit = append(lit, u)
			p.i++
		}
	}
}

// parseDollar parses $name, ${...}, $(...), $((...)), $1, $?.
func (p *shParser) parseDollar(quoted bool) Part {
	p.i++ // $
	if p.eof() {
		return Part{Kind: PLit, Lit: []Unit{{S: "$"}}, Quoted: true}
	}
	u := p.u[p.i]
	b, conc := concChar(u)
	if !conc {
		if u.B != nil {
			p.hazard(u, "({_?@#*!$-0123456789abcdefghijklmnopqrstuvwxyzABCDEFGHIJKLMNOPQRSTUVWXYZ", "byte after dollar sign")
		}
		return Part{Kind: PLit, Lit: []Unit{{S: "$"}}, Quoted: true}
	}
	switch {
	case b == '(' && p.peekIs(1, '('):
		p.i += 2
		return Part{Kind: PArith, Arith: p.parseArithUntil("))")}
	case b == '(':
		p.i++
		list := p.parseList(nil)
		p.skipBlanksAndNewlines()
		if !p.peekIs(0, ')') {
			unsup("unterminated command substitution: %s", p.around())
		}
		p.i++
		return Part{Kind: PCmdSub, List: list}
	case b == '{':
		p.i++
		return Part{Kind: PParam, ShParam: p.parseBraceParam()}
	case b == '?' || b == '@' || b == '#' || (b >= '0' && b <= '9'):
		p.i++
		return Part{Kind: PParam, ShParam: &ShParam{Name: string(b)}}
	case isNameStart(b):
		j := p.i
		for p.i < len(p.u) {
			x, ok := concChar(p.u[p.i])
			if !ok || !isNameChar(x) {
				if !ok && p.u[p.i].B != nil {
					p.hazard(p.u[p.i], "_0123456789abcdefghijklmnopqrstuvwxyzABCDEFGHIJKLMNOPQRSTUVWXYZ", "byte after unbraced variable name")
				}
				break
			}
			p.i++
		}
		return Part{Kind: PParam, ShParam: &ShParam{Name: litString(p.u[j:p.i])}}
	}
	return Part{Kind: PLit, Lit: []Unit{{S: "$"}}, Quoted: true}
}

func (p *shParser) parseBraceParam() *ShParam {
	pr := &ShParam{}
	if p.peekIs(0, '#') && !p.peekIs(1, '}') {
		pr.Len = true
		p.i++
	}
	// name may itself contain expansions (indirect names via eval only appear as text, so not here)
	j := p.i
	for p.i < len(p.u) {
		x, ok := concChar(p.u[p.i])
		if !ok {
			unsup("symbolic text in parameter name")
		}
		if !(isNameChar(x) || x == '?' || x == '@') {
			break
		}
		p.i++
	}
	pr.Name = litString(p.u[j:p.i])
	if pr.Name == "" {
		unsup("empty parameter name: %s", p.around())
	}
	if p.peekIs(0, '[') {
		p.i++
		pr.HasSub = true
		if p.peekIs(0, '@') && p.peekIs(1, ']') {
			pr.AllIdx = true
			p.i += 2
		} else {
			pr.Index = p.parseArithUntil("]")
		}
	}
	if p.peekIs(0, ':') {
		p.i++
		// offset up to ':' or '}'
		pr.Off = p.parseParamArith()
		if p.peekIs(0, ':') {
			p.i++
			pr.Length = p.parseParamArith()
		}
	}
	if !p.peekIs(0, '}') {
		unsup("unsupported parameter expansion form: %s", p.around())
	}
	p.i++
	return pr
}

func (p *shParser) parseParamArith() []Part {
	var parts []Part
	var lit []Unit
	for !p.eof() && !p.peekIs(0, ':') && !p.peekIs(0, '}') {
		if p.peekIs(0, '$') {
			if len(lit) > 0 {
				parts = append(parts, Part{Kind: PLit, Lit: lit})
				lit = nil
			}
			parts = append(parts, p.parseDollar(true))
			continue
		}
		lit = append(lit, p.u[p.i])
		p.i++
	}
	if len(lit) > 0 {
		parts = append(parts, Part{Kind: PLit, Lit: lit})
	}
	return parts
}

// dqHazard records when a data byte inside double quotes is active: a quote or backquote always,
// a dollar sign when an expansion can follow, a backslash when it escapes the next character.
func (p *shParser) dqHazard(u Unit) {
	B := p.c.B
	eq := func(t *sym.Term, chars string) *sym.Term {
		var parts []*sym.Term
		for i := 0; i < len(chars); i++ {
			parts = append(parts, B.Eq(t, B.BV(uint64(chars[i]), 8)))
		}
		return B.Or(parts...)
	}
	const expStart = "{(?@#*!$-_0123456789abcdefghijklmnopqrstuvwxyzABCDEFGHIJKLMNOPQRSTUVWXYZ"
	const escapable = "$`\"\\\n"
	h := eq(u.B, "\"`")
	var next *Unit
	if p.i+1 < len(p.u) {
		next = &p.u[p.i+1]
	}
	nextIn := func(chars string) *sym.Term {
		switch {
		case next == nil:
			return B.False
		case next.B != nil:
			return eq(next.B, chars)
		case next.D != nil:
			return B.Bool(strings.ContainsAny(chars, "-0123456789"))
		default:
			return B.Bool(strings.IndexByte(chars, next.S[0]) >= 0)
		}
	}
	h = B.Or(h, B.And(eq(u.B, "$"), nextIn(expStart)), B.And(eq(u.B, "\\"), nextIn(escapable)))
	if !h.IsFalse() {
		*p.hz = append(*p.hz, Hazard{Cond: h, What: "double-quoted word"})
	}
}
