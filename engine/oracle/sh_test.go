package oracle

import (
	"fmt"
	"testing"

	"verif/engine/gosym"
)

func TestSh(t *testing.T) {
	eng, err := gosym.Load("/repo")
	if err != nil {
		t.Fatal(err)
	}
	script := "one() {\n_rv0=\"5\"\nreturn\n}\none \n_h0=\"${_rv0}\"\nh=\"${_h0}\"\necho \"${h}\"\n"
	st := eng.Explore(func(c *gosym.Ctx) interface{} {
		sh := NewShell(c)
		o, s := sh.RunScript(gosym.Conc(script))
		fmt.Println(o.String(), s)
		return nil
	}, gosym.ExploreOpts{Workers: 1})
	fmt.Println(st.Details)
}
