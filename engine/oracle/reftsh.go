package oracle

import (
	"fmt"
	gopath "path"
	"strconv"
	"strings"

	"verif/engine/gosym"
	"verif/engine/sym"
)

// ---------------------------------------------------------------------------
// RefTSH: abstract syntax, renderer (Go precedence, minimal parentheses) and
// evaluator for the TypeShell language as the README and the property texts
// define it. Programs are built as ASTs by the checks; the renderer produces
// the source text handed to the real front-end, the evaluator produces the
// expected observable behaviour over the same symbolic values.
// ---------------------------------------------------------------------------

type Type struct {
	Base  string // "int", "bool", "string"
	Slice bool
}

func (t Type) String() string {
	if t.Slice {
		return "[]" + t.Base
	}
	return t.Base
}

var (
	TInt    = Type{Base: "int"}
	TBool   = Type{Base: "bool"}
	TString = Type{Base: "string"}
)

type Expr interface{}

type IntLit struct {
	Marker int   // >=0: symbolic literal number k (rendered as a marker, value = variable lit<k>)
	Val    int64 // used when Marker < 0
}
type BoolLit struct{ Val bool }
type StrLit struct {
	Val gosym.Str // may contain symbolic bytes
	Raw bool      // render with backquotes
	Nil bool      // render as nil
}
type Var struct{ Name string }
type Bin struct {
	Op   string // + - * / %  (and + on strings)
	L, R Expr
}
type Cmp struct {
	Op   string // == != < <= > >=
	L, R Expr
}
type Logic struct {
	Op   string // && ||
	L, R Expr
}
type Not struct{ X Expr }
type Paren struct{ X Expr }
type CallE struct {
	Alias string
	Fn    string
	Args  []Expr
}
type LenE struct{ X Expr }
type ItoaE struct{ X Expr }
type IndexE struct {
	S Expr // slice variable
	I Expr
}
type SliceLit struct {
	Elem  Type
	Elems []Expr
}
type StrIdx struct {
	S Expr
	I Expr
}
type Substr struct {
	S      Expr
	Lo, Hi Expr // nil = absent
}
type CopyE struct {
	Dst string
	Src Expr
}
type ExistsE struct{ Path Expr }
type ReadE struct{ Path Expr }
type InputE struct{ Prompt Expr }

// RawExpr is rendered verbatim; the reference takes Val as its value (for expressions outside the AST, e.g. std calls).
type RawExpr struct {
	Text string
	Val  Expr
}

// AppCallE is a chain of program calls: @"p1"(args) | @"p2"(args)
type AppCallE struct{ Calls []AppOne }
type AppOne struct {
	Name  string
	Args  []Expr
	Ident bool // written as an identifier instead of a string literal
}

type Stmt interface{}

type Define struct { // a, b := e1, e2   |  var a T = e | var a T
	Names []string
	Vals  []Expr
	VarKw bool
	Type  *Type
}
type Assign struct {
	Names []string
	Vals  []Expr
}
type OpAssign struct {
	Name string
	Op   string // + - * / %
	Val  Expr
}
type IncDec struct {
	Name string
	Inc  bool
}
type SliceSet struct {
	Name string
	I    Expr
	Val  Expr
}
type If struct {
	Conds  []Expr
	Blocks [][]Stmt
	Else   []Stmt // nil = none
}
type Case struct {
	Val  Expr
	Body []Stmt
}
type Switch struct {
	Tag     Expr // nil: "switch {"
	Cases   []Case
	Default []Stmt
	HasDef  bool
	DefPos  int // position of default among the cases
}
type For struct {
	Init Stmt
	Cond Expr
	Post Stmt
	Body []Stmt
	Kind int // 0: for {   1: for cond {   2: for init; cond; post {
}
type ForRange struct {
	I, V string // V may be ""
	X    Expr
	Body []Stmt
}
type Break struct{}
type Continue struct{}
type Print struct{ Args []Expr }
type PanicS struct{ X Expr }
type Return struct{ Vals []Expr }
type ExprStmt struct{ X Expr }
type WriteS struct {
	Path, Data Expr
	Append     Expr // nil = absent
}
type FuncDef struct {
	Name   string
	Params []ParamDecl
	Rets   []Type
	Body   []Stmt
}
type ParamDecl struct {
	Name string
	Type Type
}
type Comment struct{ Text string }
type RawStmt struct{ Text string } // rendered verbatim (for shapes the AST does not cover)

type Program struct {
	Imports []Import
	Body    []Stmt
}

type Import struct {
	Alias string
	Path  string
}

// ---------------------------------------------------------------- rendering

func prec(e Expr) int {
	switch x := e.(type) {
	case Logic:
		if x.Op == "||" {
			return 1
		}
		return 2
	case Cmp:
		return 3
	case Bin:
		if x.Op == "+" || x.Op == "-" {
			return 4
		}
		return 5
	case Not:
		return 6
	}
	return 7
}

type renderer struct {
	parts []gosym.Str
}

func (r *renderer) w(s string)     { r.parts = append(r.parts, gosym.Conc(s)) }
func (r *renderer) ws(s gosym.Str) { r.parts = append(r.parts, s) }

func MarkerText(k int) string { return strconv.Itoa(gosym.MarkerBase + k) }

func (r *renderer) expr(e Expr) {
	switch x := e.(type) {
	case IntLit:
		if x.Marker >= 0 {
			r.w(MarkerText(x.Marker))
		} else {
			r.w(strconv.FormatInt(x.Val, 10))
		}
	case BoolLit:
		r.w(strconv.FormatBool(x.Val))
	case StrLit:
		switch {
		case x.Nil:
			r.w("nil")
		case x.Raw:
			r.w("`")
			r.ws(x.Val)
			r.w("`")
		default:
			r.w(`"`)
			r.ws(x.Val)
			r.w(`"`)
		}
	case Var:
		r.w(x.Name)
	case Bin:
		r.binary(x.Op, x.L, x.R, prec(x))
	case Cmp:
		r.binary(x.Op, x.L, x.R, prec(x))
	case Logic:
		r.binary(x.Op, x.L, x.R, prec(x))
	case Not:
		r.w("!")
		r.sub(x.X, 6, false)
	case Paren:
		r.w("(")
		r.expr(x.X)
		r.w(")")
	case CallE:
		if x.Alias != "" {
			r.w(x.Alias + ".")
		}
		r.w(x.Fn + "(")
		r.list(x.Args)
		r.w(")")
	case LenE:
		r.w("len(")
		r.expr(x.X)
		r.w(")")
	case ItoaE:
		r.w("itoa(")
		r.expr(x.X)
		r.w(")")
	case IndexE:
		r.primaryOnly(x.S)
		r.expr(x.S)
		r.w("[")
		r.expr(x.I)
		r.w("]")
	case StrIdx:
		r.primaryOnly(x.S)
		r.expr(x.S)
		r.w("[")
		r.expr(x.I)
		r.w("]")
	case Substr:
		r.primaryOnly(x.S)
		r.expr(x.S)
		r.w("[")
		if x.Lo != nil {
			r.expr(x.Lo)
		}
		r.w(":")
		if x.Hi != nil {
			r.expr(x.Hi)
		}
		r.w("]")
	case SliceLit:
		r.w("[]" + x.Elem.Base + "{")
		r.list(x.Elems)
		r.w("}")
	case CopyE:
		r.w("copy(" + x.Dst + ", ")
		r.expr(x.Src)
		r.w(")")
	case ExistsE:
		r.w("exists(")
		r.expr(x.Path)
		r.w(")")
	case ReadE:
		r.w("read(")
		r.expr(x.Path)
		r.w(")")
	case RawExpr:
		r.w(x.Text)
	case AppCallE:
		for i, cl := range x.Calls {
			if i > 0 {
				r.w(" | ")
			}
			if cl.Ident {
				r.w("@" + cl.Name + "(") // the program is named by an identifier
			} else {
				r.w("@" + strconv.Quote(cl.Name) + "(")
			}
			r.list(cl.Args)
			r.w(")")
		}
	case InputE:
		r.w("input(")
		if x.Prompt != nil {
			r.expr(x.Prompt)
		}
		r.w(")")
	default:
		panic(fmt.Sprintf("render: expression %T", e))
	}
}

// primaryOnly: the language allows subscripts on identifiers and string literals only.
func (r *renderer) primaryOnly(e Expr) {
	switch e.(type) {
	case Var, StrLit:
		return
	}
	panic(fmt.Sprintf("render: subscript on %T is not expressible in the language", e))
}

func (r *renderer) list(es []Expr) {
	for i, e := range es {
		if i > 0 {
			r.w(", ")
		}
		r.expr(e)
	}
}

// sub renders an operand; rightSide=true demands parentheses at equal precedence (left associativity).
func (r *renderer) sub(e Expr, parent int, rightSide bool) {
	p := prec(e)
	if p < parent || (rightSide && p == parent) {
		r.w("(")
		r.expr(e)
		r.w(")")
		return
	}
	r.expr(e)
}

func (r *renderer) binary(op string, l, rr Expr, p int) {
	r.sub(l, p, false)
	r.w(" " + op + " ")
	r.sub(rr, p, true)
}

func (r *renderer) block(body []Stmt, ind string) {
	r.w(" {\n")
	for _, s := range body {
		r.stmt(s, ind+"\t")
	}
	r.w(ind + "}")
}

func (r *renderer) simple(s Stmt) {
	switch x := s.(type) {
	case Define:
		if x.VarKw {
			r.w("var " + strings.Join(x.Names, ", "))
			if x.Type != nil {
				r.w(" " + x.Type.String())
			}
			if len(x.Vals) > 0 {
				r.w(" = ")
				r.list(x.Vals)
			}
		} else {
			r.w(strings.Join(x.Names, ", ") + " := ")
			r.list(x.Vals)
		}
	case Assign:
		r.w(strings.Join(x.Names, ", ") + " = ")
		r.list(x.Vals)
	case OpAssign:
		r.w(x.Name + " " + x.Op + "= ")
		r.expr(x.Val)
	case IncDec:
		if x.Inc {
			r.w(x.Name + "++")
		} else {
			r.w(x.Name + "--")
		}
	default:
		panic(fmt.Sprintf("render: simple statement %T", s))
	}
}

func (r *renderer) stmt(s Stmt, ind string) {
	r.w(ind)
	switch x := s.(type) {
	case Define, Assign, OpAssign, IncDec:
		r.simple(x)
	case SliceSet:
		r.w(x.Name + "[")
		r.expr(x.I)
		r.w("] = ")
		r.expr(x.Val)
	case If:
		for i, c := range x.Conds {
			if i > 0 {
				r.w(" else ")
			}
			r.w("if ")
			r.expr(c)
			r.block(x.Blocks[i], ind)
		}
		if x.Else != nil {
			r.w(" else")
			r.block(x.Else, ind)
		}
	case Switch:
		r.w("switch")
		if x.Tag != nil {
			r.w(" ")
			r.expr(x.Tag)
		}
		r.w(" {\n")
		emitDefault := func() {
			r.w(ind + "default:\n")
			for _, b := range x.Default {
				r.stmt(b, ind+"\t")
			}
		}
		for i, cs := range x.Cases {
			if x.HasDef && x.DefPos == i {
				emitDefault()
			}
			r.w(ind + "case ")
			r.expr(cs.Val)
			r.w(":\n")
			for _, b := range cs.Body {
				r.stmt(b, ind+"\t")
			}
		}
		if x.HasDef && x.DefPos >= len(x.Cases) {
			emitDefault()
		}
		r.w(ind + "}")
	case For:
		r.w("for")
		switch x.Kind {
		case 1:
			r.w(" ")
			r.expr(x.Cond)
		case 2:
			r.w(" ")
			if x.Init != nil {
				r.simple(x.Init)
			}
			r.w("; ")
			if x.Cond != nil {
				r.expr(x.Cond)
			}
			r.w(";")
			if x.Post != nil {
				r.w(" ")
				r.simple(x.Post)
			}
		}
		r.block(x.Body, ind)
	case ForRange:
		r.w("for " + x.I)
		if x.V != "" {
			r.w(", " + x.V)
		}
		r.w(" := range ")
		r.expr(x.X)
		r.block(x.Body, ind)
	case Break:
		r.w("break")
	case Continue:
		r.w("continue")
	case Print:
		r.w("print(")
		r.list(x.Args)
		r.w(")")
	case PanicS:
		r.w("panic(")
		r.expr(x.X)
		r.w(")")
	case Return:
		r.w("return")
		if len(x.Vals) > 0 {
			r.w(" ")
			r.list(x.Vals)
		}
	case ExprStmt:
		r.expr(x.X)
	case WriteS:
		r.w("write(")
		r.expr(x.Path)
		r.w(", ")
		r.expr(x.Data)
		if x.Append != nil {
			r.w(", ")
			r.expr(x.Append)
		}
		r.w(")")
	case FuncDef:
		r.w("func " + x.Name + "(")
		for i, p := range x.Params {
			if i > 0 {
				r.w(", ")
			}
			r.w(p.Name + " " + p.Type.String())
		}
		r.w(")")
		switch len(x.Rets) {
		case 0:
		case 1:
			r.w(" " + x.Rets[0].String())
		default:
			r.w(" (")
			for i, t := range x.Rets {
				if i > 0 {
					r.w(", ")
				}
				r.w(t.String())
			}
			r.w(")")
		}
		r.block(x.Body, ind)
	case Comment:
		r.w("// " + x.Text)
	case RawStmt:
		r.w(x.Text)
	default:
		panic(fmt.Sprintf("render: statement %T", s))
	}
	r.w("\n")
}

// Render produces the source text of a program.
func Render(p *Program) gosym.Str {
	r := &renderer{}
	if len(p.Imports) > 0 {
		r.w("import (\n")
		for _, im := range p.Imports {
			r.w("\t")
			if im.Alias != "" {
				r.w(im.Alias + " ")
			}
			r.w(strconv.Quote(im.Path) + "\n")
		}
		r.w(")\n")
	}
	for _, s := range p.Body {
		r.stmt(s, "")
	}
	return gosym.Concat(r.parts...)
}

// ---------------------------------------------------------------- evaluation

type RV interface{}
type RInt struct{ T *sym.Term }
type RBool struct{ T *sym.Term }
type RStr struct{ S gosym.Str }
type RSlice struct{ P *SliceObj }
type SliceObj struct {
	Elems []RV
	Elem  Type
}

type Excluded struct{ Why string } // the input is outside the property's quantifier

type RefUnsupported struct{ Msg string }

type refCtl int

const (
	rcNone refCtl = iota
	rcBreak
	rcContinue
	rcReturn
	rcExit
)

type scope map[string]*RV

type Interp struct {
	C      *gosym.Ctx
	Out    []gosym.Str // one entry per printed line (with trailing newline)
	Exit   int64
	Exited bool
	cur    *Module
	mods   map[string]*Module
	files  map[string]*Program
	frames [][]scope // call stack; each frame is a stack of block scopes
	// LazyRead is set when a statement reads a scalar variable and, later in the same statement, calls a function that
	// assigns that variable (Go uses the value read first; the back-ends copy variable references into the emitted
	// statement, so the script sees the new value - a recorded defect class of its own).
	LazyRead bool
	// BreakInSwitch is set when a break statement left a switch clause (Go: the switch ends, an enclosing loop goes on)
	BreakInSwitch bool
	curReads      map[*RV]bool   // scalar variables read so far by the statement being evaluated
	pending       []map[*RV]bool // per function call in progress: what its calling statement had read before the call
	ctl           refCtl
	rets          []RV
	steps         int
	Files         map[string]gosym.Str
	Stdin         []gosym.Str
	AppStub       func(in *Interp, name string, args []gosym.Str, stdin gosym.Str) (gosym.Str, *sym.Term)
	Trace         []string
	MaxIter       int
	Bits          int // 0/64: 64-bit integers (Bash target); 32: integers wrap at 32 bits (Batch target)
	topPseudo     bool
}

func NewInterp(c *gosym.Ctx) *Interp {
	in := &Interp{C: c, Files: map[string]gosym.Str{}, MaxIter: 24, mods: map[string]*Module{}}
	in.cur = &Module{Name: "main", Globals: scope{}, Funcs: map[string]*FuncDef{}, Imports: map[string]*Module{}}
	return in
}

func exclude(why string) { panic(Excluded{why}) }

func (in *Interp) tick() {
	in.steps++
	if in.steps > 100000 {
		panic(RefUnsupported{"reference evaluation budget exceeded"})
	}
}

func (in *Interp) find(name string) *RV {
	if len(in.frames) > 0 {
		fr := in.frames[len(in.frames)-1]
		for i := len(fr) - 1; i >= 0; i-- {
			if p, ok := fr[i][name]; ok {
				return p
			}
		}
	}
	if p, ok := in.cur.Globals[name]; ok {
		return p
	}
	panic(RefUnsupported{"reference evaluator: undefined variable " + name})
}

func (in *Interp) define(name string, v RV) {
	vv := v
	if len(in.frames) > 0 {
		fr := in.frames[len(in.frames)-1]
		fr[len(fr)-1][name] = &vv
		return
	}
	in.cur.Globals[name] = &vv
}

func zeroOf(t Type, B *sym.Builder) RV {
	if t.Slice {
		return RSlice{&SliceObj{Elem: Type{Base: t.Base}}}
	}
	switch t.Base {
	case "int":
		return RInt{B.BV(0, 64)}
	case "bool":
		return RBool{B.False}
	}
	return RStr{}
}

// Module is one source file with its own globals and functions.
type Module struct {
	Name    string
	Globals scope
	Funcs   map[string]*FuncDef
	Imports map[string]*Module
}

// SetFiles registers the imported files (path as written in the import -> program).
func (in *Interp) SetFiles(files map[string]*Program) { in.files = files }

func (in *Interp) load(path string) *Module {
	// a local import is resolved against the directory of the importing file; a file is one module however it is reached
	if strings.HasSuffix(path, ".tsh") && in.cur != nil && strings.Contains(in.cur.Name, "/") {
		path = gopath.Join(gopath.Dir(in.cur.Name), path)
	} else if strings.HasSuffix(path, ".tsh") {
		path = gopath.Clean(path)
	}
	if m, ok := in.mods[path]; ok {
		return m
	}
	p := in.files[path]
	if p == nil {
		if !strings.HasSuffix(path, ".tsh") {
			// standard library file: its functions are only used through raw statements, which the reference skips
			m := &Module{Name: path, Globals: scope{}, Funcs: map[string]*FuncDef{}, Imports: map[string]*Module{}}
			in.mods[path] = m
			return m
		}
		panic(RefUnsupported{"reference: import of unknown file " + path})
	}
	m := &Module{Name: path, Globals: scope{}, Funcs: map[string]*FuncDef{}, Imports: map[string]*Module{}}
	in.mods[path] = m
	saved := in.cur
	in.cur = m
	for _, im := range p.Imports {
		m.Imports[im.Alias] = in.load(im.Path)
	}
	// the top-level code of a file runs once, when the file is first imported
	in.block(p.Body, false)
	in.cur = saved
	return m
}

// Run evaluates a program (imports first, in order).
func (in *Interp) Run(p *Program) {
	for _, im := range p.Imports {
		if in.ctl != rcNone {
			return
		}
		in.cur.Imports[im.Alias] = in.load(im.Path)
	}
	in.block(p.Body, false)
}

func (in *Interp) block(body []Stmt, scoped bool) {
	if scoped {
		in.enter()
		defer in.leave()
	}
	for _, s := range body {
		if in.ctl != rcNone {
			return
		}
		in.stmt(s)
	}
}

func (in *Interp) boolOf(e Expr) *sym.Term { return in.eval(e).(RBool).T }
func (in *Interp) intOf(e Expr) *sym.Term  { return in.eval(e).(RInt).T }
func (in *Interp) strOf(e Expr) gosym.Str  { return in.eval(e).(RStr).S }

func (in *Interp) fmtVal(v RV) gosym.Str {
	B := in.C.B
	switch x := v.(type) {
	case RInt:
		return gosym.DecStr(x.T)
	case RBool:
		return gosym.DecStr(B.Ite(x.T, B.BV(1, 64), B.BV(0, 64)))
	case RStr:
		return x.S
	}
	panic(RefUnsupported{fmt.Sprintf("print of %T", v)})
}

func (in *Interp) concIdx(t *sym.Term, lo, hi int, what string) int {
	if t.IsConst() {
		return int(t.Signed())
	}
	for k := lo; k <= hi; k++ {
		if in.C.Branch(in.C.B.Eq(t, in.C.B.Int(int64(k), 64))) {
			return k
		}
	}
	exclude(what + " outside the explored range")
	return 0
}

func (in *Interp) noteWrite(p *RV) {
	for _, set := range in.pending {
		if set[p] {
			in.LazyRead = true
		}
	}
}

func (in *Interp) stmt(s Stmt) {
	in.tick()
	savedReads := in.curReads
	in.curReads = map[*RV]bool{}
	defer func() { in.curReads = savedReads }()
	B := in.C.B
	switch x := s.(type) {
	case Comment, RawStmt:
	case Define:
		if len(x.Vals) == 0 {
			for _, n := range x.Names {
				in.define(n, zeroOf(*x.Type, B))
			}
			return
		}
		vals := in.evalList(x.Vals, len(x.Names))
		for i, n := range x.Names {
			in.define(n, vals[i])
		}
	case Assign:
		vals := in.evalList(x.Vals, len(x.Names))
		for i, n := range x.Names {
			p := in.find(n)
			in.noteWrite(p)
			*p = vals[i]
		}
	case OpAssign:
		p := in.find(x.Name)
		v := in.binop(x.Op, *p, in.eval(x.Val))
		in.noteWrite(p)
		*p = v
	case IncDec:
		p := in.find(x.Name)
		in.noteWrite(p)
		op := sym.OpAdd
		if !x.Inc {
			op = sym.OpSub
		}
		*p = RInt{in.wrap(B.Bin(op, (*p).(RInt).T, B.BV(1, 64)))}
	case SliceSet:
		so := (*in.find(x.Name)).(RSlice).P
		it := in.intOf(x.I)
		v := in.eval(x.Val)
		if in.C.Branch(B.Cmp(sym.OpSLt, it, B.BV(0, 64))) {
			exclude("negative slice index")
		}
		i := in.concIdx(it, 0, idxMax, "slice index")
		for len(so.Elems) <= i {
			so.Elems = append(so.Elems, zeroOf(so.Elem, B))
		}
		so.Elems[i] = v
	case If:
		// all conditions are evaluated first, in order (documented caveat)
		var conds []*sym.Term
		for _, c := range x.Conds {
			conds = append(conds, in.boolOf(c))
		}
		for i, c := range conds {
			if in.C.Branch(c) {
				in.block(x.Blocks[i], true)
				return
			}
		}
		if x.Else != nil {
			in.block(x.Else, true)
		}
	case Switch:
		var conds []*sym.Term
		for _, cs := range x.Cases {
			var tag RV = RBool{B.True}
			if x.Tag != nil {
				tag = in.eval(x.Tag)
			}
			conds = append(conds, in.equal(tag, in.eval(cs.Val)))
		}
		for i, c := range conds {
			if in.C.Branch(c) {
				in.block(x.Cases[i].Body, true)
				if in.ctl == rcBreak {
					// Go: a break inside a switch clause leaves the switch (not an enclosing loop)
					in.ctl = rcNone
					in.BreakInSwitch = true
				}
				return
			}
		}
		if x.HasDef {
			in.block(x.Default, true)
			if in.ctl == rcBreak {
				in.ctl = rcNone
				in.BreakInSwitch = true
			}
		}
	case For:
		in.enter()
		defer in.leave()
		if x.Init != nil {
			in.stmt(x.Init)
		}
		for iter := 0; ; iter++ {
			if iter > in.MaxIter {
				exclude("loop exceeds the unwinding bound")
			}
			if x.Cond != nil {
				if !in.C.Branch(in.boolOf(x.Cond)) {
					break
				}
			}
			in.block(x.Body, true)
			if in.ctl == rcBreak {
				in.ctl = rcNone
				break
			}
			if in.ctl == rcContinue {
				in.ctl = rcNone
			}
			if in.ctl != rcNone {
				return
			}
			if x.Post != nil {
				in.stmt(x.Post)
			}
		}
	case ForRange:
		in.enter()
		defer in.leave()
		xv := in.eval(x.X)
		n := 0
		var so *SliceObj
		var str gosym.Str
		switch v := xv.(type) {
		case RSlice:
			so = v.P
		case RStr:
			str = v.S
			l, ok := str.Len()
			if !ok {
				panic(RefUnsupported{"range over a string with a decimal atom"})
			}
			n = l
		}
		in.define(x.I, RInt{B.BV(0, 64)})
		if x.V != "" {
			if so != nil {
				in.define(x.V, zeroOf(so.Elem, B))
			} else {
				in.define(x.V, RStr{})
			}
		}
		for i := 0; ; i++ {
			if so != nil {
				n = len(so.Elems) // the length is re-read every iteration
			}
			if i >= n {
				break
			}
			if i > in.MaxIter {
				exclude("loop exceeds the unwinding bound")
			}
			*in.find(x.I) = RInt{B.BV(uint64(i), 64)}
			if x.V != "" {
				if so != nil {
					*in.find(x.V) = so.Elems[i]
				} else {
					sub, _ := str.Sub(i, i+1)
					*in.find(x.V) = RStr{sub}
				}
			}
			in.block(x.Body, true)
			if in.ctl == rcBreak {
				in.ctl = rcNone
				break
			}
			if in.ctl == rcContinue {
				in.ctl = rcNone
			}
			if in.ctl != rcNone {
				return
			}
			// the index variable may have been modified by the body: the desugared loop increments it
			cur := (*in.find(x.I)).(RInt).T
			if !cur.IsConst() || int(cur.Signed()) != i {
				exclude("range index variable modified in the loop body")
			}
		}
	case Break:
		in.ctl = rcBreak
	case Continue:
		in.ctl = rcContinue
	case Print:
		var parts []gosym.Str
		for i, a := range x.Args {
			if i > 0 {
				parts = append(parts, gosym.Conc(" "))
			}
			v := in.eval(a)
			if tu, ok := v.([]RV); ok {
				for j, e := range tu {
					if j > 0 {
						parts = append(parts, gosym.Conc(" "))
					}
					parts = append(parts, in.fmtVal(e))
				}
				continue
			}
			parts = append(parts, in.fmtVal(v))
		}
		parts = append(parts, gosym.Conc("\n"))
		in.Out = append(in.Out, gosym.Concat(parts...))
	case PanicS:
		msg := in.strOf(x.X)
		in.Out = append(in.Out, gosym.Concat(gosym.Conc("panic: "), msg, gosym.Conc("\n")))
		in.Exit, in.Exited, in.ctl = 1, true, rcExit
	case Return:
		var acc []RV
		for _, v := range x.Vals {
			r := in.eval(v)
			if tu, ok := r.([]RV); ok {
				acc = append(acc, tu...)
			} else {
				acc = append(acc, r)
			}
		}
		in.rets = acc
		in.ctl = rcReturn
	case ExprStmt:
		if ac, ok := x.X.(AppCallE); ok {
			// statement form: the output of the last program goes to the script's standard output
			out, _ := in.runApps(ac)
			in.Out = append(in.Out, out)
			return
		}
		in.eval(x.X)
	case FuncDef:
		f := x
		in.cur.Funcs[x.Name] = &f
	case WriteS:
		path := in.strOf(x.Path)
		data := in.strOf(x.Data)
		app := B.False
		if x.Append != nil {
			app = in.boolOf(x.Append)
		}
		p, ok := path.Go()
		if !ok {
			panic(RefUnsupported{"symbolic path in reference write"})
		}
		line := gosym.Concat(data, gosym.Conc("\n"))
		if in.C.Branch(app) {
			in.Files[p] = gosym.Concat(in.Files[p], line)
		} else {
			in.Files[p] = line
		}
	default:
		panic(RefUnsupported{fmt.Sprintf("reference evaluator: statement %T", s)})
	}
}

func (in *Interp) enter() {
	if len(in.frames) == 0 {
		in.frames = append(in.frames, []scope{{}})
		in.topPseudo = true
		return
	}
	in.frames[len(in.frames)-1] = append(in.frames[len(in.frames)-1], scope{})
}

func (in *Interp) leave() {
	if len(in.frames) == 0 || len(in.frames[len(in.frames)-1]) == 0 {
		return // unwinding after an Excluded / RefUnsupported outcome: the frame is gone already
	}
	fr := in.frames[len(in.frames)-1]
	fr = fr[:len(fr)-1]
	if len(fr) == 0 && len(in.frames) == 1 && in.topPseudo {
		in.frames = in.frames[:0]
		in.topPseudo = false
		return
	}
	in.frames[len(in.frames)-1] = fr
}

func (in *Interp) evalList(es []Expr, want int) []RV {
	var out []RV
	for _, e := range es {
		v := in.eval(e)
		if tu, ok := v.([]RV); ok {
			out = append(out, tu...)
		} else {
			out = append(out, v)
		}
	}
	if len(out) != want {
		panic(RefUnsupported{fmt.Sprintf("reference: %d values for %d names", len(out), want)})
	}
	return out
}

func (in *Interp) equal(a, b RV) *sym.Term {
	B := in.C.B
	switch x := a.(type) {
	case RInt:
		return B.Eq(x.T, b.(RInt).T)
	case RBool:
		return B.Eq(x.T, b.(RBool).T)
	case RStr:
		return in.C.StrEq(x.S, b.(RStr).S)
	}
	panic(RefUnsupported{"equality of slices"})
}

// wrap reduces an integer result to the target's width.
func (in *Interp) wrap(t *sym.Term) *sym.Term {
	if in.Bits == 32 {
		return in.C.B.SExt(in.C.B.Extract(t, 0, 32), 64)
	}
	return t
}

func (in *Interp) binop(op string, a, b RV) RV {
	B := in.C.B
	if s, ok := a.(RStr); ok {
		return RStr{gosym.Concat(s.S, b.(RStr).S)}
	}
	x, y := a.(RInt).T, b.(RInt).T
	if in.Bits == 32 {
		// operate on the low 32 bits and sign-extend the result (the shape BatSem produces for set /A)
		x32, y32 := B.Extract(x, 0, 32), B.Extract(y, 0, 32)
		var r *sym.Term
		switch op {
		case "+":
			r = B.Bin(sym.OpAdd, x32, y32)
		case "-":
			r = B.Bin(sym.OpSub, x32, y32)
		case "*":
			r = B.Bin(sym.OpMul, x32, y32)
		case "/", "%":
			if in.C.Branch(B.Eq(y32, B.BV(0, 32))) {
				exclude("division or modulo by zero")
			}
			if in.C.Branch(B.And(B.Eq(x32, B.BV(0x80000000, 32)), B.Eq(y32, B.BV(0xffffffff, 32)))) {
				exclude("INT_MIN / -1 at 32 bits")
			}
			if op == "/" {
				r = B.Bin(sym.OpSDiv, x32, y32)
			} else {
				r = B.Bin(sym.OpSRem, x32, y32)
			}
		default:
			panic(RefUnsupported{"operator " + op})
		}
		return RInt{B.SExt(r, 64)}
	}
	switch op {
	case "+":
		return RInt{in.wrap(B.Bin(sym.OpAdd, x, y))}
	case "-":
		return RInt{in.wrap(B.Bin(sym.OpSub, x, y))}
	case "*":
		return RInt{in.wrap(B.Bin(sym.OpMul, x, y))}
	case "/", "%":
		if in.C.Branch(B.Eq(y, B.BV(0, 64))) {
			exclude("division or modulo by zero")
		}
		if in.Bits == 32 && in.C.Branch(B.And(B.Eq(x, B.Int(-2147483648, 64)), B.Eq(y, B.Int(-1, 64)))) {
			exclude("INT_MIN / -1 at 32 bits")
		}
		if op == "/" {
			return RInt{in.wrap(B.Bin(sym.OpSDiv, x, y))}
		}
		return RInt{in.wrap(B.Bin(sym.OpSRem, x, y))}
	}
	panic(RefUnsupported{"operator " + op})
}

func (in *Interp) eval(e Expr) RV {
	in.tick()
	B := in.C.B
	switch x := e.(type) {
	case IntLit:
		if x.Marker >= 0 {
			v := in.C.MarkerVar(x.Marker)
			if in.Bits == 32 {
				// literals of a 32-bit program fit into 32 bits
				in.C.AssumeUnchecked(B.And(B.Cmp(sym.OpSLe, B.Int(-2147483648, 64), v), B.Cmp(sym.OpSLe, v, B.Int(2147483647, 64))))
			}
			return RInt{v}
		}
		return RInt{B.Int(x.Val, 64)}
	case BoolLit:
		return RBool{B.Bool(x.Val)}
	case StrLit:
		return RStr{x.Val}
	case Var:
		p := in.find(x.Name)
		switch (*p).(type) {
		case RInt, RBool, RStr:
			if in.curReads != nil {
				in.curReads[p] = true
			}
		}
		return *p
	case Paren:
		return in.eval(x.X)
	case Bin:
		l := in.eval(x.L)
		r := in.eval(x.R)
		return in.binop(x.Op, l, r)
	case Cmp:
		l := in.eval(x.L)
		r := in.eval(x.R)
		switch x.Op {
		case "==":
			return RBool{in.equal(l, r)}
		case "!=":
			return RBool{B.Not(in.equal(l, r))}
		}
		a, b := l.(RInt).T, r.(RInt).T
		switch x.Op {
		case "<":
			return RBool{B.Cmp(sym.OpSLt, a, b)}
		case "<=":
			return RBool{B.Cmp(sym.OpSLe, a, b)}
		case ">":
			return RBool{B.Cmp(sym.OpSLt, b, a)}
		case ">=":
			return RBool{B.Cmp(sym.OpSLe, b, a)}
		}
	case Logic:
		// both operands are evaluated (documented eager evaluation)
		l := in.boolOf(x.L)
		r := in.boolOf(x.R)
		if x.Op == "&&" {
			return RBool{B.And(l, r)}
		}
		return RBool{B.Or(l, r)}
	case Not:
		return RBool{B.Not(in.boolOf(x.X))}
	case LenE:
		switch v := in.eval(x.X).(type) {
		case RSlice:
			return RInt{B.BV(uint64(len(v.P.Elems)), 64)}
		case RStr:
			n, ok := v.S.Len()
			if !ok {
				panic(RefUnsupported{"len of a string holding a decimal atom"})
			}
			return RInt{B.BV(uint64(n), 64)}
		}
	case ItoaE:
		return RStr{gosym.DecStr(in.intOf(x.X))}
	case SliceLit:
		so := &SliceObj{Elem: x.Elem}
		for _, el := range x.Elems {
			so.Elems = append(so.Elems, in.eval(el))
		}
		return RSlice{so}
	case IndexE:
		so := in.eval(x.S).(RSlice).P
		it := in.intOf(x.I)
		if in.C.Branch(B.Or(B.Cmp(sym.OpSLt, it, B.BV(0, 64)), B.Cmp(sym.OpSLe, B.BV(uint64(len(so.Elems)), 64), it))) {
			exclude("out-of-range slice read")
		}
		i := in.concIdx(it, 0, len(so.Elems)-1, "slice index")
		return so.Elems[i]
	case StrIdx:
		s := in.strOf(x.S)
		it := in.intOf(x.I)
		n, ok := s.Len()
		if !ok {
			panic(RefUnsupported{"index of a string holding a decimal atom"})
		}
		if in.C.Branch(B.Or(B.Cmp(sym.OpSLt, it, B.BV(0, 64)), B.Cmp(sym.OpSLe, B.BV(uint64(n), 64), it))) {
			exclude("out-of-range string index")
		}
		i := in.concIdx(it, 0, n-1, "string index")
		sub, _ := s.Sub(i, i+1)
		return RStr{sub}
	case Substr:
		s := in.strOf(x.S)
		n, ok := s.Len()
		if !ok {
			panic(RefUnsupported{"substring of a string holding a decimal atom"})
		}
		lo, hi := 0, n
		var lot, hit *sym.Term
		if x.Lo != nil {
			lot = in.intOf(x.Lo)
		}
		if x.Hi != nil {
			hit = in.intOf(x.Hi)
		}
		if lot != nil {
			if in.C.Branch(B.Or(B.Cmp(sym.OpSLt, lot, B.BV(0, 64)), B.Cmp(sym.OpSLt, B.BV(uint64(n), 64), lot))) {
				exclude("substring bounds out of range")
			}
			lo = in.concIdx(lot, 0, n, "substring bound")
		}
		if hit != nil {
			if in.C.Branch(B.Or(B.Cmp(sym.OpSLt, hit, B.BV(uint64(lo), 64)), B.Cmp(sym.OpSLt, B.BV(uint64(n), 64), hit))) {
				exclude("substring bounds out of range")
			}
			hi = in.concIdx(hit, lo, n, "substring bound")
		}
		sub, _ := s.Sub(lo, hi)
		return RStr{sub}
	case CopyE:
		dst := (*in.find(x.Dst)).(RSlice).P
		src := in.eval(x.Src).(RSlice).P
		if len(dst.Elems) > len(src.Elems) {
			exclude("copy into a longer destination")
		}
		n := len(src.Elems)
		tmp := append([]RV(nil), src.Elems...)
		for len(dst.Elems) < n {
			dst.Elems = append(dst.Elems, zeroOf(dst.Elem, B))
		}
		copy(dst.Elems, tmp)
		return RInt{B.BV(uint64(n), 64)}
	case ExistsE:
		p, ok := in.strOf(x.Path).Go()
		if !ok {
			panic(RefUnsupported{"symbolic path in reference exists"})
		}
		_, ex := in.Files[p]
		return RBool{B.Bool(ex)}
	case ReadE:
		p, ok := in.strOf(x.Path).Go()
		if !ok {
			panic(RefUnsupported{"symbolic path in reference read"})
		}
		content, ex := in.Files[p]
		if !ex {
			exclude("read of a file that does not exist")
		}
		// the content without its final newline
		u := content.Units()
		if len(u) > 0 {
			if b, ok := concChar(u[len(u)-1]); ok && b == '\n' {
				u = u[:len(u)-1]
			}
		}
		return RStr{gosym.Concat(gosym.Str{Segs: append([]Unit(nil), u...)})}
	case RawExpr:
		return in.eval(x.Val)
	case AppCallE:
		out, st := in.runApps(x)
		// captured: standard output without its trailing newline, empty stderr, exit status of the last program
		u := out.Units()
		if len(u) > 0 {
			if b, ok := concChar(u[len(u)-1]); ok && b == '\n' {
				u = u[:len(u)-1]
			}
		}
		return []RV{RStr{gosym.Concat(gosym.Str{Segs: append([]Unit(nil), u...)})}, RStr{}, RInt{st}}
	case InputE:
		if x.Prompt != nil {
			in.eval(x.Prompt)
		}
		if len(in.Stdin) == 0 {
			return RStr{}
		}
		l := in.Stdin[0]
		in.Stdin = in.Stdin[1:]
		return RStr{l}
	case CallE:
		callee := in.cur
		if x.Alias != "" {
			callee = in.cur.Imports[x.Alias]
			if callee == nil {
				panic(RefUnsupported{"reference: unknown import alias " + x.Alias})
			}
		}
		f := callee.Funcs[x.Fn]
		if f == nil {
			panic(RefUnsupported{"reference: call of unknown function " + x.Fn})
		}
		var args []RV
		for _, a := range x.Args {
			args = append(args, in.eval(a))
		}
		if len(in.frames) > 60 {
			panic(RefUnsupported{"reference: call depth"})
		}
		saved := in.topPseudo
		savedMod := in.cur
		in.topPseudo = false
		in.cur = callee
		in.frames = append(in.frames, []scope{{}})
		for i, p := range f.Params {
			in.define(p.Name, args[i])
		}
		snapshot := map[*RV]bool{}
		for p := range in.curReads {
			snapshot[p] = true
		}
		in.pending = append(in.pending, snapshot)
		in.block(f.Body, false)
		in.pending = in.pending[:len(in.pending)-1]
		in.frames = in.frames[:len(in.frames)-1]
		in.topPseudo = saved
		in.cur = savedMod
		var rets []RV
		if in.ctl == rcReturn {
			in.ctl = rcNone
			rets = in.rets
			in.rets = nil
		}
		switch len(f.Rets) {
		case 0:
			return nil
		case 1:
			if len(rets) != 1 {
				panic(RefUnsupported{"reference: function fell off its end"})
			}
			return rets[0]
		default:
			return rets
		}
	}
	panic(RefUnsupported{fmt.Sprintf("reference evaluator: expression %T", e)})
}

func (in *Interp) runApps(ac AppCallE) (gosym.Str, *sym.Term) {
	if in.AppStub == nil {
		panic(RefUnsupported{"reference: no program stub"})
	}
	// all arguments are evaluated first, left to right
	var argv [][]gosym.Str
	for _, cl := range ac.Calls {
		var args []gosym.Str
		for _, a := range cl.Args {
			// a program call used as an argument contributes its captured standard output
			switch v := in.eval(a).(type) {
			case []RV:
				args = append(args, v[0].(RStr).S)
			case RStr:
				args = append(args, v.S)
			default:
				panic(RefUnsupported{"reference: program argument that is not a string"})
			}
		}
		argv = append(argv, args)
	}
	var stdin gosym.Str
	var out gosym.Str
	st := in.C.B.BV(0, 64)
	for i, cl := range ac.Calls {
		out, st = in.AppStub(in, cl.Name, argv[i], stdin)
		stdin = out
	}
	return out, st
}
