package oracle

import (
	"fmt"
	"os"
	"sort"
	"strconv"
	"strings"

	"verif/engine/gosym"
	"verif/engine/sym"
)

// ---------------------------------------------------------------------------
// ShSem, part 2: evaluation of the parsed subset over symbolic values.
// ---------------------------------------------------------------------------

type Str = gosym.Str

type shArray struct {
	elems map[int]Str
}

func (a *shArray) length() int { return len(a.elems) }

type ctlKind int

const (
	ctlNone ctlKind = iota
	ctlBreak
	ctlContinue
	ctlReturn
	ctlExit
)

type ExtCall struct {
	Argv  []Str
	Stdin Str
	InSub bool
}

// ExtStub decides what an external command prints and returns.
type ExtStub func(sh *Shell, argv []Str, stdin Str) (stdout Str, status gosym.Value)

type Shell struct {
	C          *gosym.Ctx
	vars       map[string]Str
	arrays     map[string]*shArray
	locals     []map[string]*Str // dynamic scoping frames
	pos        [][]Str
	funcs      map[string]*Cmd
	Out        []Str // stdout chunks
	Err        []Str
	Status     gosym.Value // last exit status: int64 or BV64 term
	Files      map[string]Str
	Hazards    []Hazard
	Ext        []ExtCall
	Stub       ExtStub
	cmdSubs    int   // number of command substitutions run so far (decides the status of a pure assignment)
	Stdin      []Str // lines available to read
	ctl        ctlKind
	ctlN       int
	depth      int
	steps      int
	inSub      int
	ExitStatus gosym.Value
	Exited     bool
	Events     []string
}

func NewShell(c *gosym.Ctx) *Shell {
	return &Shell{C: c, vars: map[string]Str{}, arrays: map[string]*shArray{}, funcs: map[string]*Cmd{}, Files: map[string]Str{}, Status: int64(0)}
}

// RunScript parses and runs a script; it returns stdout as one rope and the exit status.
func (sh *Shell) RunScript(script Str) (out Str, status gosym.Value) {
	cmds := ParseScript(sh.C, script, &sh.Hazards)
	sh.runList(cmds)
	if sh.Exited {
		return gosym.Concat(sh.Out...), sh.ExitStatus
	}
	return gosym.Concat(sh.Out...), sh.Status
}

func (sh *Shell) tick() {
	sh.steps++
	if sh.steps&255 == 0 && sh.C.WallExceeded() {
		unsup("shell step budget exceeded (wall-clock limit of the path; non-terminating script?)")
	}
	if sh.steps > 200000 {
		unsup("shell step budget exceeded (non-terminating script?)")
	}
}

func (sh *Shell) lookup(name string) (*Str, bool) {
	for i := len(sh.locals) - 1; i >= 0; i-- {
		if p, ok := sh.locals[i][name]; ok {
			return p, true
		}
	}
	if v, ok := sh.vars[name]; ok {
		vv := v
		return &vv, true
	}
	return nil, false
}

func (sh *Shell) getVar(name string) Str {
	if a, ok := sh.arrays[name]; ok {
		return a.elems[0]
	}
	if p, ok := sh.lookup(name); ok {
		return *p
	}
	return Str{}
}

func (sh *Shell) setVar(name string, v Str) {
	for i := len(sh.locals) - 1; i >= 0; i-- {
		if p, ok := sh.locals[i][name]; ok {
			*p = v
			return
		}
	}
	delete(sh.arrays, name)
	sh.vars[name] = v
}

func (sh *Shell) runList(cmds []*Cmd) {
	for _, c := range cmds {
		if sh.ctl != ctlNone {
			return
		}
		sh.run(c)
	}
}

func statusIsZero(sh *Shell, st gosym.Value) bool {
	switch s := st.(type) {
	case int64:
		return s == 0
	case *sym.Term:
		return sh.C.Branch(sh.C.B.Eq(s, sh.C.B.BV(0, s.W)))
	}
	return false
}

func (sh *Shell) run(c *Cmd) {
	sh.tick()
	switch c.Kind {
	case CSimple:
		sh.runSimple(c)
	case CAndOr:
		sh.run(c.Sub[0])
		for i, op := range c.Ops {
			if sh.ctl != ctlNone {
				return
			}
			ok := statusIsZero(sh, sh.Status)
			if (op == "&&" && ok) || (op == "||" && !ok) {
				sh.run(c.Sub[i+1])
			}
		}
	case CNot:
		sh.run(c.Sub[0])
		if statusIsZero(sh, sh.Status) {
			sh.Status = int64(1)
		} else {
			sh.Status = int64(0)
		}
	case CPipeline:
		sh.runPipeline(c)
	case CGroup:
		sh.runList(c.Bodies[0])
	case CFuncDef:
		sh.funcs[c.Name] = c
		sh.Status = int64(0)
	case CIf:
		for i, cond := range c.Conds {
			sh.runList(cond)
			if sh.ctl != ctlNone {
				return
			}
			if statusIsZero(sh, sh.Status) {
				sh.Status = int64(0)
				sh.runList(c.Bodies[i])
				return
			}
		}
		sh.Status = int64(0)
		if c.HasElse {
			sh.runList(c.Bodies[len(c.Bodies)-1])
		}
	case CWhile:
		last := gosym.Value(int64(0))
		for {
			sh.tick()
			sh.runList(c.Conds[0])
			if sh.ctl != ctlNone {
				return
			}
			if !statusIsZero(sh, sh.Status) {
				break
			}
			sh.runList(c.Bodies[0])
			last = sh.Status
			if sh.loopCtl() {
				break
			}
			if sh.ctl != ctlNone {
				return
			}
		}
		sh.Status = last
	case CForArith:
		sh.arith(c.Init)
		for {
			sh.tick()
			if len(c.Test) > 0 {
				t := sh.arith(c.Test)
				if sh.C.Branch(sh.C.B.Eq(t, sh.C.B.BV(0, 64))) {
					break
				}
			}
			sh.runList(c.Bodies[0])
			if sh.loopCtl() {
				break
			}
			if sh.ctl != ctlNone {
				return
			}
			sh.arith(c.Step)
		}
		sh.Status = int64(0)
	default:
		unsup("command kind %d", c.Kind)
	}
}

// loopCtl consumes break/continue; returns true when the loop must end.
func (sh *Shell) loopCtl() bool {
	switch sh.ctl {
	case ctlBreak:
		sh.ctl = ctlNone
		return true
	case ctlContinue:
		sh.ctl = ctlNone
		return false
	}
	return false
}

// ---------------------------------------------------------------- expansion

// field under construction during word expansion
type fieldBuf struct {
	fields  []Str
	cur     []Str
	started bool // current field exists even if empty (quoted part seen)
}

func (f *fieldBuf) add(s Str, quoted bool) {
	f.cur = append(f.cur, s)
	if quoted || len(s.Segs) > 0 {
		f.started = true
	}
}

func (f *fieldBuf) split() {
	if f.started {
		f.fields = append(f.fields, gosym.Concat(f.cur...))
	}
	f.cur, f.started = nil, false
}

func (sh *Shell) hazardUnquoted(s Str, where string) {
	B := sh.C.B
	for _, g := range s.Segs {
		if g.B != nil {
			var parts []*sym.Term
			for _, ch := range " \t\n*?[\\" {
				parts = append(parts, B.Eq(g.B, B.BV(uint64(ch), 8)))
			}
			if h := B.Or(parts...); !h.IsFalse() {
				sh.Hazards = append(sh.Hazards, Hazard{Cond: h, What: "unquoted expansion (" + where + "): word splitting / globbing of data"})
			}
		}
	}
}

// expandWord performs parameter/command/arithmetic expansion, word splitting of unquoted
// expansions and quote removal.
func (sh *Shell) expandWord(w Word) []Str {
	fb := &fieldBuf{}
	for _, p := range w.Parts {
		switch p.Kind {
		case PLit:
			lit := gosym.Str{Segs: append([]Unit(nil), p.Lit...)}
			lit = gosym.Concat(lit)
			if !p.Quoted {
				if g, ok := lit.Go(); ok && strings.ContainsAny(g, "*?[") {
					sh.Events = append(sh.Events, "glob-literal:"+g)
				}
			}
			fb.add(lit, p.Quoted)
		case PDQ:
			fb.started = true
			for _, q := range p.Sub {
				fb.add(sh.expandPartQuoted(q), true)
			}
		default:
			v := sh.expandPartQuoted(p)
			// unquoted expansion: split on IFS whitespace
			sh.hazardUnquoted(v, "word")
			sh.splitInto(fb, v)
		}
	}
	fb.split()
	return fb.fields
}

func (sh *Shell) splitInto(fb *fieldBuf, v Str) {
	// split concrete blanks; symbolic bytes are kept (their blank-ness is a recorded hazard)
	var cur []Unit
	flushPiece := func() {
		if len(cur) > 0 {
			fb.add(gosym.Concat(gosym.Str{Segs: cur}), false)
			cur = nil
		}
	}
	for _, u := range v.Units() {
		if b, ok := concChar(u); ok && (b == ' ' || b == '\t' || b == '\n') {
			flushPiece()
			fb.split()
			continue
		}
		if b, ok := concChar(u); ok && (b == '*' || b == '?' || b == '[') {
			sh.Events = append(sh.Events, "glob-in-expansion")
		}
		cur = append(cur, u)
	}
	flushPiece()
}

func (sh *Shell) expandPartQuoted(p Part) Str {
	switch p.Kind {
	case PLit:
		return gosym.Concat(gosym.Str{Segs: append([]Unit(nil), p.Lit...)})
	case PDQ:
		var parts []Str
		for _, q := range p.Sub {
			parts = append(parts, sh.expandPartQuoted(q))
		}
		return gosym.Concat(parts...)
	case PParam:
		return sh.expandParam(p.ShParam)
	case PArith:
		return gosym.DecStr(sh.arith(p.Arith))
	case PCmdSub:
		return sh.cmdSub(p.List)
	}
	unsup("part kind")
	return Str{}
}

func (sh *Shell) expandWordSingle(w Word) Str {
	// for assignment values and redirection targets: no splitting
	var parts []Str
	for _, p := range w.Parts {
		parts = append(parts, sh.expandPartQuoted(p))
	}
	return gosym.Concat(parts...)
}

func (sh *Shell) positional(n int) Str {
	if len(sh.pos) == 0 {
		return Str{}
	}
	top := sh.pos[len(sh.pos)-1]
	if n >= 1 && n <= len(top) {
		return top[n-1]
	}
	return Str{}
}

func (sh *Shell) concInt(t *sym.Term, lo, hi int, what string) int {
	if t.IsConst() {
		return int(t.Signed())
	}
	for k := lo; k <= hi; k++ {
		if sh.C.Branch(sh.C.B.Eq(t, sh.C.B.Int(int64(k), 64))) {
			return k
		}
	}
	unsup("symbolic %s outside the modelled range %d..%d", what, lo, hi)
	return 0
}

const idxMax = 64

func (sh *Shell) expandParam(p *ShParam) Str {
	name := p.Name
	var val Str
	isPos := false
	if n, err := strconv.Atoi(name); err == nil && n >= 0 && name[0] != '-' && name[0] != '+' {
		// $1 .. $9 and ${10}, ${11}, ... (an unbraced $10 reaches this as name "1" followed by a literal 0)
		val = sh.positional(n)
		isPos = true
	} else if name == "?" {
		switch s := sh.Status.(type) {
		case int64:
			return gosym.Conc(strconv.FormatInt(s, 10))
		case *sym.Term:
			return gosym.DecStr(s)
		}
	} else if name == "#" {
		n := 0
		if len(sh.pos) > 0 {
			n = len(sh.pos[len(sh.pos)-1])
		}
		return gosym.Conc(strconv.Itoa(n))
	}
	if p.HasSub {
		arr := sh.arrays[name]
		if p.AllIdx {
			if p.Len {
				n := 0
				if arr != nil {
					n = arr.length()
				} else if _, ok := sh.lookup(name); ok {
					n = 1
				}
				return gosym.Conc(strconv.Itoa(n))
			}
			unsup("${name[@]} expansion")
		}
		idx := sh.concInt(sh.arith(p.Index), 0, idxMax, "array index")
		var e Str
		if arr != nil {
			e = arr.elems[idx]
		} else if idx == 0 {
			e = sh.getVar(name)
		}
		if p.Len {
			n, ok := e.Len()
			if !ok {
				unsup("length of a string holding a decimal atom")
			}
			return gosym.Conc(strconv.Itoa(n))
		}
		return e
	}
	if !isPos {
		val = sh.getVar(name)
	}
	if p.Len {
		n, ok := val.Len()
		if !ok {
			unsup("length of a string holding a decimal atom")
		}
		return gosym.Conc(strconv.Itoa(n))
	}
	if p.Off != nil {
		n, ok := val.Len()
		if !ok {
			unsup("substring of a string holding a decimal atom")
		}
		off := sh.concInt(sh.arith(p.Off), -idxMax, idxMax, "substring offset")
		if off < 0 {
			off = n + off
			if off < 0 {
				return Str{} // bash: empty when the negative offset exceeds the length
			}
		}
		if off > n {
			return Str{}
		}
		end := n
		if p.Length != nil {
			l := sh.concInt(sh.arith(p.Length), -idxMax, idxMax, "substring length")
			if l < 0 {
				end = n + l
				if end < off {
					sh.Err = append(sh.Err, gosym.Conc("substring expression < 0\n"))
					return Str{}
				}
			} else {
				end = min(n, off+l)
			}
		}
		r, _ := val.Sub(off, end)
		return r
	}
	return val
}

// cmdSub runs a command list in a subshell and returns its output without trailing newlines.
func (sh *Shell) cmdSub(list []*Cmd) Str {
	// fast path: $(if T; then echo A; else echo B; fi) with a pure test becomes an if-then-else term
	if v, ok := sh.mergedIfEcho(list); ok {
		sh.cmdSubs++
		sh.Status = int64(0)
		return v
	}
	sub := sh.subshell()
	sub.inSub++
	sh.cmdSubs++
	sub.runList(list)
	st := sub.Status
	if sub.Exited {
		st = sub.ExitStatus
	}
	sh.Status = st
	sh.Hazards = append(sh.Hazards, sub.Hazards...)
	sh.Ext = append(sh.Ext, sub.Ext...)
	sh.Err = append(sh.Err, sub.Err...)
	sh.Events = append(sh.Events, sub.Events...)
	sh.steps += sub.steps
	// files written in a subshell persist
	for k, v := range sub.Files {
		sh.Files[k] = v
	}
	out := gosym.Concat(sub.Out...)
	return stripTrailingNewlines(sh, out)
}

func stripTrailingNewlines(sh *Shell, s Str) Str {
	u := s.Units()
	for len(u) > 0 {
		last := u[len(u)-1]
		if b, ok := concChar(last); ok {
			if b != '\n' {
				break
			}
			u = u[:len(u)-1]
			continue
		}
		if last.B != nil && sh.C.Branch(sh.C.B.Eq(last.B, sh.C.B.BV('\n', 8))) {
			u = u[:len(u)-1]
			continue
		}
		break
	}
	return gosym.Concat(gosym.Str{Segs: append([]Unit(nil), u...)})
}

func (sh *Shell) subshell() *Shell {
	n := &Shell{C: sh.C, vars: map[string]Str{}, arrays: map[string]*shArray{}, funcs: sh.funcs, Files: map[string]Str{},
		Status: sh.Status, Stub: sh.Stub, depth: sh.depth, inSub: sh.inSub, Stdin: sh.Stdin}
	for k, v := range sh.vars {
		n.vars[k] = v
	}
	for k, a := range sh.arrays {
		na := &shArray{elems: map[int]Str{}}
		for i, e := range a.elems {
			na.elems[i] = e
		}
		n.arrays[k] = na
	}
	for _, fr := range sh.locals {
		nf := map[string]*Str{}
		for k, p := range fr {
			v := *p
			nf[k] = &v
		}
		n.locals = append(n.locals, nf)
	}
	n.pos = sh.pos
	for k, v := range sh.Files {
		n.Files[k] = v
	}
	return n
}

// mergedIfEcho recognises `if TEST [&&|| TEST]; then echo X; else echo Y; fi`.
func (sh *Shell) mergedIfEcho(list []*Cmd) (Str, bool) {
	if len(list) != 1 || list[0].Kind != CIf || len(list[0].Conds) != 1 || !list[0].HasElse {
		return Str{}, false
	}
	c := list[0]
	if len(c.Conds[0]) != 1 || len(c.Bodies[0]) != 1 || len(c.Bodies[1]) != 1 {
		return Str{}, false
	}
	echoArg := func(cmd *Cmd) (Str, bool) {
		if cmd.Kind != CSimple || len(cmd.Words) != 2 || len(cmd.Assigns) != 0 || len(cmd.Redirs) != 0 {
			return Str{}, false
		}
		if s, ok := sh.plainWord(cmd.Words[0]); !ok || s != "echo" {
			return Str{}, false
		}
		s, ok := sh.plainWord(cmd.Words[1])
		if !ok || s == "" {
			return Str{}, false
		}
		if _, err := strconv.ParseInt(s, 10, 64); err != nil {
			return Str{}, false
		}
		return gosym.Conc(s), true
	}
	a, ok1 := echoArg(c.Bodies[0][0])
	b, ok2 := echoArg(c.Bodies[1][0])
	if !ok1 || !ok2 {
		return Str{}, false
	}
	t, ok := sh.pureTestTerm(c.Conds[0][0])
	if !ok {
		return Str{}, false
	}
	if t.IsTrue() {
		return a, true
	}
	if t.IsFalse() {
		return b, true
	}
	av, _ := strconv.ParseInt(a.MustGo(), 10, 64)
	bv, _ := strconv.ParseInt(b.MustGo(), 10, 64)
	return gosym.DecStr(sh.C.B.Ite(t, sh.C.B.Int(av, 64), sh.C.B.Int(bv, 64))), true
}

func (sh *Shell) plainWord(w Word) (string, bool) {
	if len(w.Parts) != 1 || w.Parts[0].Kind != PLit {
		return "", false
	}
	for _, x := range w.Parts[0].Lit {
		if x.B != nil || x.D != nil {
			return "", false
		}
	}
	return litString(w.Parts[0].Lit), true
}

// pureTestTerm evaluates `[ ... ]` commands joined by && / || to a Bool term without forking,
// provided the operands expand without side effects.
func (sh *Shell) pureTestTerm(c *Cmd) (*sym.Term, bool) {
	B := sh.C.B
	switch c.Kind {
	case CAndOr:
		acc, ok := sh.pureTestTerm(c.Sub[0])
		if !ok {
			return nil, false
		}
		for i, op := range c.Ops {
			t, ok := sh.pureTestTerm(c.Sub[i+1])
			if !ok {
				return nil, false
			}
			if op == "&&" {
				acc = B.And(acc, t)
			} else {
				acc = B.Or(acc, t)
			}
		}
		return acc, true
	case CSimple:
		if len(c.Words) < 2 || len(c.Assigns) != 0 || len(c.Redirs) != 0 {
			return nil, false
		}
		if s, ok := sh.plainWord(c.Words[0]); !ok || s != "[" {
			return nil, false
		}
		for _, w := range c.Words[1:] {
			if !pureWord(w) {
				return nil, false
			}
		}
		var args []Str
		for _, w := range c.Words[1:] {
			args = append(args, sh.expandWord(w)...)
		}
		if len(args) == 0 {
			return nil, false
		}
		if g, ok := args[len(args)-1].Go(); !ok || g != "]" {
			return nil, false
		}
		t, ok := sh.testTerm(args[:len(args)-1])
		return t, ok
	}
	return nil, false
}

func pureWord(w Word) bool {
	for _, p := range w.Parts {
		if !purePart(p) {
			return false
		}
	}
	return true
}

func purePart(p Part) bool {
	switch p.Kind {
	case PLit:
		return true
	case PDQ:
		for _, q := range p.Sub {
			if !purePart(q) {
				return false
			}
		}
		return true
	case PParam:
		return p.ShParam.Index == nil && p.ShParam.Off == nil
	}
	return false
}

// ---------------------------------------------------------------- test / [

func (sh *Shell) strToInt(s Str) (*sym.Term, bool) {
	B := sh.C.B
	if len(s.Segs) == 1 && s.Segs[0].D != nil {
		return s.Segs[0].D, true
	}
	if g, ok := s.Go(); ok {
		g = strings.TrimSpace(g)
		v, err := strconv.ParseInt(g, 10, 64)
		if err != nil {
			return nil, false
		}
		return B.Int(v, 64), true
	}
	// symbolic digit bytes
	u := s.Units()
	if len(u) == 0 || len(u) > 18 {
		return nil, false
	}
	acc := B.BV(0, 64)
	for _, x := range u {
		if x.D != nil {
			return nil, false
		}
		b := unitTerm(B, x)
		isD := B.And(B.Cmp(sym.OpULe, B.BV('0', 8), b), B.Cmp(sym.OpULe, b, B.BV('9', 8)))
		if !sh.C.Branch(isD) {
			return nil, false
		}
		acc = B.Bin(sym.OpAdd, B.Bin(sym.OpMul, acc, B.BV(10, 64)), B.ZExt(B.Bin(sym.OpSub, b, B.BV('0', 8)), 64))
	}
	return acc, true
}

func unitTerm(B *sym.Builder, u Unit) *sym.Term {
	if u.B != nil {
		return u.B
	}
	return B.BV(uint64(u.S[0]), 8)
}

func (sh *Shell) nonEmpty(s Str) *sym.Term {
	return sh.C.B.Bool(s.MinLen() > 0)
}

// testTerm implements the POSIX argument-count rules of test for the operators the back-end uses.
func (sh *Shell) testTerm(a []Str) (*sym.Term, bool) {
	B := sh.C.B
	isOp := func(s Str, op string) bool { g, ok := s.Go(); return ok && g == op }
	switch len(a) {
	case 0:
		return B.False, true
	case 1:
		return sh.nonEmpty(a[0]), true
	case 2:
		switch {
		case isOp(a[0], "!"):
			return B.Not(sh.nonEmpty(a[1])), true
		case isOp(a[0], "-z"):
			return B.Not(sh.nonEmpty(a[1])), true
		case isOp(a[0], "-n"):
			return sh.nonEmpty(a[1]), true
		case isOp(a[0], "-e"), isOp(a[0], "-f"):
			p, ok := a[1].Go()
			if !ok {
				// symbolic path: exists iff equal to one of the known files
				acc := B.False
				for f := range sh.Files {
					acc = B.Or(acc, sh.C.StrEq(a[1], gosym.Conc(f)))
				}
				return acc, true
			}
			_, ex := sh.Files[p]
			return B.Bool(ex), true
		}
		return nil, false
	case 3:
		op, ok := a[1].Go()
		if ok {
			switch op {
			case "==", "=":
				return sh.C.StrEq(a[0], a[2]), true
			case "!=":
				return B.Not(sh.C.StrEq(a[0], a[2])), true
			case "-eq", "-ne", "-lt", "-le", "-gt", "-ge":
				x, ok1 := sh.strToInt(a[0])
				y, ok2 := sh.strToInt(a[2])
				if !ok1 || !ok2 {
					sh.Err = append(sh.Err, gosym.Conc("[: integer expression expected\n"))
					sh.Events = append(sh.Events, "test-error")
					return B.False, true
				}
				switch op {
				case "-eq":
					return B.Eq(x, y), true
				case "-ne":
					return B.Not(B.Eq(x, y)), true
				case "-lt":
					return B.Cmp(sym.OpSLt, x, y), true
				case "-le":
					return B.Cmp(sym.OpSLe, x, y), true
				case "-gt":
					return B.Cmp(sym.OpSLt, y, x), true
				default:
					return B.Cmp(sym.OpSLe, y, x), true
				}
			}
		}
		if isOp(a[0], "!") {
			t, ok := sh.testTerm(a[1:])
			if !ok {
				return nil, false
			}
			return B.Not(t), true
		}
		return nil, false
	case 4:
		if isOp(a[0], "!") {
			t, ok := sh.testTerm(a[1:])
			if !ok {
				return nil, false
			}
			return B.Not(t), true
		}
	}
	return nil, false
}

// ---------------------------------------------------------------- arithmetic

type arTok struct {
	kind int // 0 num, 1 ident, 2 op
	num  *sym.Term
	s    string
}

func (sh *Shell) arithTokens(parts []Part) []arTok {
	// expand parameter expansions textually, then tokenise
	var units []Unit
	for _, p := range parts {
		switch p.Kind {
		case PLit:
			units = append(units, p.Lit...)
		default:
			units = append(units, sh.expandPartQuoted(p).Units()...)
		}
	}
	B := sh.C.B
	var toks []arTok
	i := 0
	for i < len(units) {
		u := units[i]
		if u.D != nil {
			toks = append(toks, arTok{kind: 0, num: u.D})
			i++
			continue
		}
		if u.B != nil {
			// symbolic digit run
			acc := B.BV(0, 64)
			n := 0
			for i < len(units) && units[i].B != nil {
				b := units[i].B
				isD := B.And(B.Cmp(sym.OpULe, B.BV('0', 8), b), B.Cmp(sym.OpULe, b, B.BV('9', 8)))
				if !sh.C.Branch(isD) {
					unsup("non-digit data byte in arithmetic")
				}
				acc = B.Bin(sym.OpAdd, B.Bin(sym.OpMul, acc, B.BV(10, 64)), B.ZExt(B.Bin(sym.OpSub, b, B.BV('0', 8)), 64))
				i++
				n++
			}
			toks = append(toks, arTok{kind: 0, num: acc})
			continue
		}
		b := u.S[0]
		switch {
		case b == ' ' || b == '\t' || b == '\n':
			i++
		case b >= '0' && b <= '9':
			j := i
			for j < len(units) {
				x, ok := concChar(units[j])
				if !ok || x < '0' || x > '9' {
					break
				}
				j++
			}
			txt := litString(units[i:j])
			var v uint64
			if len(txt) > 1 && txt[0] == '0' {
				// leading zero: octal in bash
				pv, err := strconv.ParseUint(txt, 8, 64)
				if err != nil {
					unsup("invalid octal constant %s in arithmetic", txt)
				}
				v = pv
			} else {
				pv, err := strconv.ParseUint(txt, 10, 64)
				if err != nil {
					unsup("constant too large in arithmetic")
				}
				v = pv
			}
			toks = append(toks, arTok{kind: 0, num: B.BV(v, 64)})
			i = j
		case isNameStart(b):
			j := i
			for j < len(units) {
				x, ok := concChar(units[j])
				if !ok || !isNameChar(x) {
					break
				}
				j++
			}
			toks = append(toks, arTok{kind: 1, s: litString(units[i:j])})
			i = j
		default:
			two := ""
			if i+1 < len(units) {
				if x, ok := concChar(units[i+1]); ok {
					two = string([]byte{b, x})
				}
			}
			switch two {
			case "++", "--", "<=", ">=", "==", "!=", "&&", "||", "+=", "-=", "*=", "/=", "%=":
				// "--" directly before a number is two minus signs
				if (two == "--" || two == "++") && i+2 < len(units) {
					nx := units[i+2]
					if nx.D != nil || nx.B != nil || (nx.S != "" && nx.S[0] >= '0' && nx.S[0] <= '9') {
						toks = append(toks, arTok{kind: 2, s: string(b)})
						i++
						continue
					}
				}
				toks = append(toks, arTok{kind: 2, s: two})
				i += 2
			default:
				toks = append(toks, arTok{kind: 2, s: string(b)})
				i++
			}
		}
	}
	return toks
}

type arParser struct {
	sh   *Shell
	toks []arTok
	i    int
}

func (sh *Shell) arith(parts []Part) *sym.Term {
	toks := sh.arithTokens(parts)
	if len(toks) == 0 {
		return sh.C.B.BV(0, 64)
	}
	p := &arParser{sh: sh, toks: toks}
	v := p.assign()
	if p.i != len(p.toks) {
		unsup("arithmetic: trailing tokens")
	}
	return v
}

func (p *arParser) peekOp(ops ...string) string {
	if p.i < len(p.toks) && p.toks[p.i].kind == 2 {
		for _, o := range ops {
			if p.toks[p.i].s == o {
				return o
			}
		}
	}
	return ""
}

func (p *arParser) varTerm(name string) *sym.Term {
	v := p.sh.getVar(name)
	if len(v.Segs) == 0 {
		return p.sh.C.B.BV(0, 64)
	}
	t, ok := p.sh.strToInt(v)
	if !ok {
		// bash evaluates the value recursively as an expression; data that is not a number is out of the model
		p.sh.Events = append(p.sh.Events, "arith-nonnumeric:"+name)
		return p.sh.C.B.BV(0, 64)
	}
	return t
}

func (p *arParser) assign() *sym.Term {
	if p.i+1 < len(p.toks) && p.toks[p.i].kind == 1 && p.toks[p.i+1].kind == 2 {
		name := p.toks[p.i].s
		switch op := p.toks[p.i+1].s; op {
		case "=", "+=", "-=", "*=", "/=", "%=":
			p.i += 2
			rhs := p.assign()
			if op != "=" {
				rhs = p.bin(op[:1], p.varTerm(name), rhs)
			}
			p.sh.setVar(name, gosym.DecStr(rhs))
			return rhs
		}
	}
	return p.lor()
}

func (p *arParser) bin(op string, a, b *sym.Term) *sym.Term {
	B := p.sh.C.B
	boolT := func(t *sym.Term) *sym.Term { return B.Ite(t, B.BV(1, 64), B.BV(0, 64)) }
	switch op {
	case "+":
		return B.Bin(sym.OpAdd, a, b)
	case "-":
		return B.Bin(sym.OpSub, a, b)
	case "*":
		return B.Bin(sym.OpMul, a, b)
	case "/", "%":
		if p.sh.C.Branch(B.Eq(b, B.BV(0, 64))) {
			p.sh.Err = append(p.sh.Err, gosym.Conc("division by 0 (error token is ...)\n"))
			p.sh.Events = append(p.sh.Events, "div-by-zero")
			unsup("division by zero in shell arithmetic (excluded input)")
		}
		if op == "/" {
			return B.Bin(sym.OpSDiv, a, b)
		}
		return B.Bin(sym.OpSRem, a, b)
	case "<":
		return boolT(B.Cmp(sym.OpSLt, a, b))
	case "<=":
		return boolT(B.Cmp(sym.OpSLe, a, b))
	case ">":
		return boolT(B.Cmp(sym.OpSLt, b, a))
	case ">=":
		return boolT(B.Cmp(sym.OpSLe, b, a))
	case "==":
		return boolT(B.Eq(a, b))
	case "!=":
		return boolT(B.Not(B.Eq(a, b)))
	}
	unsup("arithmetic operator %s", op)
	return nil
}

func (p *arParser) lor() *sym.Term {
	B := p.sh.C.B
	l := p.land()
	for p.peekOp("||") != "" {
		p.i++
		r := p.land()
		l = B.Ite(B.Or(B.Not(B.Eq(l, B.BV(0, 64))), B.Not(B.Eq(r, B.BV(0, 64)))), B.BV(1, 64), B.BV(0, 64))
	}
	return l
}

func (p *arParser) land() *sym.Term {
	B := p.sh.C.B
	l := p.equality()
	for p.peekOp("&&") != "" {
		p.i++
		r := p.equality()
		l = B.Ite(B.And(B.Not(B.Eq(l, B.BV(0, 64))), B.Not(B.Eq(r, B.BV(0, 64)))), B.BV(1, 64), B.BV(0, 64))
	}
	return l
}

func (p *arParser) equality() *sym.Term {
	l := p.relational()
	for {
		op := p.peekOp("==", "!=")
		if op == "" {
			return l
		}
		p.i++
		l = p.bin(op, l, p.relational())
	}
}

func (p *arParser) relational() *sym.Term {
	l := p.additive()
	for {
		op := p.peekOp("<", "<=", ">", ">=")
		if op == "" {
			return l
		}
		p.i++
		l = p.bin(op, l, p.additive())
	}
}

func (p *arParser) additive() *sym.Term {
	l := p.multiplicative()
	for {
		op := p.peekOp("+", "-")
		if op == "" {
			return l
		}
		p.i++
		l = p.bin(op, l, p.multiplicative())
	}
}

func (p *arParser) multiplicative() *sym.Term {
	l := p.unary()
	for {
		op := p.peekOp("*", "/", "%")
		if op == "" {
			return l
		}
		p.i++
		l = p.bin(op, l, p.unary())
	}
}

func (p *arParser) unary() *sym.Term {
	B := p.sh.C.B
	switch p.peekOp("-", "+", "!") {
	case "-":
		p.i++
		return B.Neg(p.unary())
	case "+":
		p.i++
		return p.unary()
	case "!":
		p.i++
		v := p.unary()
		return B.Ite(B.Eq(v, B.BV(0, 64)), B.BV(1, 64), B.BV(0, 64))
	}
	return p.postfix()
}

func (p *arParser) postfix() *sym.Term {
	if p.i >= len(p.toks) {
		unsup("arithmetic: operand expected")
	}
	t := p.toks[p.i]
	switch t.kind {
	case 0:
		p.i++
		return t.num
	case 1:
		p.i++
		cur := p.varTerm(t.s)
		if op := p.peekOp("++", "--"); op != "" {
			p.i++
			nv := p.bin(op[:1], cur, p.sh.C.B.BV(1, 64))
			p.sh.setVar(t.s, gosym.DecStr(nv))
		}
		return cur
	case 2:
		if t.s == "(" {
			p.i++
			v := p.assign()
			if p.peekOp(")") == "" {
				unsup("arithmetic: ) expected")
			}
			p.i++
			return v
		}
	}
	unsup("arithmetic: unexpected token %q", t.s)
	return nil
}

// ---------------------------------------------------------------- simple commands

func (sh *Shell) writeOut(s Str) { sh.Out = append(sh.Out, s) }

func (sh *Shell) doAssign(a ShAssign, local bool) {
	if a.IsArr {
		arr := &shArray{elems: map[int]Str{}}
		i := 0
		for _, w := range a.Array {
			for _, f := range sh.expandWord(w) {
				arr.elems[i] = f
				i++
			}
		}
		delete(sh.vars, a.Name)
		sh.arrays[a.Name] = arr
		return
	}
	val := sh.expandWordSingle(a.Value)
	if a.Index != nil {
		idx := sh.concInt(sh.arith(a.Index), 0, idxMax, "array index")
		arr := sh.arrays[a.Name]
		if arr == nil {
			arr = &shArray{elems: map[int]Str{}}
			if p, ok := sh.lookup(a.Name); ok {
				arr.elems[0] = *p
			}
			delete(sh.vars, a.Name)
			sh.arrays[a.Name] = arr
		}
		arr.elems[idx] = val
		return
	}
	if local {
		if len(sh.locals) == 0 {
			sh.Err = append(sh.Err, gosym.Conc("local: can only be used in a function\n"))
			sh.Status = int64(1)
			return
		}
		v := val
		sh.locals[len(sh.locals)-1][a.Name] = &v
		return
	}
	sh.setVar(a.Name, val)
}

func (sh *Shell) runSimple(c *Cmd) {
	// expand words first (left to right), then assignments
	var argv []Str
	local := sh.isLocal(c)
	if !local {
		for _, w := range c.Words {
			argv = append(argv, sh.expandWord(w)...)
		}
	}
	if local {
		for _, a := range c.Assigns {
			sh.doAssign(a, true)
		}
		sh.Status = int64(0)
		return
	}
	if len(argv) == 0 {
		// pure assignment: the status is that of the last command substitution, else 0; "$?" in the value still
		// sees the status of the previous command
		before := sh.cmdSubs
		for _, a := range c.Assigns {
			sh.doAssign(a, false)
		}
		if sh.cmdSubs == before {
			sh.Status = int64(0)
		}
		return
	}
	if len(c.Assigns) > 0 {
		unsup("temporary assignment before a command")
	}
	name, conc := argv[0].Go()
	if !conc {
		sh.Hazards = append(sh.Hazards, Hazard{Cond: sh.C.B.True, What: "command name is data"})
		unsup("symbolic command name")
	}
	// redirections
	var outTarget *Str
	appendMode := false
	for _, r := range c.Redirs {
		t := sh.expandWord(r.Target)
		if len(t) != 1 {
			sh.Events = append(sh.Events, "ambiguous-redirect")
			sh.Err = append(sh.Err, gosym.Conc("ambiguous redirect\n"))
			sh.Status = int64(1)
			return
		}
		switch r.Op {
		case ">", ">>":
			tt := t[0]
			outTarget = &tt
			appendMode = r.Op == ">>"
		default:
			unsup("redirection %s", r.Op)
		}
	}
	saved := sh.Out
	if outTarget != nil {
		sh.Out = nil
	}
	sh.dispatch(name, argv)
	if outTarget != nil {
		written := gosym.Concat(sh.Out...)
		sh.Out = saved
		p, ok := outTarget.Go()
		if !ok {
			unsup("symbolic redirection target")
		}
		if appendMode {
			sh.Files[p] = gosym.Concat(sh.Files[p], written)
		} else {
			sh.Files[p] = written
		}
	}
}

func (sh *Shell) isLocal(c *Cmd) bool {
	if len(c.Words) != 1 {
		return false
	}
	s, ok := sh.plainWord(c.Words[0])
	return ok && s == "local"
}

func (sh *Shell) dispatch(name string, argv []Str) {
	B := sh.C.B
	// functions shadow builtins (except the special builtins, which the back-end never redefines)
	if f, ok := sh.funcs[name]; ok && !inList(name, []string{"break", "continue", "return", "exit", "eval", ":"}) {
		sh.callFunc(f, argv[1:])
		return
	}
	switch name {
	case ":", "true":
		sh.Status = int64(0)
	case "false":
		sh.Status = int64(1)
	case "echo":
		args := argv[1:]
		newline := true
		// option words
		for len(args) > 0 {
			g, ok := args[0].Go()
			if !ok {
				// data as first argument: it is an option if it spells -n / -e / -E combinations
				u := args[0].Units()
				if len(u) >= 2 && u[0].D == nil {
					first := unitTerm(B, u[0])
					cond := B.Eq(first, B.BV('-', 8))
					for _, x := range u[1:] {
						if x.D != nil {
							cond = B.False
							break
						}
						xb := unitTerm(B, x)
						cond = B.And(cond, B.Or(B.Eq(xb, B.BV('n', 8)), B.Eq(xb, B.BV('e', 8)), B.Eq(xb, B.BV('E', 8))))
					}
					if !cond.IsFalse() {
						sh.Hazards = append(sh.Hazards, Hazard{Cond: cond, What: "echo: data taken as an option"})
					}
				}
				break
			}
			if len(g) >= 2 && g[0] == '-' && strings.Trim(g[1:], "neE") == "" {
				if strings.Contains(g, "n") {
					newline = false
				}
				if strings.Contains(g, "e") {
					sh.Events = append(sh.Events, "echo-e")
				}
				sh.Events = append(sh.Events, "echo-option:"+g)
				args = args[1:]
				continue
			}
			break
		}
		var parts []Str
		for i, a := range args {
			if i > 0 {
				parts = append(parts, gosym.Conc(" "))
			}
			parts = append(parts, a)
		}
		if newline {
			parts = append(parts, gosym.Conc("\n"))
		}
		sh.writeOut(gosym.Concat(parts...))
		sh.Status = int64(0)
	case "exit":
		st := gosym.Value(sh.Status)
		if len(argv) > 1 {
			t, ok := sh.strToInt(argv[1])
			if !ok {
				unsup("exit with non-numeric argument")
			}
			if t.IsConst() {
				st = int64(t.Val & 255)
			} else {
				st = B.Bin(sym.OpBAnd, t, B.BV(255, 64))
			}
		}
		sh.ExitStatus = st
		sh.Exited = true
		sh.ctl = ctlExit
	case "return":
		if len(argv) > 1 {
			t, ok := sh.strToInt(argv[1])
			if !ok {
				unsup("return with non-numeric argument")
			}
			sh.Status = gosym.Value(t)
			if t.IsConst() {
				sh.Status = int64(t.Val & 255)
			}
		}
		sh.ctl = ctlReturn
	case "break":
		sh.ctl = ctlBreak
		sh.Status = int64(0)
	case "continue":
		sh.ctl = ctlContinue
		sh.Status = int64(0)
	case "[", "test":
		args := argv[1:]
		if name == "[" {
			if len(args) == 0 {
				unsup("[ without ]")
			}
			if g, ok := args[len(args)-1].Go(); !ok || g != "]" {
				sh.Err = append(sh.Err, gosym.Conc("[: missing `]'\n"))
				sh.Events = append(sh.Events, "test-error")
				sh.Status = int64(2)
				return
			}
			args = args[:len(args)-1]
		}
		t, ok := sh.testTerm(args)
		if !ok {
			sh.Events = append(sh.Events, "test-unmodelled")
			unsup("test expression with %d arguments outside the modelled forms", len(args))
		}
		if sh.C.Branch(t) {
			sh.Status = int64(0)
		} else {
			sh.Status = int64(1)
		}
	case "eval":
		var parts []Str
		for i, a := range argv[1:] {
			if i > 0 {
				parts = append(parts, gosym.Conc(" "))
			}
			parts = append(parts, a)
		}
		text := gosym.Concat(parts...)
		cmds := ParseScript(sh.C, text, &sh.Hazards)
		sh.runList(cmds)
	case "read":
		args := argv[1:]
		for len(args) >= 2 {
			if g, ok := args[0].Go(); ok && g == "-p" {
				// prompt goes to stderr (only when stdin is a terminal); ignored
				args = args[2:]
				continue
			}
			break
		}
		if len(args) != 1 {
			unsup("read with %d variables", len(args))
		}
		vn, ok := args[0].Go()
		if !ok {
			unsup("read into symbolic name")
		}
		if len(sh.Stdin) == 0 {
			sh.setVar(vn, Str{})
			sh.Status = int64(1)
			return
		}
		line := sh.Stdin[0]
		sh.Stdin = sh.Stdin[1:]
		// read without -r: backslashes escape the next character, IFS white space is trimmed at both ends
		u := line.Units()
		for i, x := range u {
			if x.B != nil {
				h := B.Eq(x.B, B.BV('\\', 8))
				if i == 0 || i == len(u)-1 {
					h = B.Or(h, B.Eq(x.B, B.BV(' ', 8)), B.Eq(x.B, B.BV('\t', 8)))
				}
				if !h.IsFalse() {
					sh.Hazards = append(sh.Hazards, Hazard{Cond: h, What: "read: backslash or leading/trailing blank in an input line"})
				}
			}
		}
		var kept []Unit
		for i := 0; i < len(u); i++ {
			if b, ok := concChar(u[i]); ok && b == '\\' {
				i++
				if i < len(u) {
					kept = append(kept, u[i])
				}
				continue
			}
			kept = append(kept, u[i])
		}
		for len(kept) > 0 {
			if b, ok := concChar(kept[0]); ok && (b == ' ' || b == '\t') {
				kept = kept[1:]
				continue
			}
			break
		}
		for len(kept) > 0 {
			if b, ok := concChar(kept[len(kept)-1]); ok && (b == ' ' || b == '\t') {
				kept = kept[:len(kept)-1]
				continue
			}
			break
		}
		sh.setVar(vn, gosym.Concat(gosym.Str{Segs: append([]Unit(nil), kept...)}))
		sh.Status = int64(0)
	case "cat":
		if len(argv) != 2 {
			unsup("cat with %d arguments", len(argv)-1)
		}
		p, ok := argv[1].Go()
		if !ok {
			unsup("cat of symbolic path")
		}
		content, ex := sh.Files[p]
		if !ex {
			sh.Err = append(sh.Err, gosym.Conc("cat: "+p+": No such file or directory\n"))
			sh.Status = int64(1)
			return
		}
		sh.writeOut(content)
		sh.Status = int64(0)
	case "local":
		sh.Status = int64(0)
	default:
		if f, ok := sh.funcs[name]; ok {
			sh.callFunc(f, argv[1:])
			return
		}
		if inList(name, unmodelledBuiltins) {
			// a shell builtin whose effect the model does not know must not be mistaken for an external program
			unsup("builtin " + name + " is not modelled")
		}
		// external command
		call := ExtCall{Argv: argv, InSub: sh.inSub > 0}
		sh.Ext = append(sh.Ext, call)
		if sh.Stub != nil && !strings.Contains(name, "/") && !isSystemProgram(name) {
			// a bare name is searched in PATH (/usr/bin:/bin): the stubbed programs of a harness live in the working
			// directory and are reachable only through a path (./probe), never by a bare name
			sh.Err = append(sh.Err, gosym.Conc(name+": command not found\n"))
			sh.Events = append(sh.Events, "command-not-found:"+name)
			sh.Status = int64(127)
			return
		}
		if sh.Stub == nil {
			if isSystemProgram(name) {
				// a program the real shell would find and run (mv, rm, tail, ...): its effect is outside the model
				unsup("external program " + name + " is not modelled")
			}
			sh.Err = append(sh.Err, gosym.Conc(name+": command not found\n"))
			sh.Events = append(sh.Events, "command-not-found:"+name)
			sh.Status = int64(127)
			return
		}
		out, st := sh.Stub(sh, argv, Str{})
		sh.writeOut(out)
		sh.Status = st
	}
}

func (sh *Shell) callFunc(f *Cmd, args []Str) {
	sh.depth++
	if sh.depth > 200 {
		unsup("shell function recursion too deep")
	}
	sh.pos = append(sh.pos, args)
	sh.locals = append(sh.locals, map[string]*Str{})
	sh.runList(f.Bodies[0])
	if sh.ctl == ctlReturn {
		sh.ctl = ctlNone
	}
	sh.locals = sh.locals[:len(sh.locals)-1]
	sh.pos = sh.pos[:len(sh.pos)-1]
	sh.depth--
}

func (sh *Shell) runPipeline(c *Cmd) {
	// each member runs in a subshell; output of one is the input of the next (external stubs only)
	var input Str
	for i, m := range c.Sub {
		sub := sh.subshell()
		sub.inSub = sh.inSub
		if m.Kind != CSimple {
			unsup("compound command in pipeline")
		}
		var argv []Str
		for _, w := range m.Words {
			argv = append(argv, sub.expandWord(w)...)
		}
		sh.Hazards = append(sh.Hazards, sub.Hazards...)
		if len(argv) == 0 {
			unsup("empty pipeline member")
		}
		name, ok := argv[0].Go()
		if !ok {
			unsup("symbolic command name")
		}
		if _, isFn := sh.funcs[name]; isFn || inList(name, []string{"echo", "cat", "eval", "read"}) || inList(name, unmodelledBuiltins) {
			unsup("builtin or function in pipeline")
		}
		sh.Ext = append(sh.Ext, ExtCall{Argv: argv, Stdin: input, InSub: sh.inSub > 0})
		var out Str
		var st gosym.Value = int64(127)
		if sh.Stub != nil && !strings.Contains(name, "/") && !isSystemProgram(name) {
			sh.Err = append(sh.Err, gosym.Conc(name+": command not found\n"))
			out, st = Str{}, int64(127)
		} else if sh.Stub != nil {
			out, st = sh.Stub(sh, argv, input)
		} else {
			if isSystemProgram(name) {
				unsup("external program " + name + " is not modelled")
			}
			sh.Err = append(sh.Err, gosym.Conc(name+": command not found\n"))
		}
		input = out
		if i == len(c.Sub)-1 {
			sh.writeOut(out)
			sh.Status = st
		}
	}
}

// SortedFiles lists the virtual files deterministically.
func (sh *Shell) SortedFiles() []string {
	var out []string
	for k := range sh.Files {
		out = append(out, k)
	}
	sort.Strings(out)
	return out
}

var _ = fmt.Sprintf

// unmodelledBuiltins are bash builtins that change the shell's state or mode and that ShSem does not interpret.
var unmodelledBuiltins = []string{"set", "shopt", "trap", "export", "declare", "typeset", "readonly", "unset", "shift", "exec", "ulimit", "umask",
	"alias", "unalias", "source", ".", "enable", "builtin", "command", "let", "getopts", "hash", "wait", "kill", "cd", "pushd", "popd", "printf",
	"mapfile", "readarray", "exit", "return", "break", "continue", "test", "[", "[[", "true", "false", ":", "type", "times", "bind", "caller", "compgen", "complete", "disown", "fc", "fg", "bg", "jobs", "history", "logout", "suspend", "help", "dirs", "coproc", "select", "time", "function", "until", "while"}

// isSystemProgram: would the real shell, started with PATH=/usr/bin:/bin, find a program of this name?
func isSystemProgram(name string) bool {
	if strings.Contains(name, "/") {
		_, err := os.Stat(name)
		return err == nil
	}
	for _, d := range []string{"/usr/bin", "/bin"} {
		if st, err := os.Stat(d + "/" + name); err == nil && !st.IsDir() {
			return true
		}
	}
	return false
}
