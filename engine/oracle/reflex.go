// Package oracle holds the executable specifications the real code is
// compared with: a reference lexer/front-end/evaluator for TypeShell
// (RefTSH) and the semantics of the emitted shell subsets (ShSem, BatSem).
// They share no code with the repository and run on the same symbolic values
// and path condition as the code under test.
package oracle

import (
	"verif/engine/gosym"
	"verif/engine/sym"
)

// RTok is a reference token. Kind is the name of the lexer's exported constant.
type RTok struct {
	Kind  string
	Val   gosym.Str
	Row   int
	Col   int
	PosOK bool // false when row/column are unspecified (non-ASCII text earlier on the line)
}

var refKeywords = map[string]string{
	"import": "IMPORT", "var": "VAR_DEFINITION", "func": "FUNCTION_DEFINITION", "return": "RETURN",
	"if": "IF", "else": "ELSE", "switch": "SWITCH", "case": "CASE", "default": "DEFAULT", "for": "FOR",
	"range": "RANGE", "break": "BREAK", "continue": "CONTINUE", "nil": "NIL_LITERAL",
	"len": "LEN", "print": "PRINT", "input": "INPUT", "copy": "COPY", "itoa": "ITOA", "exists": "EXISTS",
	"read": "READ", "write": "WRITE", "panic": "PANIC",
	"bool": "DATA_TYPE", "int": "DATA_TYPE", "string": "DATA_TYPE", "error": "DATA_TYPE",
	"true": "BOOL_LITERAL", "false": "BOOL_LITERAL",
}

// longest first
var refOps = []struct{ s, k string }{
	{"==", "COMPARE_OPERATOR"}, {"!=", "COMPARE_OPERATOR"}, {"<=", "COMPARE_OPERATOR"}, {">=", "COMPARE_OPERATOR"},
	{"&&", "LOGICAL_OPERATOR"}, {"||", "LOGICAL_OPERATOR"},
	{"+=", "COMPOUND_ASSIGN_OPERATOR"}, {"-=", "COMPOUND_ASSIGN_OPERATOR"}, {"*=", "COMPOUND_ASSIGN_OPERATOR"},
	{"/=", "COMPOUND_ASSIGN_OPERATOR"}, {"%=", "COMPOUND_ASSIGN_OPERATOR"},
	{":=", "SHORT_INIT_OPERATOR"}, {"++", "INCREMENT_OPERATOR"}, {"--", "DECREMENT_OPERATOR"},
	{"<", "COMPARE_OPERATOR"}, {">", "COMPARE_OPERATOR"}, {"=", "ASSIGN_OPERATOR"}, {"!", "UNARY_OPERATOR"},
	{"+", "BINARY_OPERATOR"}, {"-", "BINARY_OPERATOR"}, {"*", "BINARY_OPERATOR"}, {"/", "BINARY_OPERATOR"}, {"%", "BINARY_OPERATOR"},
	{"(", "OPENING_ROUND_BRACKET"}, {")", "CLOSING_ROUND_BRACKET"}, {"[", "OPENING_SQUARE_BRACKET"}, {"]", "CLOSING_SQUARE_BRACKET"},
	{"{", "OPENING_CURLY_BRACKET"}, {"}", "CLOSING_CURLY_BRACKET"},
	{",", "COMMA"}, {":", "COLON"}, {";", "SEMICOLON"}, {".", "DOT"}, {"@", "AT"}, {"|", "PIPE"},
}

type lexer struct {
	c     *gosym.Ctx
	u     []gosym.Seg
	i     int
	row   int
	col   int
	posOK bool
}

func (l *lexer) byteTerm(k int) *sym.Term {
	g := l.u[k]
	if g.B != nil {
		return g.B
	}
	return l.c.B.BV(uint64(g.S[0]), 8)
}

// is: does unit k exist and equal ch (forks on symbolic bytes)
func (l *lexer) is(k int, ch byte) bool {
	if k >= len(l.u) {
		return false
	}
	return l.c.Branch(l.c.B.Eq(l.byteTerm(k), l.c.B.BV(uint64(ch), 8)))
}

func (l *lexer) inRanges(k int, rs ...byte) bool {
	if k >= len(l.u) {
		return false
	}
	B := l.c.B
	b := l.byteTerm(k)
	acc := B.False
	for i := 0; i+1 < len(rs); i += 2 {
		if rs[i] == rs[i+1] {
			acc = B.Or(acc, B.Eq(b, B.BV(uint64(rs[i]), 8)))
		} else {
			acc = B.Or(acc, B.And(B.Cmp(sym.OpULe, B.BV(uint64(rs[i]), 8), b), B.Cmp(sym.OpULe, b, B.BV(uint64(rs[i+1]), 8))))
		}
	}
	return l.c.Branch(acc)
}

func (l *lexer) isDigit(k int) bool      { return l.inRanges(k, '0', '9') }
func (l *lexer) isIdentStart(k int) bool { return l.inRanges(k, 'a', 'z', 'A', 'Z', '_', '_') }
func (l *lexer) isIdentPart(k int) bool  { return l.inRanges(k, 'a', 'z', 'A', 'Z', '0', '9', '_', '_') }

// advance over units [i,j) updating row/col
func (l *lexer) advance(j int) {
	for ; l.i < j; l.i++ {
		g := l.u[l.i]
		nl := false
		if g.B == nil {
			nl = g.S[0] == '\n'
			if g.S[0] >= 0x80 {
				l.posOK = false
			}
		} else {
			nl = l.c.Branch(l.c.B.Eq(g.B, l.c.B.BV('\n', 8)))
			if !nl && !l.c.Branch(l.c.B.Cmp(sym.OpULt, g.B, l.c.B.BV(0x80, 8))) {
				l.posOK = false
			}
		}
		if nl {
			l.row++
			l.col = 1
			l.posOK = true
		} else {
			l.col++
		}
	}
}

func units(u []gosym.Seg) gosym.Str { return gosym.Concat(segStrs(u)...) }

func segStrs(u []gosym.Seg) []gosym.Str {
	out := make([]gosym.Str, len(u))
	for i, g := range u {
		out[i] = gosym.Str{Segs: []gosym.Seg{g}}
	}
	return out
}

// Lex is the reference tokeniser. unspecified != "" means the input falls
// outside what the property pins down (reason given); isErr means the input
// must be rejected.
func Lex(c *gosym.Ctx, src gosym.Str) (toks []RTok, isErr bool, unspecified string) {
	// CRLF -> LF (documented normalisation)
	raw := src.Units()
	var u []gosym.Seg
	for k := 0; k < len(raw); k++ {
		if k+1 < len(raw) {
			l0 := &lexer{c: c, u: raw}
			if l0.is(k, '\r') && l0.is(k+1, '\n') {
				continue
			}
		}
		u = append(u, raw[k])
	}
	l := &lexer{c: c, u: u, row: 1, col: 1, posOK: true}
	emit := func(kind string, val gosym.Str, row, col int, ok bool) {
		toks = append(toks, RTok{Kind: kind, Val: val, Row: row, Col: col, PosOK: ok})
	}
	for l.i < len(l.u) {
		row, col, ok := l.row, l.col, l.posOK
		i := l.i
		switch {
		case l.is(i, ' ') || l.is(i, '\t'):
			l.advance(i + 1)
		case l.is(i, '\n'):
			emit("NEWLINE", gosym.Conc("\n"), row, col, ok)
			l.advance(i + 1)
		case l.is(i, '"'):
			// interpreted string
			var parts []gosym.Str
			j := i + 1
			closed := false
			for j < len(l.u) {
				if l.is(j, '"') {
					closed = true
					j++
					break
				}
				if l.is(j, '\n') {
					return toks, false, "newline inside an interpreted string literal"
				}
				if l.is(j, '\\') {
					if j+1 >= len(l.u) {
						return toks, true, ""
					}
					if l.is(j+1, '\n') {
						return toks, false, "newline inside an interpreted string literal"
					}
					val, n, bad, unspec := l.escape(j + 1)
					if unspec != "" {
						return toks, false, unspec
					}
					if bad {
						return toks, true, ""
					}
					parts = append(parts, val)
					j += 1 + n
					continue
				}
				parts = append(parts, gosym.Str{Segs: []gosym.Seg{l.u[j]}})
				j++
			}
			if !closed {
				return toks, true, ""
			}
			emit("STRING_LITERAL", gosym.Concat(parts...), row, col, ok)
			l.advance(j)
		case l.is(i, '`'):
			j := i + 1
			closed := false
			for j < len(l.u) {
				if l.is(j, '`') {
					closed = true
					break
				}
				j++
			}
			if !closed {
				return toks, true, ""
			}
			emit("STRING_LITERAL", units(l.u[i+1:j]), row, col, ok)
			l.advance(j + 1)
		case l.is(i, '/') && l.is(i+1, '/'):
			j := i + 2
			for j < len(l.u) && !l.is(j, '\n') {
				j++
			}
			l.advance(j)
		case l.is(i, '/') && l.is(i+1, '*'):
			j := i + 2
			closed := false
			for j+1 < len(l.u) {
				if l.is(j, '*') && l.is(j+1, '/') {
					closed = true
					break
				}
				j++
			}
			if !closed {
				return toks, false, "unterminated block comment"
			}
			l.advance(j + 2)
		case l.isDigit(i) || (!operandEnd(toks) && l.is(i, '-') && l.isDigit(i+1)):
			j := i
			if l.is(j, '-') {
				j++
			}
			for l.isDigit(j) {
				j++
			}
			if l.is(j, '.') && l.isDigit(j+1) {
				j++
				for l.isDigit(j) {
					j++
				}
			}
			emit("NUMBER_LITERAL", units(l.u[i:j]), row, col, ok)
			l.advance(j)
		case l.isIdentStart(i):
			j := i + 1
			for l.isIdentPart(j) {
				j++
			}
			word := units(l.u[i:j])
			kind := "IDENTIFIER"
			if g, conc := word.Go(); conc {
				if k, isKw := refKeywords[g]; isKw {
					kind = k
				}
			} else {
				for kw, k := range sortedKeywords() {
					_ = kw
					if c.Branch(c.StrEq(word, gosym.Conc(k[0]))) {
						kind = k[1]
						break
					}
				}
			}
			emit(kind, word, row, col, ok)
			l.advance(j)
		default:
			matched := false
			for _, op := range refOps {
				all := true
				for k := 0; k < len(op.s); k++ {
					if !l.is(i+k, op.s[k]) {
						all = false
						break
					}
				}
				if all {
					emit(op.k, gosym.Conc(op.s), row, col, ok)
					l.advance(i + len(op.s))
					matched = true
					break
				}
			}
			if !matched {
				return toks, true, ""
			}
		}
	}
	emit("EOF", gosym.Str{}, l.row, l.col, l.posOK)
	return toks, false, ""
}

// operandEnd: the last token ends an operand, so a following '-' is the subtraction operator.
func operandEnd(toks []RTok) bool {
	if len(toks) == 0 {
		return false
	}
	switch toks[len(toks)-1].Kind {
	case "IDENTIFIER", "NUMBER_LITERAL", "STRING_LITERAL", "BOOL_LITERAL", "NIL_LITERAL", "CLOSING_ROUND_BRACKET", "CLOSING_SQUARE_BRACKET":
		return true
	}
	return false
}

var kwList [][2]string

func sortedKeywords() [][2]string {
	if kwList == nil {
		var ks []string
		for k := range refKeywords {
			ks = append(ks, k)
		}
		// deterministic order
		for i := 0; i < len(ks); i++ {
			for j := i + 1; j < len(ks); j++ {
				if ks[j] < ks[i] {
					ks[i], ks[j] = ks[j], ks[i]
				}
			}
		}
		for _, k := range ks {
			kwList = append(kwList, [2]string{k, refKeywords[k]})
		}
	}
	return kwList
}

// escape decodes the escape whose first character (after the backslash) is at unit k.
// Returns the value, the number of units consumed after the backslash, bad=true for an
// escape Go rejects, and unspec for forms outside the modelled subset.
func (l *lexer) escape(k int) (val gosym.Str, n int, bad bool, unspec string) {
	simple := []struct {
		ch  byte
		out string
	}{{'a', "\a"}, {'b', "\b"}, {'f', "\f"}, {'n', "\n"}, {'r', "\r"}, {'t', "\t"}, {'v', "\v"}, {'\\', "\\"}, {'"', "\""}}
	for _, e := range simple {
		if l.is(k, e.ch) {
			return gosym.Conc(e.out), 1, false, ""
		}
	}
	hexVal := func(j int) (int, bool) {
		if j >= len(l.u) {
			return 0, false
		}
		g := l.u[j]
		if g.B != nil {
			// symbolic hex digits: outside the modelled subset
			return 0, false
		}
		ch := g.S[0]
		switch {
		case ch >= '0' && ch <= '9':
			return int(ch - '0'), true
		case ch >= 'a' && ch <= 'f':
			return int(ch-'a') + 10, true
		case ch >= 'A' && ch <= 'F':
			return int(ch-'A') + 10, true
		}
		return 0, false
	}
	if l.is(k, 'x') {
		if k+2 >= len(l.u) {
			return gosym.Str{}, 0, true, ""
		}
		B := l.c.B
		var nib [2]*sym.Term
		for d := 0; d < 2; d++ {
			switch {
			case l.inRanges(k+1+d, '0', '9'):
				nib[d] = B.Bin(sym.OpSub, l.byteTerm(k+1+d), B.BV('0', 8))
			case l.inRanges(k+1+d, 'a', 'f'):
				nib[d] = B.Bin(sym.OpSub, l.byteTerm(k+1+d), B.BV('a'-10, 8))
			case l.inRanges(k+1+d, 'A', 'F'):
				nib[d] = B.Bin(sym.OpSub, l.byteTerm(k+1+d), B.BV('A'-10, 8))
			default:
				return gosym.Str{}, 0, true, ""
			}
		}
		v := B.Bin(sym.OpAdd, B.Bin(sym.OpMul, nib[0], B.BV(16, 8)), nib[1])
		return gosym.ByteStr(v), 3, false, ""
	}
	if l.is(k, 'u') || l.is(k, 'U') {
		nd := 4
		if l.is(k, 'U') {
			nd = 8
		}
		v := 0
		for d := 1; d <= nd; d++ {
			h, ok := hexVal(k + d)
			if !ok {
				if k+d < len(l.u) && l.u[k+d].B != nil {
					return gosym.Str{}, 0, false, "symbolic unicode escape"
				}
				return gosym.Str{}, 0, true, ""
			}
			v = v*16 + h
		}
		if v > 0x10FFFF || (v >= 0xD800 && v < 0xE000) {
			return gosym.Str{}, 0, true, ""
		}
		return gosym.Conc(string(rune(v))), 1 + nd, false, ""
	}
	if l.inRanges(k, '0', '7') {
		v := 0
		for d := 0; d < 3; d++ {
			if k+d >= len(l.u) {
				return gosym.Str{}, 0, true, ""
			}
			g := l.u[k+d]
			if g.B != nil {
				return gosym.Str{}, 0, false, "symbolic octal escape"
			}
			if g.S[0] < '0' || g.S[0] > '7' {
				return gosym.Str{}, 0, true, ""
			}
			v = v*8 + int(g.S[0]-'0')
		}
		if v > 255 {
			return gosym.Str{}, 0, true, ""
		}
		return gosym.Conc(string([]byte{byte(v)})), 3, false, ""
	}
	// \' and everything else is invalid in an interpreted string
	return gosym.Str{}, 0, true, ""
}
