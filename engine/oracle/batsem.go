package oracle

import (
	"fmt"
	"strings"

	"verif/engine/gosym"
)

// ---------------------------------------------------------------------------
// BatSem, part 1: line handling, percent expansion (phase 1) and the parser
// (phase 2) for the Windows Batch subset that converters/batch emits. The
// script is a rope; symbolic bytes and decimal atoms are ordinary data
// characters. The numbering of the phases follows the well known description
// of the cmd.exe parser ("How does the Windows Command Interpreter (CMD.EXE)
// parse scripts?"): 1 percent expansion, 2 special characters / command
// structure, 4 FOR variable expansion, 5 delayed expansion, 6 CALL, 7 execute.
// Everything outside the modelled subset panics with BatUnsupported.
// ---------------------------------------------------------------------------

// BatUnsupported is the panic value for constructs outside the modelled subset.
type BatUnsupported struct{ Msg string }

func batUnsup(format string, a ...interface{}) {
	panic(BatUnsupported{fmt.Sprintf(format, a...)})
}

type batKind int

const (
	bkNop    batKind = iota // label, rem, empty command
	bkSimple                // name + argument text
	bkBlock                 // ( ... )
	bkSeq                   // a & b
	bkIf
	bkFor
)

type batCmd struct {
	kind batKind
	name string // simple: lower-case command word
	args []Unit // simple: text after the command word (after phase 2)
	subs []*batCmd
	// if
	ci, not     bool
	op          string // "defined", "exist", "==", "equ", "neq", "lss", "leq", "gtr", "geq"
	left, right []Unit
	then, els   *batCmd
	// for /f
	forVar  byte
	forOpts []Unit
	forIn   []Unit
	body    *batCmd
}

var batNop = &batCmd{kind: bkNop}

// ---------------------------------------------------------------- lines and labels

// batSplitLines cuts the script at "\r\n" (a lone "\n" is accepted as well).
func batSplitLines(script Str) [][]Unit {
	var lines [][]Unit
	var cur []Unit
	for _, u := range script.Units() {
		if isConcByte(u, '\n') {
			if n := len(cur); n > 0 && isConcByte(cur[n-1], '\r') {
				cur = cur[:n-1]
			}
			lines = append(lines, cur)
			cur = nil
			continue
		}
		cur = append(cur, u)
	}
	if len(cur) > 0 {
		lines = append(lines, cur)
	}
	return lines
}

func batIsBlank(u Unit) bool { return isConcByte(u, ' ') || isConcByte(u, '\t') }

// batIsDelim: the token delimiters of cmd.exe (help call / help for: blank, comma, semicolon, equal sign).
func batIsDelim(u Unit) bool {
	return batIsBlank(u) || isConcByte(u, ',') || isConcByte(u, ';') || isConcByte(u, '=')
}

func batTrimLeft(u []Unit) []Unit {
	for len(u) > 0 && batIsBlank(u[0]) {
		u = u[1:]
	}
	return u
}

func batTrimRight(u []Unit) []Unit {
	for len(u) > 0 && batIsBlank(u[len(u)-1]) {
		u = u[:len(u)-1]
	}
	return u
}

// batLabelOf returns the upper-cased label defined by a line (":name ..."), "" for other
// lines; isLabel is also true for "::" comment lines.
func batLabelOf(line []Unit) (name string, isLabel bool) {
	l := batTrimLeft(line)
	if len(l) == 0 || !isConcByte(l[0], ':') {
		return "", false
	}
	var sb strings.Builder
	for _, u := range l[1:] {
		b, ok := concChar(u)
		if !ok {
			batUnsup("label name contains data")
		}
		if b == ' ' || b == '\t' || b == ':' || b == '+' || b == ',' || b == ';' || b == '=' || b == '&' || b == '|' || b == '<' || b == '>' {
			break
		}
		sb.WriteByte(b)
	}
	return strings.ToUpper(sb.String()), true
}

// ---------------------------------------------------------------- phase 1

// percentExpand performs the percent expansion of one line in batch mode: %% -> %,
// %1..%9, %~1..%~9, %name%; an undefined %name% and an unpaired % vanish.
func (sh *BatShell) percentExpand(u []Unit) []Unit {
	has := false
	for _, x := range u {
		if isConcByte(x, '%') {
			has = true
			break
		}
	}
	if !has {
		return u
	}
	out := make([]Unit, 0, len(u))
	i := 0
	for i < len(u) {
		if !isConcByte(u[i], '%') {
			out = append(out, u[i])
			i++
			continue
		}
		if i+1 < len(u) {
			if b, ok := concChar(u[i+1]); ok {
				switch {
				case b == '%':
					out = append(out, u[i])
					i += 2
					continue
				case b == '*':
					batUnsup("%%* expansion")
				case b >= '0' && b <= '9':
					if b == '0' {
						batUnsup("%%0 expansion")
					}
					out = append(out, sh.arg(int(b-'0')).Units()...)
					i += 2
					continue
				case b == '~':
					j := i + 2
					for j < len(u) {
						m, ok := concChar(u[j])
						if !ok || !strings.ContainsRune("fdpnxsatzFDPNXSATZ", rune(m)) {
							break
						}
						j++
					}
					if j < len(u) {
						if d, ok := concChar(u[j]); ok && d >= '0' && d <= '9' {
							if j != i+2 {
								batUnsup("%%~ modifiers other than quote removal")
							}
							if d == '0' {
								batUnsup("%%~0 expansion")
							}
							out = append(out, batStripQuotes(sh.arg(int(d-'0')).Units())...)
							i = j + 1
							continue
						}
					}
				}
			}
		}
		j := i + 1
		for j < len(u) && !isConcByte(u[j], '%') {
			j++
		}
		if j >= len(u) {
			// unpaired percent sign: removed in batch mode
			sh.event("percent-unpaired")
			i++
			continue
		}
		var sb strings.Builder
		for _, x := range u[i+1 : j] {
			b, ok := concChar(x)
			if !ok {
				batUnsup("%%name%% expansion with a data dependent name")
			}
			if b == ':' {
				batUnsup("%%name:modifier%% expansion")
			}
			sb.WriteByte(b)
		}
		name := sb.String()
		if v, ok := sh.vars[strings.ToUpper(name)]; ok {
			for _, x := range v.Units() {
				if isConcByte(x, '\n') {
					batUnsup("%%%s%% expands to text with a line feed", name)
				}
				out = append(out, x)
			}
		} else {
			if batDynamicVar(name) {
				batUnsup("dynamic variable %%%s%%", name)
			}
			sh.event("percent-undefined:" + name)
		}
		i = j + 1
	}
	return out
}

func batDynamicVar(name string) bool {
	switch strings.ToUpper(name) {
	case "ERRORLEVEL", "CD", "DATE", "TIME", "RANDOM", "CMDCMDLINE", "CMDEXTVERSION", "HIGHESTNUMANODENUMBER":
		return true
	}
	return false
}

func batStripQuotes(u []Unit) []Unit {
	if len(u) > 0 && isConcByte(u[0], '"') {
		u = u[1:]
		if n := len(u); n > 0 && isConcByte(u[n-1], '"') {
			u = u[:n-1]
		}
	}
	return u
}

// ---------------------------------------------------------------- phase 2

type batParser struct {
	sh    *BatShell
	next  int // index of the next line to read
	u     []Unit
	i     int
	depth int
}

func (p *batParser) loadLine() bool {
	if p.next >= len(p.sh.lines) {
		return false
	}
	p.u = p.sh.percentExpand(p.sh.lines[p.next])
	p.i = 0
	p.next++
	return true
}

func (p *batParser) eol() bool { return p.i >= len(p.u) }

func (p *batParser) is(b byte) bool { return p.i < len(p.u) && isConcByte(p.u[p.i], b) }

func (p *batParser) isAt(k int, b byte) bool {
	return p.i+k < len(p.u) && isConcByte(p.u[p.i+k], b)
}

func (p *batParser) skipWS() {
	for p.i < len(p.u) && batIsBlank(p.u[p.i]) {
		p.i++
	}
}

func (p *batParser) rest() string {
	return units(p.u[min(p.i, len(p.u)):]).String()
}

func batWordChar(b byte) bool {
	return b == '_' || (b >= 'a' && b <= 'z') || (b >= 'A' && b <= 'Z') || (b >= '0' && b <= '9')
}

// peekWord returns the lower-cased run of word characters at the cursor (not consumed).
func (p *batParser) peekWord() string {
	var sb strings.Builder
	for j := p.i; j < len(p.u); j++ {
		b, ok := concChar(p.u[j])
		if !ok || !batWordChar(b) {
			break
		}
		sb.WriteByte(b)
	}
	return strings.ToLower(sb.String())
}

// eatKeyword consumes word w (case-insensitive) when it is followed by a blank, "(" or the end of the line.
func (p *batParser) eatKeyword(w string) bool {
	if p.peekWord() != w {
		return false
	}
	j := p.i + len(w)
	if j < len(p.u) && !batIsBlank(p.u[j]) && !isConcByte(p.u[j], '(') {
		return false
	}
	p.i = j
	return true
}

// parseAt parses the command that starts at line index `line`; next is the index of the
// first line after it.
func (sh *BatShell) parseAt(line int) (cmd *batCmd, next int) {
	if _, isLabel := batLabelOf(sh.lines[line]); isLabel {
		return batNop, line + 1
	}
	p := &batParser{sh: sh, next: line}
	p.loadLine()
	c := p.parseSeq()
	p.skipWS()
	if !p.eol() {
		if p.is(')') {
			batUnsup("line %d: closing parenthesis outside a block", line+1)
		}
		batUnsup("line %d: unexpected text %q", line+1, p.rest())
	}
	return c, p.next
}

// parseSeq parses `cmd [& cmd]...` up to the end of the line (or the parenthesis that closes the block).
func (p *batParser) parseSeq() *batCmd {
	var list []*batCmd
	for {
		if c := p.parseOne(); c != nil && c.kind != bkNop {
			list = append(list, c)
		}
		p.skipWS()
		if p.is('&') {
			if p.isAt(1, '&') {
				batUnsup("&& operator")
			}
			p.i++
			continue
		}
		if p.is('|') {
			batUnsup("pipe or || operator")
		}
		break
	}
	switch len(list) {
	case 0:
		return batNop
	case 1:
		return list[0]
	}
	return &batCmd{kind: bkSeq, subs: list}
}

func (p *batParser) parseOne() *batCmd {
	p.skipWS()
	for p.is('@') {
		p.i++
		p.skipWS()
	}
	if p.eol() {
		return nil
	}
	b, ok := concChar(p.u[p.i])
	if !ok {
		batUnsup("command word is data")
	}
	switch b {
	case ')':
		if p.depth > 0 {
			return nil
		}
		batUnsup("closing parenthesis outside a block")
	case '(':
		return p.parseBlock()
	case ':':
		batUnsup("label that is not at the start of a line")
	case '&', '|':
		return nil
	}
	name := p.peekWord()
	if name == "" {
		batUnsup("command starting with %q", p.rest())
	}
	p.i += len(name)
	switch name {
	case "if":
		return p.parseIf()
	case "for":
		return p.parseFor()
	case "rem":
		if !p.eol() && !batIsBlank(p.u[p.i]) {
			batUnsup("rem followed by %q", p.rest())
		}
		p.i = len(p.u) // the rest of the line is a remark
		return batNop
	case "else":
		batUnsup("else without if")
	}
	return &batCmd{kind: bkSimple, name: name, args: p.parseArgs()}
}

// parseArgs collects the argument text of a simple command: quotes switch the special
// characters off, a caret escapes the next character (at the end of a line: the line
// break is dropped, the next line is appended and its first character - possibly the
// line feed of an empty line - is escaped), & | ) end the command.
func (p *batParser) parseArgs() []Unit {
	var out []Unit
	inQ := false
	for !p.eol() {
		u := p.u[p.i]
		b, ok := concChar(u)
		if !ok {
			out = append(out, u)
			p.i++
			continue
		}
		if inQ {
			if b == '"' {
				inQ = false
			}
			out = append(out, u)
			p.i++
			continue
		}
		switch b {
		case '"':
			inQ = true
		case '^':
			p.i++
			if !p.eol() {
				out = append(out, p.u[p.i])
				p.i++
				continue
			}
			if !p.loadLine() {
				return out
			}
			if p.eol() {
				// empty line: the escaped character is its line feed, parsing goes on with the following line
				out = append(out, Unit{S: "\n"})
				if !p.loadLine() {
					return out
				}
				continue
			}
			out = append(out, p.u[p.i])
			p.i++
			continue
		case '&', '|':
			return out
		case '<', '>':
			batUnsup("redirection in %q", units(p.u).String())
		case ')':
			if p.depth > 0 {
				return out
			}
		}
		out = append(out, u)
		p.i++
	}
	return out
}

func (p *batParser) parseBlock() *batCmd {
	p.i++ // (
	p.depth++
	blk := &batCmd{kind: bkBlock}
	afterLabel := false
	for {
		c := p.parseSeq()
		if c.kind != bkNop {
			blk.subs = append(blk.subs, c)
			afterLabel = false
		}
		p.skipWS()
		if p.is(')') {
			if afterLabel {
				batUnsup("label directly before the end of a block (cmd.exe reports a syntax error)")
			}
			p.i++
			p.depth--
			return blk
		}
		if !p.eol() {
			batUnsup("unexpected text %q in a block", p.rest())
		}
		for {
			if !p.loadLine() {
				batUnsup("block is not closed at the end of the script")
			}
			if _, isLabel := batLabelOf(p.u); isLabel {
				if afterLabel {
					batUnsup("two consecutive labels inside a block (the second one is executed as a command)")
				}
				afterLabel = true
				continue
			}
			break
		}
		if afterLabel {
			if l := batTrimLeft(p.u); len(l) > 0 && isConcByte(l[0], '(') {
				batUnsup("block directly after a label inside a block")
			}
		}
	}
}

// readToken reads one IF operand / FOR option token: it ends at an unquoted blank or "=".
func (p *batParser) readToken(what string) []Unit {
	var out []Unit
	inQ := false
	for !p.eol() {
		u := p.u[p.i]
		b, ok := concChar(u)
		if !ok {
			out = append(out, u)
			p.i++
			continue
		}
		if inQ {
			if b == '"' {
				inQ = false
			}
			out = append(out, u)
			p.i++
			continue
		}
		switch b {
		case '"':
			inQ = true
		case '^':
			p.i++
			if p.eol() {
				batUnsup("line continuation inside %s", what)
			}
			out = append(out, p.u[p.i])
			p.i++
			continue
		case ' ', '\t', '=':
			return out
		case ',', ';', '(', ')', '&', '|', '<', '>':
			batUnsup("unquoted %q inside %s", string(b), what)
		}
		out = append(out, u)
		p.i++
	}
	return out
}

func (p *batParser) parseIf() *batCmd {
	c := &batCmd{kind: bkIf}
	if !p.eol() && !batIsBlank(p.u[p.i]) {
		batUnsup("if followed by %q", p.rest())
	}
	p.skipWS()
	if p.is('/') && (p.isAt(1, 'i') || p.isAt(1, 'I')) && p.i+2 < len(p.u) && batIsBlank(p.u[p.i+2]) {
		c.ci = true
		p.i += 2
		p.skipWS()
	}
	if p.peekWord() == "not" && p.i+3 < len(p.u) && batIsBlank(p.u[p.i+3]) {
		c.not = true
		p.i += 3
		p.skipWS()
	}
	w := p.peekWord()
	switch {
	case (w == "defined" || w == "exist") && p.i+len(w) < len(p.u) && batIsBlank(p.u[p.i+len(w)]):
		p.i += len(w)
		p.skipWS()
		c.op = w
		c.left = p.readToken("an if operand")
	case (w == "errorlevel" || w == "cmdextversion") && p.i+len(w) < len(p.u) && batIsBlank(p.u[p.i+len(w)]):
		batUnsup("if %s", w)
	default:
		c.left = p.readToken("an if operand")
		p.skipWS()
		if p.is('=') && p.isAt(1, '=') {
			c.op = "=="
			p.i += 2
		} else {
			op := p.peekWord()
			switch op {
			case "equ", "neq", "lss", "leq", "gtr", "geq":
				c.op = op
				p.i += 3
			default:
				batUnsup("if: comparison operator expected at %q", p.rest())
			}
			if !p.eol() && !batIsBlank(p.u[p.i]) {
				batUnsup("if: text %q after the comparison operator", p.rest())
			}
		}
		p.skipWS()
		c.right = p.readToken("an if operand")
	}
	p.skipWS()
	if p.eol() {
		batUnsup("if without a command")
	}
	c.then = p.parseSeq()
	p.skipWS()
	if p.eatKeyword("else") {
		p.skipWS()
		c.els = p.parseSeq()
	}
	return c
}

func (p *batParser) parseFor() *batCmd {
	c := &batCmd{kind: bkFor}
	p.skipWS()
	if !(p.is('/') && (p.isAt(1, 'f') || p.isAt(1, 'F'))) {
		batUnsup("for without /f")
	}
	p.i += 2
	p.skipWS()
	if p.is('"') {
		c.forOpts = p.readToken("the for options")
		p.skipWS()
	}
	if !p.is('%') || p.i+1 >= len(p.u) {
		batUnsup("for: variable expected at %q", p.rest())
	}
	v, ok := concChar(p.u[p.i+1])
	if !ok || !((v >= 'a' && v <= 'z') || (v >= 'A' && v <= 'Z')) {
		batUnsup("for: variable name")
	}
	c.forVar = v
	p.i += 2
	p.skipWS()
	if !p.eatKeyword("in") {
		batUnsup("for: `in` expected at %q", p.rest())
	}
	p.skipWS()
	if !p.is('(') {
		batUnsup("for: ( expected at %q", p.rest())
	}
	p.i++
	inQ := false
	closed := false
	for !p.eol() && !closed {
		u := p.u[p.i]
		b, ok := concChar(u)
		switch {
		case !ok:
			c.forIn = append(c.forIn, u)
		case inQ:
			if b == '"' {
				inQ = false
			}
			c.forIn = append(c.forIn, u)
		case b == '"':
			inQ = true
			c.forIn = append(c.forIn, u)
		case b == '^':
			p.i++
			if p.eol() {
				batUnsup("line continuation inside a for set")
			}
			c.forIn = append(c.forIn, p.u[p.i])
		case b == ')':
			closed = true
		case b == '&' || b == '|' || b == '<' || b == '>':
			batUnsup("unquoted %q inside a for set", string(b))
		default:
			c.forIn = append(c.forIn, u)
		}
		p.i++
	}
	if !closed {
		batUnsup("for: set is not closed on the same line")
	}
	p.skipWS()
	if !p.eatKeyword("do") {
		batUnsup("for: `do` expected at %q", p.rest())
	}
	p.skipWS()
	c.body = p.parseSeq()
	return c
}

var _ = gosym.Conc
