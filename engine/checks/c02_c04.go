package checks

import (
	"fmt"
	"strings"

	"verif/engine/gosym"
	. "verif/engine/oracle"
)

var TInts = Type{Base: "int", Slice: true}
var TBools = Type{Base: "bool", Slice: true}
var TStrings = Type{Base: "string", Slice: true}

func Idx(s string, i Expr) Expr     { return IndexE{S: V(s), I: i} }
func Ints(es ...Expr) Expr          { return SliceLit{Elem: TInt, Elems: es} }
func Strs(es ...Expr) Expr          { return SliceLit{Elem: TString, Elems: es} }
func Bools(es ...Expr) Expr         { return SliceLit{Elem: TBool, Elems: es} }
func SSet(n string, i, v Expr) Stmt { return SliceSet{Name: n, I: i, Val: v} }
func Len(e Expr) Expr               { return LenE{X: e} }

func c02Shapes() []Shape {
	var sh []Shape
	add := func(name string, p *Program) { sh = append(sh, constShape(name, p)) }
	add("by-value-scalar", Prog(
		Fn("f", []ParamDecl{Pm("a", TInt)}, nil, Set("a", Op("+", V("a"), N(1))), Pr(S("in"), V("a"))),
		Def("x", L(0)), Do(Call("f", V("x"))), Pr(V("x"))))
	add("by-reference-slice", Prog(
		Fn("f", []ParamDecl{Pm("s", TInts)}, nil, SSet("s", N(0), L(1)), SSet("s", N(2), L(2))),
		Def("s", Ints(L(0))), Do(Call("f", V("s"))), Pr(Idx("s", N(0)), Idx("s", N(1)), Idx("s", N(2)), Len(V("s")))))
	add("return-list-of-calls", Prog(
		Fn("inc", []ParamDecl{Pm("a", TInt)}, []Type{TInt}, Ret(Op("+", V("a"), N(1)))),
		Fn("tag", []ParamDecl{Pm("s", TString)}, []Type{TString}, Ret(Op("+", Op("+", S("<"), V("s")), S(">")))),
		Fn("pair", []ParamDecl{Pm("a", TInt), Pm("b", TInt)}, []Type{TInt, TInt}, Ret(Call("inc", V("a")), Call("inc", V("b")))),
		Fn("pairx", []ParamDecl{Pm("a", TInt), Pm("b", TInt)}, []Type{TInt, TInt}, Ret(Call("inc", V("a")), Op("*", Call("inc", V("b")), N(10)))),
		Fn("triple", []ParamDecl{Pm("s", TString)}, []Type{TString, TString, TInt}, Ret(Call("tag", V("s")), Call("tag", Op("+", V("s"), V("s"))), Call("inc", N(0)))),
		Fn("same", []ParamDecl{Pm("a", TInt)}, []Type{TInt, TInt, TInt}, Def("r", Call("inc", V("a"))), Ret(V("r"), Call("inc", V("r")), V("r"))),
		DefN([]string{"x", "y"}, Call("pair", L(0), L(1))), Pr(V("x"), V("y")),
		DefN([]string{"p", "q"}, Call("pairx", L(0), L(1))), Pr(V("p"), V("q")),
		DefN([]string{"t1", "t2", "t3"}, Call("triple", S("a"))), Pr(V("t1"), V("t2"), V("t3")),
		DefN([]string{"s1", "s2", "s3"}, Call("same", L(2))), Pr(V("s1"), V("s2"), V("s3"))))
	add("underscore-as-target", Prog(
		Fn("two", nil, []Type{TInt, TInt}, Ret(L(0), L(1))),
		Fn("three", nil, []Type{TInt, TString, TString}, Ret(L(2), S("b"), S("c"))),
		DefN([]string{"_", "b"}, Call("two")), Pr(V("b")),
		Fn("g", nil, nil, DefN([]string{"_", "s", "t"}, Call("three")), Pr(V("s"), V("t"))),
		Do(Call("g")),
		Def("n", N(0)), SetN([]string{"_", "n"}, Call("two")), Pr(V("n")),
		DefN([]string{"x", "y"}, L(3), L(4)), SetN([]string{"_", "x", "y"}, N(0), V("y"), V("x")), Pr(V("x"), V("y")),
		DefN([]string{"k", "_"}, L(3), L(4)), Pr(V("k"))))
	add("same-names-across-frames", Prog(
		Fn("f", []ParamDecl{Pm("a", TInt)}, []Type{TInt}, Def("b", Op("*", V("a"), N(2))), Ret(V("b"))),
		Fn("g", []ParamDecl{Pm("a", TInt)}, []Type{TInt}, Def("b", Call("f", Op("+", V("a"), N(1)))), Ret(Op("+", V("b"), V("a")))),
		Def("a", L(0)), Def("b", L(1)), Pr(Call("g", V("a")), V("a"), V("b")), Pr(Call("f", V("b")), V("a"), V("b"))))
	add("callee-modifies-param-named-like-caller-local", Prog(
		Fn("inner", []ParamDecl{Pm("x", TInt)}, nil, Set("x", N(99)), Def("y", N(98)), Pr(V("x"), V("y"))),
		Fn("outer", []ParamDecl{Pm("x", TInt)}, nil, Def("y", Op("+", V("x"), N(1))), Do(Call("inner", V("y"))), Pr(V("x"), V("y"))),
		Do(Call("outer", L(0)))))
	add("global-plain-assign", Prog(Def("g", L(0)), Fn("f", nil, nil, Set("g", Op("+", V("g"), N(1)))), Do(Call("f")), Do(Call("f")), Pr(V("g"))))
	add("global-compound-assign", Prog(Def("g", L(0)), Fn("f", nil, nil, OpSet("g", "+", L(1))), Do(Call("f")), Pr(V("g"))))
	add("global-incdec", Prog(Def("g", L(0)), Fn("f", nil, nil, Inc("g"), Inc("g"), Dec("g")), Do(Call("f")), Pr(V("g"))))
	add("global-multi-assign", Prog(Def("g", L(0)), Def("h", L(1)), Fn("f", nil, nil, SetN([]string{"g", "h"}, L(2), L(3))), Do(Call("f")), Pr(V("g"), V("h"))))
	add("global-read-in-function", Prog(Def("g", L(0)), Fn("f", []ParamDecl{Pm("a", TInt)}, []Type{TInt}, Ret(Op("+", V("a"), V("g")))), Pr(Call("f", L(1))), Set("g", L(2)), Pr(Call("f", L(1)))))
	add("later-global-same-name-as-local", Prog(
		Fn("f", nil, []Type{TInt}, Def("v", L(0)), Set("v", Op("+", V("v"), N(1))), Ret(V("v"))),
		Def("v", L(1)), Pr(Call("f"), V("v")), Pr(Call("f"), V("v"))))
	add("multi-return-define", Prog(
		Fn("two", []ParamDecl{Pm("a", TInt), Pm("b", TInt)}, []Type{TInt, TInt}, Ret(Op("+", V("a"), V("b")), Op("-", V("a"), V("b")))),
		DefN([]string{"p", "q"}, Call("two", L(0), L(1))), Pr(V("p"), V("q")),
		SetN([]string{"p", "q"}, Call("two", V("q"), V("p"))), Pr(V("p"), V("q"))))
	add("three-returns-mixed-types", Prog(
		Fn("tri", []ParamDecl{Pm("a", TInt)}, []Type{TInt, TBool, TString}, Ret(Op("*", V("a"), N(2)), Op("<", V("a"), L(1)), Op("+", S("v"), ItoaE{X: V("a")}))),
		DefN([]string{"x", "y", "z"}, Call("tri", L(0))), Pr(V("x"), V("y"), V("z"))))
	add("nested-calls", Prog(
		Fn("f", []ParamDecl{Pm("a", TInt)}, []Type{TInt}, Ret(Op("+", V("a"), N(1)))),
		Fn("g", []ParamDecl{Pm("a", TInt), Pm("b", TInt)}, []Type{TInt}, Ret(Op("-", V("a"), V("b")))),
		Pr(Call("g", Call("f", L(0)), Call("f", Call("f", L(1))))), Pr(Call("f", Call("g", L(0), L(1))))))
	add("calls-as-args-of-multi-return", Prog(
		Fn("one", []ParamDecl{Pm("a", TInt)}, []Type{TInt}, Ret(Op("*", V("a"), N(3)))),
		Fn("two", []ParamDecl{Pm("a", TInt), Pm("b", TInt)}, []Type{TInt, TInt}, Ret(V("b"), V("a"))),
		DefN([]string{"p", "q"}, Call("two", Call("one", L(0)), Call("one", L(1)))), Pr(V("p"), V("q"))))
	add("call-results-in-expression", Prog(
		Fn("f", []ParamDecl{Pm("a", TInt)}, []Type{TInt}, Ret(Op("+", V("a"), N(1)))),
		Pr(Op("+", Call("f", L(0)), Op("*", Call("f", L(1)), Call("f", L(2))))), Def("r", Op("-", Call("f", L(0)), Call("f", L(1)))), Pr(V("r"))))
	add("swap-simultaneous", Prog(Def("a", L(0)), Def("b", L(1)), SetN([]string{"a", "b"}, V("b"), V("a")), Pr(V("a"), V("b"))))
	add("multi-assign-exprs", Prog(Def("a", L(0)), Def("b", L(1)), SetN([]string{"a", "b"}, Op("+", V("a"), V("b")), Op("-", V("a"), V("b"))), Pr(V("a"), V("b"))))
	add("swap-grouped", Prog(Def("a", L(0)), Def("b", L(1)), SetN([]string{"a", "b"}, Paren{X: V("b")}, Paren{X: V("a")}), Pr(V("a"), V("b"))))
	add("multi-assign-reads-overwritten-target", Prog(Def("n", L(0)), Def("s", S("z")), SetN([]string{"n", "s"}, Op("+", V("n"), N(1)), ItoaE{X: V("n")}), Pr(V("n"), V("s")),
		SetN([]string{"n", "s"}, Op("*", V("n"), N(2)), Op("+", ItoaE{X: V("n")}, V("s"))), Pr(V("n"), V("s"))))
	add("rotate-three-mixed-forms", Prog(Def("a", L(0)), Def("b", L(1)), Def("c", L(2)),
		SetN([]string{"a", "b", "c"}, V("c"), Paren{X: V("a")}, Op("+", V("b"), V("a"))), Pr(V("a"), V("b"), V("c")),
		SetN([]string{"c", "b", "a"}, Op("-", N(0), V("a")), Op("*", V("c"), N(2)), Paren{X: Op("+", V("b"), V("c"))}), Pr(V("a"), V("b"), V("c"))))
	add("multi-assign-index-and-element", Prog(Def("q", Ints(L(0), L(1), L(2))), Def("i", N(0)), Def("v", N(0)),
		SetN([]string{"i", "v"}, Op("+", V("i"), N(1)), Idx("q", V("i"))), Pr(V("i"), V("v")),
		SetN([]string{"v", "i"}, Idx("q", V("i")), Op("+", V("i"), V("v"))), Pr(V("i"), V("v"))))
	add("multi-assign-strings", Prog(Def("s", S("ab")), Def("t", S("cd")), Def("k", N(0)),
		SetN([]string{"s", "t"}, Op("+", V("t"), V("s")), V("s")), Pr(V("s"), V("t")),
		SetN([]string{"s", "k"}, Substr{S: V("s"), Lo: N(1)}, Len(V("s"))), Pr(V("s"), V("k"))))
	add("multi-assign-in-function-locals", Prog(
		Fn("fib", []ParamDecl{Pm("n", TInt)}, []Type{TInt}, Def("lo", N(0)), Def("hi", N(1)),
			For3(Def("i", N(0)), Op("<", V("i"), V("n")), Inc("i"), SetN([]string{"lo", "hi"}, Paren{X: V("hi")}, Op("+", V("lo"), V("hi")))), Ret(V("lo"))),
		Pr(Call("fib", N(6)), Call("fib", L(0)))))
	add("statement-call-with-call-arguments", Prog(
		Fn("inc", []ParamDecl{Pm("a", TInt)}, []Type{TInt}, Ret(Op("+", V("a"), N(1)))),
		Fn("name", []ParamDecl{Pm("a", TInt)}, []Type{TString}, Ret(Op("+", S("n"), ItoaE{X: V("a")}))),
		Fn("show", []ParamDecl{Pm("a", TInt), Pm("s", TString)}, nil, Pr(S("<"), V("a"), V("s"), S(">"))),
		Do(Call("show", Call("inc", L(0)), Call("name", L(1)))),
		Do(Call("show", Call("inc", Call("inc", L(0))), Op("+", Call("name", L(1)), S("!")))),
		Fn("wrap", []ParamDecl{Pm("a", TInt)}, nil, Do(Call("show", Call("inc", V("a")), Call("name", Call("inc", V("a")))))),
		Do(Call("wrap", L(2)))))
	add("empty-string-arguments", Prog(
		Fn("show", []ParamDecl{Pm("a", TString), Pm("b", TString), Pm("c", TInt)}, nil, Pr(S("<"), V("a"), S("|"), V("b"), S("|"), V("c"), S(">"))),
		Fn("join", []ParamDecl{Pm("a", TString), Pm("b", TString)}, []Type{TString}, Ret(Op("+", Op("+", V("a"), S("-")), V("b")))),
		Do(Call("show", S(""), S("y"), L(0))), Do(Call("show", S("x"), S(""), L(1))), Do(Call("show", S(""), S(""), N(3))),
		Pr(Call("join", S(""), S("r")), Call("join", S("l"), S(""))), Def("e", S("")), Do(Call("show", V("e"), Call("join", V("e"), V("e")), N(4)))))
	add("multi-return-assign-mixed-global-local", Prog(
		Def("total", L(0)), Def("last", S("none")),
		Fn("pair", []ParamDecl{Pm("a", TInt)}, []Type{TInt, TInt}, Ret(Op("+", V("a"), N(1)), Op("*", V("a"), N(2)))),
		Fn("named", []ParamDecl{Pm("a", TInt)}, []Type{TString, TInt}, Ret(Op("+", S("n"), ItoaE{X: V("a")}), V("a"))),
		Fn("localFirst", []ParamDecl{Pm("p", TInt)}, []Type{TInt}, Def("x", N(0)), SetN([]string{"x", "total"}, Call("pair", V("p"))), Ret(V("x"))),
		Fn("globalFirst", []ParamDecl{Pm("p", TInt)}, []Type{TInt}, Def("x", N(7)), SetN([]string{"last", "x"}, Call("named", V("p"))), SetN([]string{"total", "p"}, Call("pair", V("x"))), Ret(Op("+", V("x"), V("p")))),
		Pr(Call("localFirst", L(1)), V("total"), V("last")), Pr(Call("globalFirst", N(5)), V("total"), V("last")),
		Def("x", N(100)), Def("p", N(200)), Pr(Call("globalFirst", N(6)), V("x"), V("p"), V("total"), V("last"))))
	add("short-definition-reads-redefined-variable", Prog(Def("a", L(0)), Def("b", L(1)), DefN([]string{"b", "c"}, V("a"), V("b")), Pr(V("b"), V("c")),
		DefN([]string{"d", "a"}, Op("+", V("a"), V("c")), Op("*", V("a"), N(2))), Pr(V("a"), V("d")),
		Fn("f", []ParamDecl{Pm("p", TInt), Pm("q", TInt)}, []Type{TInt}, DefN([]string{"q", "r"}, V("p"), V("q")), Ret(Op("-", Op("*", V("q"), N(10)), V("r")))), Pr(Call("f", L(2), N(3)))))
	add("eleven-parameters", Prog(
		Fn("wide", []ParamDecl{Pm("a", TInt), Pm("b", TInt), Pm("c", TInt), Pm("d", TInt), Pm("e", TInt), Pm("f", TInt), Pm("g", TInt), Pm("h", TInt), Pm("i", TInt), Pm("j", TString), Pm("k", TInt)}, []Type{TInt},
			Pr(V("a"), V("i"), V("j"), V("k")), Ret(Op("+", Op("+", V("a"), V("i")), V("k")))),
		Pr(Call("wide", L(0), N(2), N(3), N(4), N(5), N(6), N(7), N(8), L(1), S("ten"), L(2)))))
	add("short-definition-in-function-with-global-of-same-name", Prog(Def("total", L(0)), Def("count", N(5)),
		Fn("pair", nil, []Type{TInt, TInt}, Ret(N(1), N(2))),
		Fn("f", nil, []Type{TInt}, DefN([]string{"total", "extra"}, Call("pair")), Set("total", Op("+", V("total"), N(10))), Ret(Op("+", V("total"), V("extra")))),
		Fn("g", nil, []Type{TInt}, DefN([]string{"count", "step"}, N(3), N(4)), IfS(T(), DefN([]string{"total", "inner"}, V("count"), V("step")), Set("total", N(77)), Pr(V("total"), V("inner"))), Ret(Op("+", V("count"), V("step")))),
		Pr(Call("f"), Call("g"), V("total"), V("count")), Pr(Call("f"), V("total"), V("count"))))
	add("early-return", Prog(
		Fn("f", []ParamDecl{Pm("a", TInt)}, []Type{TString}, IfS(Op("<", V("a"), L(1)), Ret(S("small"))), For3(Def("i", N(0)), Op("<", V("i"), N(3)), Inc("i"), IfS(Op("==", V("i"), V("a")), Ret(S("loop")))), Ret(S("big"))),
		Pr(Call("f", L(0)))))
	add("void-with-effects-and-locals", Prog(
		Fn("show", []ParamDecl{Pm("s", TString), Pm("n", TInt)}, nil, Def("t", Op("+", V("s"), S("!"))), For3(Def("i", N(0)), Op("<", V("i"), V("n")), Inc("i"), Pr(V("t"), V("i")))),
		Def("t", S("keep")), Def("i", L(0)), Do(Call("show", S("hi"), N(2))), Pr(V("t"), V("i"))))
	add("bool-and-string-params", Prog(
		Fn("pick", []ParamDecl{Pm("c", TBool), Pm("a", TString), Pm("b", TString)}, []Type{TString}, IfS(V("c"), Ret(V("a"))), Ret(V("b"))),
		Pr(Call("pick", Op("<", L(0), L(1)), S("yes"), S("no")))))
	add("slice-returned-aliases", Prog(
		Fn("mk", []ParamDecl{Pm("a", TInt)}, []Type{TInts}, Def("s", Ints(V("a"), N(7))), Ret(V("s"))),
		Fn("id", []ParamDecl{Pm("s", TInts)}, []Type{TInts}, Ret(V("s"))),
		Def("x", Call("mk", L(0))), Def("y", Call("id", V("x"))), SSet("y", N(1), L(1)), Pr(Idx("x", N(0)), Idx("x", N(1)), Idx("y", N(1)))))
	add("two-slices-two-functions", Prog(
		Fn("mk", nil, []Type{TInts}, Ret(Ints())),
		Def("a", Call("mk")), Def("b", Call("mk")), SSet("a", N(0), L(0)), SSet("b", N(0), L(1)), Pr(Idx("a", N(0)), Idx("b", N(0)), Len(V("a")), Len(V("b")))))
	add("function-in-loop-and-condition", Prog(
		Fn("f", []ParamDecl{Pm("a", TInt)}, []Type{TInt}, Ret(Op("*", V("a"), V("a")))),
		For3(Def("i", N(0)), Op("<", Call("f", V("i")), N(5)), Inc("i"), IfS(Op(">", Call("f", V("i")), L(0)), Pr(S("gt"), V("i")))), Pr(S("end"))))
	return sh
}

func c04Shapes() []Shape {
	tracers := []Stmt{
		Fn("ti", []ParamDecl{Pm("k", TInt), Pm("v", TInt)}, []Type{TInt}, Pr(S("t"), V("k")), Ret(V("v"))),
		Fn("tb", []ParamDecl{Pm("k", TInt), Pm("v", TBool)}, []Type{TBool}, Pr(S("t"), V("k")), Ret(V("v"))),
		Fn("ts", []ParamDecl{Pm("k", TInt), Pm("v", TString)}, []Type{TString}, Pr(S("t"), V("k")), Ret(V("v"))),
		Fn("sum3", []ParamDecl{Pm("a", TInt), Pm("b", TInt), Pm("c", TInt)}, []Type{TInt}, Ret(Op("+", Op("+", V("a"), V("b")), V("c")))),
		Fn("pair", []ParamDecl{Pm("a", TInt), Pm("b", TInt)}, []Type{TInt, TInt}, Ret(Call("ti", N(8), V("a")), Call("ti", N(9), V("b")))),
	}
	ti := func(k int64, v Expr) Expr { return Call("ti", N(k), v) }
	tb := func(k int64, v Expr) Expr { return Call("tb", N(k), v) }
	ts := func(k int64, v Expr) Expr { return Call("ts", N(k), v) }
	var sh []Shape
	add := func(name string, body ...Stmt) {
		sh = append(sh, constShape(name, Prog(append(append([]Stmt{}, tracers...), body...)...)))
	}
	add("arith-operands", Pr(Op("+", ti(1, L(0)), Op("*", ti(2, L(1)), ti(3, L(2))))), Def("x", Op("-", Op("-", ti(4, L(0)), ti(5, L(1))), ti(6, L(2)))), Pr(V("x")))
	sh = append(sh, Shape{Name: "comparison-operands(op)", Prog: func(c *gosym.Ctx) *Program {
		o := cmpOps[c.Choose("cmp", 0, 5)]
		body := []Stmt{Pr(Op(o, ti(1, L(0)), ti(2, L(1)))), IfS(Op(o, ti(3, L(2)), ti(4, L(3))), Pr(S("yes"))), Pr(Op([]string{"==", "!="}[c.Choose("eq", 0, 1)], ts(5, S("a")), ts(6, S("b"))))}
		return Prog(append(append([]Stmt{}, tracers...), body...)...)
	}})
	sh = append(sh, Shape{Name: "arith-operands(op)", Prog: func(c *gosym.Ctx) *Program {
		o := arithOps[c.Choose("op", 0, 4)]
		body := []Stmt{Pr(Op(o, ti(1, L(0)), ti(2, L(1)))), Def("y", N(3)), OpSet("y", o, ti(3, L(2))), Pr(V("y")), Pr(Op("+", ts(4, S("a")), ts(5, S("b"))))}
		return Prog(append(append([]Stmt{}, tracers...), body...)...)
	}})
	sh = append(sh, Shape{Name: "logical-operands(op)", Prog: func(c *gosym.Ctx) *Program {
		o := []string{"&&", "||"}[c.Choose("op", 0, 1)]
		body := []Stmt{Pr(Op(o, tb(1, Op("<", L(0), L(1))), tb(2, Op("<", L(2), L(3))))), Pr(Op(o, Op(o, tb(3, T()), tb(4, F())), tb(5, T()))), Pr(NOT(tb(6, F())))}
		return Prog(append(append([]Stmt{}, tracers...), body...)...)
	}})
	add("logical-eager-and", IfElse(Op("&&", tb(1, Op("<", L(0), L(1))), tb(2, Op("<", L(2), L(3)))), Blk{Pr(S("T"))}, Blk{Pr(S("F"))}))
	add("logical-eager-or-not", Pr(Op("||", tb(1, Op("<", L(0), L(1))), NOT(tb(2, Op("<", L(2), L(3)))))))
	add("if-chain-conditions-before-bodies",
		IfChain([]Expr{tb(1, Op("<", L(0), L(1))), tb(2, Op("<", L(0), L(2))), tb(3, Op("<", L(0), L(3)))},
			[]Blk{{Pr(S("b1")), Do(ti(11, N(0)))}, {Pr(S("b2"))}, {Pr(S("b3"))}}, Blk{Pr(S("b4"))}))
	add("switch-cases-before-bodies", Def("x", L(0)),
		Switch{Tag: V("x"), Cases: []Case{{Val: ti(1, L(1)), Body: []Stmt{Pr(S("c1"))}}, {Val: ti(2, L(2)), Body: []Stmt{Pr(S("c2"))}}}, HasDef: true, DefPos: 2, Default: []Stmt{Pr(S("d"))}})
	add("for-condition-per-iteration", For3(Def("i", ti(1, N(0))), tb(2, Op("<", V("i"), N(2))), Set("i", Op("+", V("i"), ti(3, N(1)))), Pr(S("body"), V("i"))), Pr(S("end")))
	add("for-cond-only", Def("i", N(0)), ForC(tb(1, Op("<", V("i"), N(2))), Inc("i"), Pr(S("b"))))
	add("call-arguments", Pr(Call("sum3", ti(1, L(0)), ti(2, L(1)), ti(3, L(2)))), Do(Call("sum3", ti(4, N(1)), Call("sum3", ti(5, N(1)), ti(6, N(1)), ti(7, N(1))), ti(8, N(1)))))
	add("print-arguments", Pr(ti(1, L(0)), ts(2, S("m")), tb(3, T()), ti(4, L(1))))
	add("return-list", DefN([]string{"a", "b"}, Call("pair", L(0), L(1))), Pr(V("a"), V("b")))
	add("slice-literal-and-index", Def("s", Ints(ti(1, L(0)), ti(2, L(1)), ti(3, L(2)))), Pr(Idx("s", ti(4, N(1)))), SSet("s", ti(5, N(0)), ti(6, L(3))), Pr(Idx("s", N(0))))
	add("string-subscripts", Def("s", S("hello")), Pr(Substr{S: V("s"), Lo: ti(1, N(1)), Hi: ti(2, N(3))}), Pr(StrIdx{S: V("s"), I: ti(3, N(2))}), Pr(Substr{S: V("s"), Lo: ti(4, N(2))}), Pr(Substr{S: V("s"), Hi: ti(5, N(2))}))
	add("define-and-assign-lists", DefN([]string{"a", "b"}, ti(1, L(0)), ti(2, L(1))), SetN([]string{"b", "a"}, ti(3, L(2)), ti(4, L(3))), Pr(V("a"), V("b")), Def("c", N(0)), OpSet("c", "+", ti(5, L(0))), Pr(V("c")))
	add("len-itoa-concat", Pr(Op("+", ts(1, S("a")), ItoaE{X: ti(2, L(0))})), Pr(Len(ts(3, S("abc")))), Pr(Len(Ints(ti(4, N(1))))))
	add("nested-control-flow", For3(Def("i", N(0)), Op("<", V("i"), N(2)), Inc("i"),
		IfElse(tb(1, Op("==", V("i"), L(0))), Blk{Pr(ti(2, V("i")))}, Blk{IfS(tb(3, T()), Pr(ti(4, V("i"))))})))
	add("expression-statement-operands", Do(Op("+", ti(1, L(0)), ti(2, L(1)))), Do(Op("==", ti(3, L(0)), ti(4, L(1)))), Do(NOT(tb(5, T()))), Do(Op("&&", tb(6, F()), tb(7, T()))),
		Do(P(Op("*", ti(8, N(2)), ti(9, N(3))))), Do(Len(ts(10, S("abc")))), Do(ItoaE{X: ti(11, N(4))}), Do(Op("+", ts(12, S("a")), ts(13, S("b")))),
		IfS(tb(14, T()), Do(Op("-", ti(15, N(1)), ti(16, N(1))))),
		Fn("inner", nil, nil, Do(Op("<", ti(17, N(1)), ti(18, N(2)))), Do(ti(19, N(0)))), Do(Call("inner")), Pr(S("end")))
	add("identical-calls-in-one-statement", Pr(Op("+", ti(1, L(0)), ti(1, L(0)))), Pr(ti(2, N(5)), ti(2, N(5))), Def("b", Op("||", tb(3, F()), tb(3, F()))), Pr(V("b")),
		IfChain([]Expr{tb(4, Op("<", L(0), L(1))), tb(4, Op("<", L(0), L(1)))}, []Blk{{Pr(S("first"))}, {Pr(S("second"))}}, nil),
		Def("s", Ints(ti(5, N(1)), ti(5, N(1)))), Pr(Len(V("s"))), Do(Call("sum3", ti(6, N(1)), ti(6, N(1)), ti(6, N(1)))))
	add("loop-condition-with-and", Def("i", N(0)), ForC(Op("&&", tb(1, Op("<", V("i"), L(0))), tb(2, Op("<", V("i"), N(3)))), Inc("i"), Pr(S("body"), V("i"))), Pr(S("end")),
		For3(Def("j", N(0)), Op("&&", Op("<", V("j"), N(2)), tb(3, T())), Inc("j"), Pr(S("b2"), V("j"))), Pr(S("end2")),
		For3(Def("k", N(0)), Op("||", tb(4, Op("<", V("k"), N(1))), tb(5, F())), Inc("k"), Pr(S("b3"), V("k"))))
	add("global-read-then-modifying-call", Def("g", L(0)), Fn("bump", nil, []Type{TInt}, Set("g", Op("+", V("g"), N(1))), Ret(V("g"))),
		Pr(V("g"), Call("bump"), V("g")), Def("x", Op("+", V("g"), Call("bump"))), Pr(V("x"), V("g")),
		IfS(Op("<", V("g"), Call("bump")), Pr(S("less"))))
	add("literal-operand-of-logical", IfElse(Op("||", T(), tb(1, F())), Blk{Pr(S("then"))}, Blk{Pr(S("else"))}), Def("x", Op("&&", F(), tb(2, T()))), Pr(V("x")),
		IfChain([]Expr{tb(3, F()), Op("||", T(), tb(4, T()))}, []Blk{{Pr(S("first"))}, {Pr(S("second"))}}, Blk{Pr(S("third"))}),
		Pr(Op("||", tb(5, F()), T()), Op("&&", tb(6, T()), F())), Pr(Op("&&", T(), tb(7, F())), Op("||", F(), tb(8, T()))),
		Def("i", N(0)), ForC(Op("&&", Op("<", V("i"), N(2)), Op("||", T(), tb(9, F()))), Inc("i"), Pr(S("it"), V("i"))),
		Pr(Op("==", Op("||", T(), tb(10, F())), T())), Pr(Op("+", N(0), ti(11, N(0)))), Pr(Op("*", N(0), ti(12, N(5)))), Pr(Op("+", S(""), ts(13, S("q")))))
	add("loop-body-calls-function-with-loop",
		Fn("drain", []ParamDecl{Pm("n", TInt)}, nil, ForC(Op(">", V("n"), N(0)), Pr(S("drain"), V("n")), Dec("n"))),
		Fn("spin", nil, nil, Def("k", N(0)), ForEver(IfS(Op(">=", V("k"), N(2)), Break{}), Inc("k"))),
		Fn("count", []ParamDecl{Pm("m", TInt)}, []Type{TInt}, Def("t", N(0)), For3(Def("j", N(0)), Op("<", V("j"), V("m")), Inc("j"), Set("t", Op("+", V("t"), V("j")))), Ret(V("t"))),
		For3(Def("i", N(0)), tb(1, Op("<", V("i"), N(3))), Set("i", ti(2, Op("+", V("i"), N(1)))), Pr(S("body"), V("i")), IfS(Op("==", V("i"), N(1)), Do(Call("drain", N(2))))),
		For3(Def("a", N(0)), tb(3, Op("<", V("a"), N(2))), Set("a", ti(4, Op("+", V("a"), N(1)))), Do(Call("spin")), Pr(S("after spin"), V("a"))),
		For3(Def("b", N(0)), tb(5, Op("<", V("b"), N(2))), Set("b", ti(6, Op("+", V("b"), N(1)))), Pr(Call("count", N(3))),
			For3(Def("c", N(0)), tb(7, Op("<", V("c"), N(2))), Set("c", ti(8, Op("+", V("c"), N(1)))), Do(Call("drain", N(1))))),
		Def("w", N(0)), ForC(tb(9, Op("<", V("w"), N(2))), Do(Call("spin")), Inc("w"), Pr(S("w"), V("w"))))
	add("panic-argument", IfS(tb(1, Op("<", L(0), L(1))), PanicS{X: ts(2, S("bye"))}), Pr(ti(3, N(0))))
	add("condition-in-function", Fn("chk", []ParamDecl{Pm("a", TInt)}, []Type{TBool}, IfS(tb(1, Op("<", V("a"), L(0))), Ret(tb(2, T()))), Ret(tb(3, F()))), Pr(Call("chk", L(1))))
	return sh
}

// c03Shapes: deep=false gives the quick bounds (indices 0..12, strings of 4 bytes), deep=true the thorough ones
// (indices up to the property's 40, strings of 6 bytes).
func c03Shapes(deepOpt ...bool) []Shape {
	deep := len(deepOpt) > 0 && deepOpt[0]
	maxIdx, twoLo, strLen := int64(12), int64(8), 4
	if deep {
		maxIdx, twoLo, strLen = 40, 8, 6
	}
	var sh []Shape
	add := func(name string, p *Program) { sh = append(sh, constShape(name, p)) }
	add("literal-index-len", Prog(Def("s", Ints(L(0), L(1), L(2))), Pr(Idx("s", N(0)), Idx("s", N(2)), Len(V("s"))), Def("e", Ints()), Pr(Len(V("e")))))
	sh = append(sh, Shape{Name: "grow-symbolic-index", AssumeLits: smallLits(0, maxIdx, 0), Prog: func(c *gosym.Ctx) *Program {
		return Prog(Def("s", Ints(N(5))), SSet("s", L(0), L(1)), Pr(Len(V("s")), Idx("s", N(0)), Idx("s", L(0))),
			IfS(Op(">", L(0), N(1)), Pr(Idx("s", Op("-", L(0), N(1))))))
	}})
	sh = append(sh, Shape{Name: "grow-twice", AssumeLits: smallLits(0, 5, 0, 1), Prog: func(c *gosym.Ctx) *Program {
		return Prog(Def("s", Ints()), SSet("s", L(0), N(1)), SSet("s", L(1), N(2)), Pr(Len(V("s"))), For3(Def("i", N(0)), Op("<", V("i"), Len(V("s"))), Inc("i"), Pr(V("i"), Idx("s", V("i")))))
	}})
	add("zero-fill-bool-string", Prog(Def("b", Bools()), SSet("b", N(2), T()), Pr(Idx("b", N(0)), Idx("b", N(1)), Idx("b", N(2))),
		Def("t", Strs(S("x"))), SSet("t", N(2), S("z")), Pr(Idx("t", N(0)), Idx("t", N(1)), Idx("t", N(2)), Len(V("t")))))
	add("alias-variable", Prog(Def("a", Ints(L(0), L(1))), Def("b", V("a")), SSet("b", N(0), L(2)), SSet("a", N(3), L(3)), Pr(Idx("a", N(0)), Idx("b", N(3)), Len(V("b")))))
	add("alias-after-reassign", Prog(Def("a", Ints(L(0))), Def("b", V("a")), Set("a", Ints(L(1), L(2))), SSet("a", N(0), L(3)), Pr(Idx("b", N(0)), Idx("a", N(0)), Len(V("a")), Len(V("b")))))
	add("range-slice", Prog(Def("s", Ints(L(0), L(1), L(2))), ForRange{I: "i", V: "v", X: V("s"), Body: []Stmt{Pr(V("i"), V("v"))}}, ForRange{I: "k", X: V("s"), Body: []Stmt{Pr(V("k"))}}))
	add("range-empty", Prog(Def("s", Ints()), ForRange{I: "i", V: "v", X: V("s"), Body: []Stmt{Pr(V("i"), V("v"))}}, Pr(S("end"))))
	sh = append(sh, Shape{Name: "range-string", Prog: func(c *gosym.Ctx) *Program {
		n := c.Choose("len", 0, 3)
		return Prog(Def("s", SR(SymStr(c, "s", n, neutral))), ForRange{I: "i", V: "ch", X: V("s"), Body: []Stmt{Pr(V("i"), V("ch"))}}, Pr(Len(V("s"))))
	}})
	add("copy", Prog(Def("src", Ints(L(0), L(1), L(2))), Def("dst", Ints(N(9))), Def("n", CopyE{Dst: "dst", Src: V("src")}), Pr(V("n"), Len(V("dst")), Idx("dst", N(0)), Idx("dst", N(1)), Idx("dst", N(2))),
		SSet("src", N(0), L(3)), Pr(Idx("dst", N(0)), Idx("src", N(0)))))
	add("copy-global-destination-in-function", Prog(Def("dst", Ints(N(9))), Def("other", Ints()),
		Fn("fill", []ParamDecl{Pm("src", TInts)}, []Type{TInt}, Def("n", CopyE{Dst: "dst", Src: V("src")}), Ret(V("n"))),
		Fn("fillLocal", []ParamDecl{Pm("src", TInts)}, []Type{TInt}, Def("l", Ints()), Def("n", CopyE{Dst: "l", Src: V("src")}), Ret(Op("+", Op("*", V("n"), N(10)), Len(V("l"))))),
		Fn("fillParam", []ParamDecl{Pm("d", TInts), Pm("src", TInts)}, []Type{TInt}, Ret(CopyE{Dst: "d", Src: V("src")})),
		Fn("fillBoth", []ParamDecl{Pm("src", TInts)}, []Type{TBool}, Ret(Op("==", CopyE{Dst: "other", Src: V("src")}, Len(V("src"))))),
		Pr(Call("fill", Ints(L(0), L(1))), Len(V("dst")), Idx("dst", N(0)), Idx("dst", N(1))),
		Pr(Call("fillLocal", Ints(L(0), L(1), L(2)))), Pr(Call("fillParam", V("other"), V("dst")), Len(V("other")), Idx("other", N(1))),
		Pr(Call("fillBoth", Ints(N(1), N(2), N(3))), Len(V("other")), Idx("other", N(2)))))
	add("nested-range-over-expressions", Prog(
		Fn("nums", nil, []Type{TInts}, Ret(Ints(N(10), N(20), N(30)))),
		Fn("word", nil, []Type{TString}, Ret(S("xy"))),
		ForRange{I: "i", V: "s", X: Strs(S("ab"), S("cde")), Body: []Stmt{ForRange{I: "j", V: "n", X: Call("nums"), Body: []Stmt{Pr(V("i"), V("s"), V("j"), V("n"))}}, Pr(S("outer"), V("i"))}},
		ForRange{I: "i", V: "ch", X: Call("word"), Body: []Stmt{ForRange{I: "j", V: "v", X: Ints(L(0), L(1)), Body: []Stmt{Pr(V("i"), V("ch"), V("j"), V("v"))}}, Pr(S("inner done"), V("ch"))}},
		ForRange{I: "a", V: "x", X: Call("nums"), Body: []Stmt{Pr(V("a"), V("x"))}}, ForRange{I: "a", V: "x", X: Ints(N(7)), Body: []Stmt{Pr(V("a"), V("x"))}}))
	add("two-slice-literals-in-one-statement", Prog(
		Fn("first", []ParamDecl{Pm("p", TInts), Pm("q", TInts)}, []Type{TInt}, Ret(Op("+", Op("*", Len(V("p")), N(10)), Len(V("q"))))),
		Fn("two", nil, []Type{TInts, TInts}, Ret(Ints(N(1), N(2), N(3)), Ints(L(0)))),
		Fn("mk", nil, []Type{TInts}, Ret(Ints(N(8), N(9)))),
		Pr(Call("first", Ints(N(1), N(2), N(3)), Ints(L(0)))), Def("a", Ints()), Def("b", Ints()),
		SetN([]string{"a", "b"}, Ints(N(1), N(2)), Ints(L(1))), Pr(Len(V("a")), Len(V("b")), Idx("a", N(0)), Idx("b", N(0))),
		DefN([]string{"c", "d"}, Call("two")), Pr(Len(V("c")), Len(V("d")), Idx("c", N(2)), Idx("d", N(0))),
		Pr(Call("first", Ints(N(4)), Call("mk"))), SSet("a", N(0), N(50)), Pr(Idx("a", N(0)), Idx("b", N(0)))))
	add("substring-end-expressions", Prog(Def("s", S("abcdef")), Def("n", N(5)), Def("i", N(4)),
		Pr(Substr{S: V("s"), Lo: N(1), Hi: Op("-", Len(V("s")), N(1))}), Pr(Substr{S: V("s"), Hi: Op("-", V("n"), N(2))}), Pr(Substr{S: V("s"), Lo: N(0), Hi: Op("-", V("i"), N(1))}),
		Pr(Substr{S: V("s"), Lo: Op("-", V("n"), N(3)), Hi: Op("+", V("i"), N(1))}), Pr(Substr{S: V("s"), Lo: Op("-", V("i"), N(2)), Hi: Op("-", N(9), V("i"))}),
		Pr(StrIdx{S: V("s"), I: Op("-", V("n"), N(1))}), Pr(Substr{S: V("s"), Lo: N(1), Hi: P(Op("-", V("n"), N(1)))})))
	add("grow-then-assign-low-index", Prog(Def("s", Ints()), For3(Def("i", N(0)), Op("<", V("i"), N(12)), Inc("i"), SSet("s", V("i"), Op("*", V("i"), N(10)))),
		SSet("s", N(3), L(0)), Pr(Len(V("s")), Idx("s", N(3)), Idx("s", N(11))), Def("t", Ints(N(1), N(2), N(3), N(4), N(5), N(6), N(7), N(8), N(9))), SSet("t", N(10), N(7)), Pr(Len(V("t")), Idx("t", N(9)), Idx("t", N(10)))))
	add("copy-empty", Prog(Def("src", Ints()), Def("dst", Ints()), Pr(CopyE{Dst: "dst", Src: V("src")}, Len(V("dst")))))
	add("copy-strings", Prog(Def("src", Strs(S("a b"), S(""))), Def("dst", Strs()), Pr(CopyE{Dst: "dst", Src: V("src")}), Pr(Idx("dst", N(0)), Len(V("dst")))))
	sh = append(sh, Shape{Name: "string-ops-symbolic", Prog: func(c *gosym.Ctx) *Program {
		n := c.Choose("len", 0, 4)
		s := SymStr(c, "s", n, neutral)
		body := []Stmt{Def("s", SR(s)), Pr(Len(V("s"))), Pr(Substr{S: V("s")}), Pr(Op("+", V("s"), V("s")))}
		if n > 0 {
			body = append(body, Pr(StrIdx{S: V("s"), I: N(int64(n - 1))}), Pr(StrIdx{S: V("s"), I: N(0)}))
		}
		return Prog(body...)
	}})
	sh = append(sh, Shape{Name: "substring-symbolic-bounds", AssumeLits: smallLits(0, int64(strLen), 0, 1), Prog: func(c *gosym.Ctx) *Program {
		s := SymStr(c, "s", strLen, neutral)
		return Prog(Def("s", SR(s)), Pr(S("["), Substr{S: V("s"), Lo: L(0), Hi: L(1)}, S("]")), Pr(S("["), Substr{S: V("s"), Hi: L(1)}, S("]")), Pr(S("["), Substr{S: V("s"), Lo: L(0)}, S("]")))
	}})
	sh = append(sh, Shape{Name: "string-index-symbolic", AssumeLits: smallLits(0, int64(strLen-1), 0), Prog: func(c *gosym.Ctx) *Program {
		s := SymStr(c, "s", strLen, neutral)
		return Prog(Def("s", SR(s)), Pr(StrIdx{S: V("s"), I: L(0)}), Pr(Op("==", StrIdx{S: V("s"), I: L(0)}, S("a"))))
	}})
	add("string-compare-concat", Prog(Def("a", S("ab")), Def("b", Op("+", S("a"), S("b"))), Pr(Op("==", V("a"), V("b")), Op("!=", V("a"), Op("+", V("b"), S("")))), Def("ab", Op("+", V("a"), V("b"))), Pr(Substr{S: V("ab"), Lo: N(1), Hi: N(3)})))
	sh = append(sh, Shape{Name: "two-digit-indices", AssumeLits: smallLits(twoLo, maxIdx, 0), Prog: func(c *gosym.Ctx) *Program {
		return Prog(Def("s", Ints()), For3(Def("i", N(0)), Op("<", V("i"), L(0)), Inc("i"), SSet("s", V("i"), Op("*", V("i"), N(2)))), Pr(Len(V("s")), Idx("s", Op("-", L(0), N(1))), Idx("s", N(9))))
	}})
	add("slice-of-slices-of-values-in-loop", Prog(Def("acc", Ints()), For3(Def("i", N(0)), Op("<", V("i"), N(3)), Inc("i"), Def("t", Ints(V("i"))), SSet("acc", V("i"), Idx("t", N(0)))), Pr(Idx("acc", N(0)), Idx("acc", N(1)), Idx("acc", N(2)))))
	add("slice-literal-in-loop-kept-alias", Prog(Def("first", Ints()), Def("rows", Strs()), Def("keep", Strs()),
		For3(Def("i", N(0)), Op("<", V("i"), N(3)), Inc("i"),
			Def("cur", Ints(V("i"))), SSet("cur", N(1), Op("*", V("i"), N(10))),
			Def("e", Ints()), SSet("e", V("i"), L(0)), Pr(Len(V("e")), Len(V("cur"))),
			Def("row", Strs(Op("+", S("r"), ItoaE{X: V("i")}))),
			IfS(Op("==", V("i"), N(0)), Set("first", V("cur")), Set("keep", V("row")))),
		Pr(Len(V("first")), Idx("first", N(0)), Idx("first", N(1))), Pr(Len(V("keep")), Idx("keep", N(0))),
		Def("w", N(0)), ForC(Op("<", V("w"), N(2)), VarT("z", TInts), SSet("z", V("w"), N(5)), Pr(Len(V("z"))), Inc("w"))))
	add("element-assignment-index-before-value", Prog(Def("pos", Ints(N(0))),
		Fn("next", nil, []Type{TInt}, SSet("pos", N(0), Op("+", Idx("pos", N(0)), N(1))), Ret(Idx("pos", N(0)))),
		Def("a", Ints()), SSet("a", Call("next"), Op("*", Call("next"), N(10))), Pr(Len(V("a")), Idx("a", N(1)), Idx("pos", N(0))),
		Def("lg", Strs(S("a"))), Fn("push", []ParamDecl{Pm("v", TString)}, []Type{TInt}, SSet("lg", Len(V("lg")), V("v")), Ret(Len(V("lg")))),
		SSet("lg", Call("push", S("b")), Op("+", S("n"), ItoaE{X: Call("push", S("c"))})), Pr(Len(V("lg")), Idx("lg", N(0)), Idx("lg", N(1)), Idx("lg", N(2)))))
	add("index-expression", Prog(Def("s", Ints(L(0), L(1), L(2), L(3))), Def("i", N(1)), Pr(Idx("s", Op("+", V("i"), N(1))), Idx("s", Op("*", V("i"), N(3))), Idx("s", Idx("s", N(0))))))
	return sh
}

func checkShapes(r *Run, shapes []Shape, o eqOpts, maxPaths int, assumptions ...string) int {
	nat, err := BuildNative()
	if err != nil {
		fmt.Println("cannot build the repository natively:", err)
		return 2
	}
	r.Native = nat
	runShapes(r, shapes, o, maxPaths)
	if r.PostShapes != nil {
		r.PostShapes()
	}
	if _, ok := r.Ev.Coverage["disagreements_checked"].(int); !ok {
		r.Cov("disagreements_checked", 0)
	}
	for i, s := range shapes {
		if i < 4 {
			r.AddSample(map[string]interface{}{"shape": s.Name})
		}
	}
	r.Assume("RefTSH (oracle/reftsh.go): Go semantics of the shared syntax + README deviations (eager conditions, bools print 1/0, slices grow with zero fill, panic prints 'panic: m' and exits 1)")
	r.Assume("ShSem (oracle/shparse.go, sheval.go): semantics of the emitted Bash subset, calibrated against /bin/bash on the repository's test programs (`verif selftest`); every counterexample is re-run on the real bash before being reported")
	for _, a := range assumptions {
		r.Assume(a)
	}
	return r.Finish("translation_validation")
}

func CheckC02(r *Run) int {
	ngen := 150
	if r.Tier != "quick" {
		ngen = 5000
	}
	return checkShapes(r, append(c02Shapes(), generatedShapes("functions", r.Seed, ngen, true, true)...), eqOpts{Target: "bash", CheckHazards: true}, 3000, "bounds: <=4 functions per shape, call nesting <=3, arity <=3 in / <=3 out; literals are unconstrained 64-bit values")
}

func CheckC03(r *Run) int {
	deep := r.Tier != "quick"
	shapes := c03Shapes(deep)
	bounds := "bounds: symbolic indices assumed in 0..12, symbolic strings of 4 bytes, substring bounds 0..4"
	if deep {
		shapes = append(shapes, generatedShapes("slices", r.Seed+3, 4000, true, true)...)
		bounds = "bounds: symbolic indices assumed in 0..40, symbolic strings of 6 bytes, substring bounds 0..6; plus 4000 generated programs with []int variables, growth and len"
	} else {
		shapes = append(shapes, generatedShapes("slices", r.Seed+3, 100, true, true)...)
		bounds += "; plus 100 generated programs with []int variables, growth and len"
	}
	return checkShapes(r, shapes, eqOpts{Target: "bash", CheckHazards: true}, 20000, bounds+"; excluded: out-of-range reads, negative indices, copy into a longer destination")
}

func CheckC04(r *Run) int {
	shapes := c04Shapes()
	note := "tracer functions print their position; the printed sequence is compared with the reference's left-to-right, exactly-once, eager order"
	if r.Tier != "quick" {
		// generated programs whose functions print and write globals: any change of evaluation order or count is observable
		shapes = append(shapes, generatedShapes("effects", r.Seed+5, 4000, true, false)...)
		note += "; thorough: plus 4000 generated programs whose functions have effects (output, global updates)"
	} else {
		shapes = append(shapes, generatedShapes("effects", r.Seed+5, 100, true, false)...)
		note += "; quick: plus 100 such generated programs"
	}
	return checkShapes(r, shapes, eqOpts{Target: "bash", CheckHazards: true}, 3000, note)
}

// CheckC05: the Batch target under cmd.exe's documented rules (BatSem), 32-bit integers.
func CheckC05(r *Run) int {
	shapes := append(append(append([]Shape{}, c01Shapes()...), c02Shapes()...), c03Shapes()...)
	r.PostShapes = func() {
		// the repository's own test programs: the Batch script under BatSem must print what the Bash script prints
		// under the real bash (the tests expect the same output on both targets)
		a, d, sk, notes := CalibrateBat(r)
		r.Cov("repo_test_programs_agree", a)
		r.Cov("repo_test_programs_skipped", sk)
		r.AddCount("disagreements_checked", d)
		for _, n := range notes {
			if strings.Contains(n, "expected (") || strings.Contains(n, "unsupported") {
				name := strings.SplitN(n, ":", 2)[0]
				class := "C05.repo-test." + strings.TrimSpace(name)
				if r.IsKnown(class) {
					r.HitKnown(class, n)
					continue
				}
				if strings.Contains(n, "unsupported") {
					continue
				}
				rd := r.WriteReplay(class, map[string]string{"finding.txt": "property C05 (model-level: BatSem)\n" + n + "\n"})
				r.AddViolation(Violation{Class: class, What: n, Replay: rd})
			}
		}
	}
	return checkShapes(r, shapes, eqOpts{Target: "batch"}, 4000,
		"BatSem (oracle/batsem*.go) encodes cmd.exe's documented rules for the emitted Batch subset; it reproduces the expected output of all 120 accepted test programs of the repository (cmd/batcal) but cannot be calibrated against a real cmd.exe: verdicts are model-level",
		"integers are 32-bit: literals assumed in the int32 range, the reference wraps at 32 bits; INT_MIN / -1 excluded; a counterexample is re-derived with the natively transpiled concrete program interpreted by BatSem concretely")
}
