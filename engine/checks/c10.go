package checks

import (
	"fmt"
	"regexp"
	"sort"
	"strings"
	"sync"
	"time"

	"verif/engine/gosym"
	"verif/engine/sym"
)

// A role is a program in which one user identifier is the placeholder NAME.
type nameRole struct {
	name  string
	src   string
	files map[string]string // further files of the program (imports)
	// identifiers of the program the placeholder may be spelled like: they live in a scope in which Go keeps the meaning
	// of the program (shadowing in a nested block, a sibling function, a local next to a global that its scope never
	// uses), so the renamed program must behave the same or be rejected
	mayEqual []string
}

var c10Counter = map[string]string{"counter.tsh": "calls := 0\nfunc bump() int {\n\tcalls = calls + 1\n\treturn calls\n}\nfunc Next() int {\n\treturn bump() * 100\n}\n"}

func nameRoles() []nameRole {
	return []nameRole{
		{"global-variable", "NAME := 3\nq := []int{1}\nq[2] = NAME\nfor i := 0; i < 2; i++ {\n\tNAME = NAME + i\n}\nt := \"abc\"\nprint(NAME, len(q), t[1:2], NAME > 2 && true)\n", nil, nil},
		{"global-string-variable", "NAME := \"v\"\nNAME = NAME + \"w\"\nprint(NAME, len(NAME), NAME == \"vw\")\nwrite(\"o.txt\", NAME)\nprint(read(\"o.txt\"))\n", nil, nil},
		{"local-variable", "func f(a int) int {\n\tNAME := a * 2\n\tw := []int{NAME}\n\tw[1] = NAME + 1\n\treturn w[1] + NAME\n}\nz := 1\nprint(f(z), z)\n", nil, nil},
		{"parameter", "func f(NAME int, b int) (int, int) {\n\tfor i := 0; i < 2; i++ {\n\t\tb = b + NAME\n\t}\n\treturn NAME, b\n}\nx, y := f(2, 3)\nprint(x, y)\n", nil, nil},
		{"function-name", "func NAME(a int) int {\n\treturn a + 1\n}\nfunc g(a int) int {\n\treturn NAME(a) * 2\n}\ns := []int{1}\ns[1] = g(1)\nu := \"tv\"\nprint(NAME(1), s[1], u[0:1])\n", nil, nil},
		{"loop-variable", "acc := 0\nfor NAME := 0; NAME < 3; NAME++ {\n\tacc = acc + NAME\n}\nfor i, NAME := range []int{4, 5} {\n\tacc = acc + i * NAME\n}\nprint(acc)\n", nil, nil},
		{"copy-destination", "src := []int{3, 7, 9}\nNAME := []int{}\nn := copy(NAME, src)\nprint(n, len(NAME), NAME[1], NAME[2])\n", nil, nil},
		{"global-next-to-function-local", "NAME := 1\nfunc g() int {\n\tx := 42\n\tNAME = NAME + 0\n\treturn x\n}\nfunc h(y int) int {\n\treturn y + g()\n}\nprint(g(), h(1), NAME)\n", nil, nil},
		{"local-next-to-callee-local", "func r() int {\n\tn := 20\n\treturn n\n}\nfunc f() int {\n\tNAME := 2\n\tk := r()\n\treturn k + NAME\n}\nprint(f())\n", nil, []string{"n"}},
		{"second-name-of-short-definition", "Cap := 10\nstep, NAME := 1, 2\nprint(Cap, step, NAME)\nCap = Cap + NAME\nprint(Cap, NAME)\n", nil, nil},
		{"local-next-to-parameter", "func f(Rst int, d int) int {\n\tq, NAME := Rst / d, Rst % d\n\treturn q + NAME + Rst\n}\nprint(f(7, 2))\n", nil, nil},
		{"target-of-multi-result-call", "func dm(a int, b int) (int, int) {\n\treturn a / b, a % b\n}\nfunc use() int {\n\tNAME, rest := dm(7, 2)\n\tNAME, rest = dm(NAME + 9, rest + 1)\n\treturn NAME * 10 + rest\n}\nNAME, r2 := dm(9, 4)\nprint(NAME, r2, use())\n", nil, nil},
		{"global-next-to-imported-file", "import c \"counter.tsh\"\nNAME := 42\nprint(c.Next(), NAME)\nNAME = NAME + c.Next()\nprint(NAME)\n", c10Counter, nil},
		{"function-next-to-imported-file", "import c \"counter.tsh\"\nfunc NAME(a int) int {\n\treturn a * 2\n}\nprint(c.Next(), NAME(1), c.Next())\n", c10Counter, nil},
		{"block-local-next-to-outer-variable", "tot := 3\ncount := 0\nif tot > 2 {\n\tNAME := 10\n\tcount = count + NAME\n}\nfor i := 0; i < 2; i++ {\n\tNAME := i * 2\n\tcount = count + NAME\n}\nprint(tot, count)\n", nil, []string{"tot"}},
		{"function-local-next-to-global", "lim := 5\nfunc f(a int) int {\n\tNAME := a + 1\n\treturn NAME * 2\n}\nprint(f(1), lim)\nlim = lim + f(2)\nprint(lim)\n", nil, []string{"lim"}},
		{"parameter-next-to-global", "lim := 5\nfunc f(NAME int) int {\n\tNAME = NAME + 1\n\treturn NAME * 2\n}\nprint(f(1), lim)\n", nil, []string{"lim"}},
		{"local-next-to-sibling-local", "func f() int {\n\tacc := 1\n\tacc = acc + 1\n\treturn acc\n}\nfunc g() int {\n\tNAME := 5\n\tk := f()\n\treturn NAME * 10 + k\n}\nprint(g())\n", nil, []string{"acc"}},
		{"range-variable-next-to-outer-variable", "lab := \"outer\"\nsum := 0\nfor i, NAME := range []int{4, 5} {\n\tsum = sum + i + NAME\n}\nprint(lab, sum)\n", nil, []string{"lab"}},
		{"switch-clause-local-next-to-outer-variable", "mode := 2\nres := 0\nswitch mode {\ncase 1:\n\tNAME := 7\n\tres = NAME\ncase 2:\n\tNAME := 9\n\tres = NAME + 1\n}\nprint(mode, res)\n", nil, []string{"mode"}},
		{"slice-variable", "NAME := []string{\"a\"}\nNAME[1] = \"b\"\nc := []string{}\nprint(copy(c, NAME), len(NAME), NAME[1], c[0])\n", nil, nil},
	}
}

// names the shell itself owns (builtins, reserved words, variables) up to five characters
var shellReserved = []string{"echo", "eval", "exit", "read", "cat", "local", "test", "true", "false", "if", "then", "else", "elif", "fi", "for", "do", "done", "while", "case", "esac", "in", "time", "set", "unset", "shift", "trap", "type", "wait", "exec", "cd", "let", "kill", "jobs", "hash", "help", "bind", "fc", "bg", "fg", "pwd", "printf", "source", "alias", "break", "return", "export", "PATH", "IFS", "HOME", "PWD", "UID", "EUID", "PPID", "PS1", "PS4", "TERM", "USER", "LANG", "SHELL", "REPLY", "_", "LINES", "BASH", "RANDOM", "LINENO", "SECONDS", "OPTIND", "OPTARG", "GROUPS", "FUNCNAME", "DIRSTACK", "HOSTNAME", "BASHPID", "SHLVL"}

type nameCand struct {
	Role     string
	Spelling string
	Because  string
}

type nameOutcome struct {
	Kind  string
	Cands []nameCand
}

const identFirst = "abcdefghijklmnopqrstuvwxyzABCDEFGHIJKLMNOPQRSTUVWXYZ_"
const identRest = identFirst + "0123456789"

func CheckC10(r *Run) int {
	nat, err := BuildNative()
	if err != nil {
		fmt.Println("cannot build the repository natively:", err)
		return 2
	}
	r.Native = nat
	quick := r.Tier == "quick"
	maxLen := 6
	if !quick {
		maxLen = 8
	}
	roles := nameRoles()
	var mu sync.Mutex
	cands := map[string]nameCand{}
	accepted, rejected := 0, 0
	st := r.Eng.Explore(func(c *gosym.Ctx) interface{} {
		B := c.B
		role := roles[c.Choose("role", 0, len(roles)-1)]
		n := c.Choose("len", 1, maxLen)
		var nameParts []gosym.Str
		var nameBytes []*sym.Term
		for i := 0; i < n; i++ {
			alpha := identRest
			if i == 0 {
				alpha = identFirst
			}
			b := c.B.ByteVar(fmt.Sprintf("n%d", i), alpha)
			c.S.Declare(b)
			nameBytes = append(nameBytes, b)
			nameParts = append(nameParts, gosym.ByteStr(b))
		}
		name := gosym.Concat(nameParts...)
		// injective renamings only: the new spelling must differ from the program's other identifiers
		for _, other := range otherIdentifiers(role.src) {
			allowed := false
			for _, me := range role.mayEqual {
				if me == other {
					allowed = true
				}
			}
			if len(other) == n && !allowed {
				c.AssumeUnchecked(B.Not(c.StrEq(name, gosym.Conc(other))))
			}
		}
		src := gosym.Concat(splitOn(role.src, "NAME", name)...)
		c.FS.AddFile("/work/main.tsh", src)
		for fn, content := range role.files {
			c.FS.AddFile("/work/"+fn, gosym.Conc(content))
		}
		var script gosym.Str
		var hasErr bool
		gp := c.Try(func() { script, _, hasErr = c.Transpile("/work/main.tsh", "bash") })
		if gp != nil || hasErr {
			// a spelling the front-end rejects (keyword, clash with another identifier) is allowed by the property
			return nameOutcome{Kind: "rejected"}
		}
		// words of the emitted script: maximal runs of identifier characters
		var words [][]gosym.Seg
		var cur []gosym.Seg
		isIdent := func(u gosym.Seg) bool {
			if u.B != nil {
				return true
			}
			if u.D != nil {
				return false
			}
			ch := u.S[0]
			return ch == '_' || (ch >= '0' && ch <= '9') || (ch >= 'a' && ch <= 'z') || (ch >= 'A' && ch <= 'Z')
		}
		for _, u := range script.Units() {
			if isIdent(u) {
				cur = append(cur, u)
			} else if len(cur) > 0 {
				words = append(words, cur)
				cur = nil
			}
		}
		if len(cur) > 0 {
			words = append(words, cur)
		}
		concrete := map[string]bool{}
		var symbolicWords []gosym.Str
		seenSym := map[string]bool{}
		for _, w := range words {
			s := gosym.Concat(gosym.Str{Segs: append([]gosym.Seg(nil), w...)})
			if g, ok := s.Go(); ok {
				concrete[g] = true
			} else if !seenSym[s.String()] {
				seenSym[s.String()] = true
				symbolicWords = append(symbolicWords, s)
			}
		}
		for _, w := range shellReserved {
			concrete[w] = true
		}
		var out []nameCand
		// a path on which the identifier's bytes are fully determined: the code under check singles this spelling out
		if res, m := c.Sat(); res == sym.Sat {
			var same []*sym.Term
			sp := make([]byte, n)
			for i, b := range nameBytes {
				sp[i] = byte(m[b.Name])
				same = append(same, B.Eq(b, B.BV(m[b.Name], 8)))
			}
			if res2, _ := c.Sat(B.Not(B.And(same...))); res2 == sym.Unsat {
				out = append(out, nameCand{Role: role.name, Spelling: string(sp), Because: "the control flow of the code under check singles out this spelling"})
			}
		}
		var cw []string
		for w := range concrete {
			cw = append(cw, w)
		}
		sort.Strings(cw)
		for _, sw := range symbolicWords {
			for _, w := range cw {
				eq := c.StrEq(sw, gosym.Conc(w))
				if eq.IsFalse() {
					continue
				}
				res, m := c.Sat(eq)
				if res != sym.Sat {
					continue
				}
				sp := make([]byte, n)
				for i, b := range nameBytes {
					sp[i] = byte(m[b.Name])
				}
				out = append(out, nameCand{Role: role.name, Spelling: string(sp), Because: fmt.Sprintf("emitted name %s can equal %q", sw.String(), w)})
			}
		}
		// spellings that differ from another identifier of the program only in letter case
		for _, other := range otherIdentifiers(role.src) {
			if len(other) != n {
				continue
			}
			fold := B.True
			for i, b := range nameBytes {
				lo, up := strings.ToLower(other[i : i+1])[0], strings.ToUpper(other[i : i+1])[0]
				fold = B.And(fold, B.Or(B.Eq(b, B.BV(uint64(lo), 8)), B.Eq(b, B.BV(uint64(up), 8))))
			}
			block := B.True
			for k := 0; k < 3; k++ {
				res, m := c.Sat(fold, block)
				if res != sym.Sat {
					break
				}
				sp := make([]byte, n)
				var same []*sym.Term
				for i, b := range nameBytes {
					sp[i] = byte(m[b.Name])
					same = append(same, B.Eq(b, B.BV(m[b.Name], 8)))
				}
				block = B.And(block, B.Not(B.And(same...)))
				out = append(out, nameCand{Role: role.name, Spelling: string(sp), Because: fmt.Sprintf("differs from the identifier %q only in letter case", other)})
			}
		}
		return nameOutcome{Kind: "accepted", Cands: out}
	}, gosym.ExploreOpts{Workers: r.Workers, TimeoutMS: 10000, Budget: gosym.Budget{MaxPaths: 400000, Steps: 30_000_000}, OnPath: func(pr *gosym.PathResult) {
		o, ok := pr.Ret.(nameOutcome)
		if !ok {
			return
		}
		mu.Lock()
		defer mu.Unlock()
		if o.Kind == "rejected" {
			rejected++
			return
		}
		accepted++
		for _, cd := range o.Cands {
			cands[cd.Role+"\x00"+cd.Spelling] = cd
		}
	}})
	r.Absorb("H_C10_capture", st, fmt.Sprintf("%d roles (global/local variable, parameter, function, loop and slice variable); the identifier is 1..%d symbolic bytes over [A-Za-z_][A-Za-z0-9_]*; for every accepted path z3 is asked for each spelling under which a name derived from the identifier equals a word the script already contains or a name the shell owns", len(roles), maxLen))
	// differential confirmation on the real bash: the same program with a harmless name vs the candidate spelling
	var keys []string
	for k := range cands {
		keys = append(keys, k)
	}
	sort.Strings(keys)
	baseline := map[string]BashResult{}
	run := func(role nameRole, spelling string) (BashResult, bool) {
		src := strings.ReplaceAll(role.src, "NAME", spelling)
		files := map[string]string{"main.tsh": src}
		for fn, content := range role.files {
			files[fn] = content
		}
		res, err := nat.RunDrv([]DrvReq{{Op: "transpile", Files: files, Main: "main.tsh", Target: "bash"}}, 30*time.Second)
		if err != nil || res[0].HasErr || res[0].Panic != "" {
			return BashResult{}, false
		}
		return RunBash(res[0].Script, "", nil, 10*time.Second), true
	}
	validated, behaviourChanging := 0, 0
	for _, k := range keys {
		cd := cands[k]
		var role nameRole
		for _, ro := range roles {
			if ro.name == cd.Role {
				role = ro
			}
		}
		base, ok := baseline[role.name]
		if !ok {
			base, _ = run(role, "zq9w")
			baseline[role.name] = base
		}
		got, okT := run(role, cd.Spelling)
		validated++
		if !okT {
			continue // rejected natively: allowed
		}
		if got.Stdout == base.Stdout && got.Code == base.Code && got.Stderr == base.Stderr && !got.Timeout {
			continue // the collision is harmless for this program
		}
		behaviourChanging++
		class := fmt.Sprintf("C10.%s.%s", cd.Role, cd.Spelling)
		if r.IsKnown(class) {
			r.HitKnown(class, cd.Spelling)
			continue
		}
		what := fmt.Sprintf("renaming the %s to %q changes the behaviour: stdout %q exit %d stderr %q, with a neutral name stdout %q exit %d (%s)", cd.Role, cd.Spelling, got.Stdout, got.Code, tail(got.Stderr, 100), base.Stdout, base.Code, cd.Because)
		rd := r.WriteReplay(class, map[string]string{"main.tsh": strings.ReplaceAll(role.src, "NAME", cd.Spelling), "neutral.tsh": strings.ReplaceAll(role.src, "NAME", "zq9w"), "finding.txt": "property C10\n" + what + "\n"})
		r.AddViolation(Violation{Class: class, What: what, Replay: rd})
	}
	r.Cov("states", accepted+rejected)
	r.Cov("accepted_spelling_classes", accepted)
	r.Cov("rejected_spelling_classes", rejected)
	r.Cov("capture_candidates", len(keys))
	r.Cov("behaviour_changing_spellings", behaviourChanging)
	r.Cov("traces_validated_against_impl", validated)
	r.AddSample(map[string]interface{}{"role": "local-variable", "identifier": "n0 n1 n2 (symbolic)", "query": "can f1_<n0n1n2> or <n0n1n2> equal _h0, _rv0, _sah, echo, PATH, ...?"})
	r.Assume("behaviour can only change through a coincidence of names: a name derived from the identifier equals another word of the emitted script or a name owned by the shell (list in c10.go); every such spelling is found by the solver and then run against a neutral spelling on the real bash")
	r.Assume("Bash only; Batch case folding (x versus X) is not claimed (no cmd.exe); identifiers longer than the bound are outside")
	return r.Finish("model_checking")
}

func splitOn(tmpl, hole string, fill gosym.Str) []gosym.Str {
	parts := strings.Split(tmpl, hole)
	var out []gosym.Str
	for i, p := range parts {
		if i > 0 {
			out = append(out, fill)
		}
		out = append(out, gosym.Conc(p))
	}
	return out
}

var identRe = regexp.MustCompile(`[A-Za-z_][A-Za-z0-9_]*`)

func otherIdentifiers(src string) []string {
	seen := map[string]bool{}
	var out []string
	for _, w := range identRe.FindAllString(src, -1) {
		if w != "NAME" && !seen[w] {
			seen[w] = true
			out = append(out, w)
		}
	}
	return out
}
