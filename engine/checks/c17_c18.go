package checks

import (
	"fmt"
	"strings"

	"verif/engine/gosym"
	. "verif/engine/oracle"
	"verif/engine/sym"
)

// ---------------------------------------------------------------- C17: write / read / exists

func c17Shapes(quick bool) []Shape {
	var sh []Shape
	maxOps := 2
	if !quick {
		maxOps = 3
	}
	plainData := false
	mk := func(name string, paths []string, inFunc bool) Shape {
		plain := plainData
		return Shape{Name: name, Prog: func(c *gosym.Ctx) *Program {
			n := c.Choose("len", 1, 2)
			alphabet := printableNoBackquote + "\n\t"
			if plain {
				// the shape is about paths: one byte of harmless content
				n, alphabet = 1, neutral
			}
			v := SymStr(c, "v", n, alphabet)
			w := SymStr(c, "w", 1, neutral)
			ops := maxOps
			if plain && ops > 2 {
				ops = 2 // the neighbour-name shapes keep histories of two operations in both tiers
			}
			k := c.Choose("ops", 1, ops)
			body := []Stmt{Def("s", StrLit{Val: v, Raw: true}), Def("t", SR(w))}
			for i := 0; i < k; i++ {
				p := S(paths[c.Choose("path", 0, len(paths)-1)])
				val := V("s")
				if i > 0 && c.Fork() {
					val = V("t")
				}
				switch c.Choose("op", 0, 5) {
				case 4: // a write that is only executed if the file exists already
					body = append(body, IfS(ExistsE{Path: p}, WriteS{Path: p, Data: val}))
				case 5: // an append inside a loop that may run zero times
					body = append(body, For3(Def(fmt.Sprintf("k%d", i), N(0)), Op("<", V(fmt.Sprintf("k%d", i)), N(int64(i))), Inc(fmt.Sprintf("k%d", i)), WriteS{Path: p, Data: val, Append: T()}))
				case 0:
					body = append(body, WriteS{Path: p, Data: val})
				case 1:
					body = append(body, WriteS{Path: p, Data: val, Append: T()})
				case 2:
					body = append(body, IfS(ExistsE{Path: p}, Pr(S("["), ReadE{Path: p}, S("]"))))
				default:
					body = append(body, Pr(ExistsE{Path: p}))
				}
			}
			// final observation of every path
			for _, p := range paths {
				body = append(body, IfElse(ExistsE{Path: S(p)}, Blk{Pr(S("final"), ReadE{Path: S(p)})}, Blk{Pr(S("absent"))}))
			}
			if inFunc {
				return Prog(Fn("work", nil, nil, body...), Do(Call("work")))
			}
			return Prog(body...)
		}}
	}
	sh = append(sh, mk("history-two-files", []string{"a.txt", "b.txt"}, false))
	sh = append(sh, mk("history-in-function", []string{"a.txt", "b.txt"}, true))
	sh = append(sh, mk("history-blank-in-path", []string{"my file.txt"}, false))
	// names next to a written path (what a temporary, backup or lock file of an implementation would be called): as a
	// second path of the history, and as files that exist before the script runs and must still be there unchanged
	plainData = true
	sh = append(sh, mk("history-neighbour-names", []string{"a.txt", "a.txt.tmp"}, false))
	nb := mk("history-next-to-existing-neighbours", []string{"a.txt", "a"}, false)
	nbFiles := map[string]string{"a.txt.tmp": "keep 1\n", "a.txt~": "keep 2\n", "a.txt.bak": "keep 3\n", ".a.txt.swp": "keep 4\n", "a.tmp": "keep 5\n", "a.txt.lock": "keep 6\n", "tmp": "keep 7\n"}
	nb.Pre = nbFiles
	sh = append(sh, nb)
	plainData = false
	sh = append(sh, constShape("read-and-write-in-one-statement", Prog(
		Fn("rotate", []ParamDecl{Pm("p", TString), Pm("s", TString)}, []Type{TString}, WriteS{Path: V("p"), Data: V("s")}, Ret(S("rotated"))),
		Fn("note", []ParamDecl{Pm("p", TString), Pm("s", TString)}, []Type{TString}, WriteS{Path: V("p"), Data: V("s"), Append: T()}, Ret(S("noted"))),
		WriteS{Path: S("a.txt"), Data: S("first version")},
		Pr(ReadE{Path: S("a.txt")}, Call("rotate", S("a.txt"), S("second version")), ReadE{Path: S("a.txt")}),
		Def("x", Op("+", ReadE{Path: S("a.txt")}, Call("note", S("a.txt"), S("third line")))), Pr(V("x")), Pr(ReadE{Path: S("a.txt")}))))
	sh = append(sh, constShape("two-exists-in-one-expression", Prog(
		Fn("both", []ParamDecl{Pm("p", TString), Pm("q", TString)}, []Type{TBool}, Ret(Op("&&", ExistsE{Path: V("p")}, NOT(ExistsE{Path: V("q")})))),
		WriteS{Path: S("a.txt"), Data: S("there")},
		Pr(ExistsE{Path: S("a.txt")}, ExistsE{Path: S("b.txt")}), Pr(ExistsE{Path: S("b.txt")}, ExistsE{Path: S("a.txt")}),
		IfElse(Op("&&", ExistsE{Path: S("a.txt")}, NOT(ExistsE{Path: S("b.txt")})), Blk{Pr(S("only a"))}, Blk{Pr(S("wrong"))}),
		Pr(Call("both", S("a.txt"), S("b.txt")), Call("both", S("b.txt"), S("a.txt"))),
		Def("name", S("a.txt")), Pr(ExistsE{Path: V("name")}, Substr{S: V("name"), Lo: N(0), Hi: N(1)}, ExistsE{Path: S("b.txt")}, StrIdx{S: V("name"), I: N(2)}))))
	sh = append(sh, constShape("content-and-path-from-calls", Prog(
		Fn("label", []ParamDecl{Pm("s", TString)}, []Type{TString}, Ret(Op("+", V("s"), S("!")))),
		Fn("target", nil, []Type{TString}, Ret(S("a.txt"))),
		Fn("store", []ParamDecl{Pm("s", TString)}, nil, WriteS{Path: Call("target"), Data: Call("label", V("s")), Append: T()}),
		WriteS{Path: S("a.txt"), Data: Call("label", S("four"))}, Pr(ReadE{Path: S("a.txt")}),
		WriteS{Path: Call("target"), Data: Paren{X: Call("label", S("x"))}, Append: T()}, Pr(ReadE{Path: Call("target")}),
		Do(Call("store", S("y"))), Pr(ReadE{Path: S("a.txt")}, ExistsE{Path: Call("target")}))))
	sh = append(sh, Shape{Name: "exists-edge-paths", Pre: map[string]string{"m_a.txt": "x\n"}, Setup: func(c *gosym.Ctx, in *Interp, shl *Shell) {
		in.Files["m_a.txt"] = gosym.Conc("x\n")
		shl.Files["m_a.txt"] = gosym.Conc("x\n")
	}, Prog: func(c *gosym.Ctx) *Program {
		return Prog(VarT("unset", TString), Def("empty", S("")),
			Fn("pick", []ParamDecl{Pm("p", TString), Pm("q", TString)}, []Type{TString}, IfS(ExistsE{Path: V("p")}, Ret(V("p"))), Ret(V("q"))),
			Pr(ExistsE{Path: V("unset")}, ExistsE{Path: V("empty")}, ExistsE{Path: S("")}),
			Pr(ExistsE{Path: S("m_a.txt")}, ExistsE{Path: S("m_?.txt")}, ExistsE{Path: S("m_[ab].txt")}, ExistsE{Path: S("m_*")}, ExistsE{Path: S("*")}),
			Pr(Call("pick", V("unset"), S("fallback")), Call("pick", S("m_?.txt"), S("none")), Call("pick", S("m_a.txt"), S("none"))))
	}})
	sh = append(sh, constShape("empty-content", Prog(
		WriteS{Path: S("a.txt"), Data: S("")}, Pr(S("["), ReadE{Path: S("a.txt")}, S("]"), ExistsE{Path: S("a.txt")}),
		WriteS{Path: S("b.txt"), Data: S("one two")}, WriteS{Path: S("b.txt"), Data: S(""), Append: T()}, WriteS{Path: S("b.txt"), Data: S("a * b"), Append: T()}, Pr(ReadE{Path: S("b.txt")}),
		Def("e", S("")), WriteS{Path: S("c.txt"), Data: V("e")}, WriteS{Path: S("c.txt"), Data: S("x"), Append: T()}, Pr(S("<"), ReadE{Path: S("c.txt")}, S(">")),
		Fn("blank", []ParamDecl{Pm("p", TString)}, nil, WriteS{Path: V("p"), Data: S(""), Append: T()}), Do(Call("blank", S("b.txt"))), WriteS{Path: S("b.txt"), Data: S("end"), Append: T()}, Pr(ReadE{Path: S("b.txt")}))))
	sh = append(sh, Shape{Name: "append-flag-symbolic", AssumeLits: smallLits(0, 1, 0), Prog: func(c *gosym.Ctx) *Program {
		v := SymStr(c, "v", 1, neutral)
		return Prog(Def("s", SR(v)), WriteS{Path: S("a.txt"), Data: S("one")}, WriteS{Path: S("a.txt"), Data: V("s"), Append: Op("==", L(0), N(1))}, Pr(ReadE{Path: S("a.txt")}))
	}})
	return sh
}

func CheckC17(r *Run) int {
	return checkShapes(r, c17Shapes(r.Tier == "quick"), eqOpts{Target: "bash", CheckHazards: true, CompareFiles: true, ByCharClass: true}, 20000,
		"histories of 1..2 (quick) / 1..3 (thorough) operations write/append/read/exists over two paths, top level and inside a function; first content = 1..2 symbolic bytes over printable ASCII + newline/tab, second content one neutral byte; the resulting file system and the printed reads are compared with a line-store model",
		"paths are concrete spellings (a.txt, b.txt, 'my file.txt'); read of a missing file is excluded")
}

// ---------------------------------------------------------------- C18: command calls

// probe stub: the external program prints its arguments, one per line framed by <>, and returns a symbolic status
func probeStub(c *gosym.Ctx) ExtStub {
	return func(sh *Shell, argv []gosym.Str, stdin gosym.Str) (gosym.Str, gosym.Value) {
		var parts []gosym.Str
		name, _ := argv[0].Go()
		parts = append(parts, gosym.Conc(name[strings.LastIndex(name, "/")+1:]+":"))
		for _, a := range argv[1:] {
			parts = append(parts, gosym.Conc("<"), a, gosym.Conc(">"))
		}
		if len(stdin.Segs) > 0 {
			parts = append(parts, gosym.Conc("|stdin="), stdin)
			// stdin already ends with a newline
			return gosym.Concat(parts...), exitOf(name)
		}
		parts = append(parts, gosym.Conc("\n"))
		return gosym.Concat(parts...), exitOf(name)
	}
}

func exitOf(name string) gosym.Value {
	switch {
	case strings.HasSuffix(name, "probe3"):
		return int64(3)
	case strings.HasSuffix(name, "probe200"):
		return int64(200)
	}
	return int64(0)
}

const probeScript = "#!/bin/bash\nprintf '%s:' \"$(basename \"$0\")\"\nfor a in \"$@\"; do printf '<%s>' \"$a\"; done\nif [ ! -t 0 ]; then in=\"$(cat)\"; if [ -n \"$in\" ]; then printf '|stdin=%s' \"$in\"; fi; fi\nprintf '\\n'\ncase \"$0\" in *probe3) exit 3;; *probe200) exit 200;; esac\nexit 0\n"

func c18Shapes(quick bool) []Shape {
	var sh []Shape
	pre := map[string]string{"probe": probeScript, "probe3": probeScript, "probe200": probeScript}
	setup := func(c *gosym.Ctx, in *Interp, shl *Shell) {
		stub := probeStub(c)
		shl.Stub = stub
		in.AppStub = func(in *Interp, name string, args []gosym.Str, stdin gosym.Str) (gosym.Str, *sym.Term) {
			out, st := stub(nil, append([]gosym.Str{gosym.Conc(name)}, args...), stdin)
			return out, c.B.Int(st.(int64), 64)
		}
	}
	maxArgs := 2
	if !quick {
		maxArgs = 5
	}
	argList := func(c *gosym.Ctx, v gosym.Str, n int) []Expr {
		// the value under test sits at a symbolic position among n arguments, literal or via a variable
		pos := c.Choose("pos", 0, max(n-1, 0))
		var args []Expr
		for i := 0; i < n; i++ {
			switch {
			case i == pos && c.Fork():
				args = append(args, StrLit{Val: v, Raw: true})
			case i == pos && c.Fork():
				args = append(args, V("s"))
			case i == pos:
				// computed argument: a concatenation that starts with a plain literal
				args = append(args, Op("+", S("p="), V("s")))
			default:
				args = append(args, []Expr{S("x"), V("t")}[c.Choose("other", 0, 1)])
			}
		}
		return args
	}
	mk := func(name string, body func(c *gosym.Ctx, v gosym.Str) []Stmt) {
		sh = append(sh, Shape{Name: name, Pre: pre, Setup: setup, Prog: func(c *gosym.Ctx) *Program {
			n := c.Choose("len", 0, 2)
			v := SymStr(c, "v", n, printableNoBackquote+"\t")
			return Prog(append([]Stmt{Def("s", StrLit{Val: v, Raw: true}), Def("t", S("tv"))}, body(c, v)...)...)
		}})
	}
	mk("call-statement", func(c *gosym.Ctx, v gosym.Str) []Stmt {
		n := c.Choose("nargs", 0, maxArgs)
		return []Stmt{Do(AppCallE{Calls: []AppOne{{Name: "./probe", Args: argList(c, v, n)}}}), Pr(S("after"))}
	})
	mk("capture", func(c *gosym.Ctx, v gosym.Str) []Stmt {
		n := c.Choose("nargs", 0, maxArgs)
		prog := []string{"./probe", "./probe3", "./probe200"}[c.Choose("prog", 0, 2)]
		return []Stmt{DefN([]string{"o", "e", "code"}, AppCallE{Calls: []AppOne{{Name: prog, Args: argList(c, v, n)}}}), Pr(S("["), V("o"), S("]"), S("["), V("e"), S("]"), V("code"))}
	})
	mk("pipeline", func(c *gosym.Ctx, v gosym.Str) []Stmt {
		k := c.Choose("stages", 2, 3)
		var calls []AppOne
		for i := 0; i < k; i++ {
			prog := []string{"./probe", "./probe3"}[c.Choose("prog", 0, 1)]
			var args []Expr
			if i == k-1 || c.Fork() {
				args = argList(c, v, 1)
			}
			calls = append(calls, AppOne{Name: prog, Args: args})
		}
		if c.Fork() {
			return []Stmt{Do(AppCallE{Calls: calls}), Pr(S("after"))}
		}
		return []Stmt{DefN([]string{"o", "e", "code"}, AppCallE{Calls: calls}), Pr(S("["), V("o"), S("]"), V("code"))}
	})
	// fixed argument lists around empty strings and blanks in literals
	for i, args := range [][]Expr{{S("")}, {S("a"), S(""), S("b")}, {S("a b")}, {S(" a")}, {S("a"), S("b c"), S("d")}, {S("*")}, {S("a;b")}, {S("a ")}, {S(" e ")}, {S("a"), S(" b"), S("c ")}, {S(" ")}} {
		args := args
		sh = append(sh, Shape{Name: fmt.Sprintf("literal-args-%d", i), Pre: pre, Setup: setup, Prog: func(c *gosym.Ctx) *Program {
			return Prog(Do(AppCallE{Calls: []AppOne{{Name: "./probe", Args: args}}}), DefN([]string{"o", "e", "code"}, AppCallE{Calls: []AppOne{{Name: "./probe3", Args: args}}}), Pr(V("o"), V("code")))
		}})
	}
	// arguments of pipeline stages are computed by calls with effects: stage order = evaluation order
	sh = append(sh, Shape{Name: "pipeline-argument-evaluation-order", Pre: pre, Setup: setup, Prog: func(c *gosym.Ctx) *Program {
		return Prog(Def("n", N(0)),
			Fn("tick", []ParamDecl{Pm("tag", TString)}, []Type{TString}, Set("n", Op("+", V("n"), N(1))), Pr(S("eval"), V("tag"), V("n")), Ret(Op("+", V("tag"), ItoaE{X: V("n")}))),
			Do(AppCallE{Calls: []AppOne{{Name: "./probe", Args: []Expr{Call("tick", S("first"))}}, {Name: "./probe", Args: []Expr{Call("tick", S("second"))}}}}),
			DefN([]string{"o", "e", "code"}, AppCallE{Calls: []AppOne{{Name: "./probe", Args: []Expr{Call("tick", S("a")), Call("tick", S("b"))}}, {Name: "./probe3", Args: []Expr{Call("tick", S("c"))}}, {Name: "./probe", Args: []Expr{Call("tick", S("d"))}}}}),
			Pr(V("o"), V("code"), V("n")))
	}})
	// results of program calls that are alive at the same time: nested calls as arguments, two calls in one print
	sh = append(sh, Shape{Name: "captured-results-alive-together", Pre: pre, Setup: setup, Prog: func(c *gosym.Ctx) *Program {
		one := func(name string, args ...Expr) Expr { return AppCallE{Calls: []AppOne{{Name: name, Args: args}}} }
		return Prog(
			DefN([]string{"o", "e", "code"}, one("./probe", one("./probe", S("first")), one("./probe3", S("second")))), Pr(V("o"), V("code")),
			Do(one("./probe", one("./probe", S("x")), S("mid"), AppCallE{Calls: []AppOne{{Name: "./probe", Args: []Expr{S("q")}}, {Name: "./probe3", Args: []Expr{S("r")}}}})),
			DefN([]string{"o2", "e2", "c2"}, AppCallE{Calls: []AppOne{{Name: "./probe", Args: []Expr{one("./probe", S("s1"))}}, {Name: "./probe200", Args: []Expr{one("./probe3", S("s2"))}}}}), Pr(V("o2"), V("c2")),
			Pr(one("./probe3", S("p")), one("./probe", S("q"))),
			Fn("both", []ParamDecl{Pm("a", TString), Pm("b", TString)}, []Type{TString}, DefN([]string{"fo", "fe", "fc"}, one("./probe", one("./probe", V("a")), one("./probe", V("b")), V("a"))), Ret(V("fo"))),
			Pr(Call("both", S("l"), S("r"))))
	}})
	// programs named by an identifier, and result variables that carry the name of the program they came from
	sh = append(sh, Shape{Name: "program-named-by-identifier", Pre: pre, Prog: func(c *gosym.Ctx) *Program {
		id := func(name string, args ...Expr) Expr {
			return AppCallE{Calls: []AppOne{{Name: name, Args: args, Ident: true}}}
		}
		return Prog(
			DefN([]string{"echo", "e1", "c1"}, id("echo", S("first"), S("call"))), DefN([]string{"out", "e2", "c2"}, id("echo", S("second"))), Pr(V("echo"), V("c1"), V("out"), V("c2")),
			DefN([]string{"t1", "t2", "t3"}, id("basename", S("/x/yy"))), Pr(S("["), V("t1"), S("]"), V("t3")),
			Def("basename", S("shadow")), DefN([]string{"u1", "u2", "u3"}, id("basename", S("/p/q"))), Pr(V("basename"), V("u1"), V("u3")),
			Do(id("echo", V("echo"), V("basename"))),
			Fn("f", []ParamDecl{Pm("dirname", TString)}, []Type{TString, TInt}, DefN([]string{"a", "b", "k"}, id("dirname", S("/m/n"))), DefN([]string{"a2", "b2", "k2"}, id("echo", V("dirname"))), Ret(Op("+", V("a"), V("a2")), V("k"))),
			DefN([]string{"r", "rk"}, Call("f", S("param"))), Pr(V("r"), V("rk")))
	}, Setup: func(c *gosym.Ctx, in *Interp, shl *Shell) {
		std := func(name string, args []gosym.Str) (gosym.Str, int64, bool) {
			switch name {
			case "echo":
				var parts []gosym.Str
				for i, a := range args {
					if i > 0 {
						parts = append(parts, gosym.Conc(" "))
					}
					parts = append(parts, a)
				}
				return gosym.Concat(append(parts, gosym.Conc("\n"))...), 0, true
			case "basename", "dirname":
				g, _ := args[0].Go()
				if name == "basename" {
					return gosym.Conc(g[strings.LastIndex(g, "/")+1:] + "\n"), 0, true
				}
				return gosym.Conc(g[:strings.LastIndex(g, "/")] + "\n"), 0, true
			}
			return gosym.Str{}, 0, false
		}
		shl.Stub = func(sh *Shell, argv []gosym.Str, stdin gosym.Str) (gosym.Str, gosym.Value) {
			name, _ := argv[0].Go()
			if out, st, ok := std(name, argv[1:]); ok {
				return out, st
			}
			return gosym.Str{}, int64(127)
		}
		in.AppStub = func(in *Interp, name string, args []gosym.Str, stdin gosym.Str) (gosym.Str, *sym.Term) {
			out, st, _ := std(name, args)
			return out, c.B.Int(st, 64)
		}
	}})
	mk("capture-in-function", func(c *gosym.Ctx, v gosym.Str) []Stmt {
		prog := []string{"./probe3", "./probe200", "./probe"}[c.Choose("prog", 0, 2)]
		return []Stmt{Fn("run", []ParamDecl{Pm("a", TString)}, []Type{TString, TInt}, DefN([]string{"o", "e", "code"}, AppCallE{Calls: []AppOne{{Name: "./probe", Args: []Expr{V("a")}}, {Name: prog, Args: []Expr{S("x")}}}}), Pr(V("e")), Ret(V("o"), V("code"))),
			DefN([]string{"ro", "rc"}, Call("run", V("s"))), Pr(S("["), V("ro"), S("]"), V("rc"))}
	})
	mk("capture-assign-existing", func(c *gosym.Ctx, v gosym.Str) []Stmt {
		return []Stmt{VarT("o", TString), VarT("e", TString), VarT("code", TInt), SetN([]string{"o", "e", "code"}, AppCallE{Calls: []AppOne{{Name: "./probe3", Args: argList(c, v, 1)}}}), Pr(V("o"), V("code"))}
	})
	return sh
}

func CheckC18(r *Run) int {
	return checkShapes(r, c18Shapes(r.Tier == "quick"), eqOpts{Target: "bash", CheckHazards: true, ByCharClass: true}, 20000,
		"programs are probe scripts that print their argument vector framed by <> and their standard input; 0..2 (quick) / 0..5 (thorough) arguments, the value under test (0..2 symbolic bytes over printable ASCII + tab) at a symbolic position, as a literal or via a variable; pipelines of 2..3 stages; exit statuses 0, 3, 200",
		"Bash only: the Batch counterpart (_ach through cmd /V:ON) is not applicable (no cmd.exe)")
}

var _ = fmt.Sprintf
