package checks

import (
	"fmt"
	"math/rand"
	"regexp"
	"strings"
	"time"

	"verif/engine/gosym"
	"verif/engine/sym"
)

// concrete token splitter for seed programs (Go-level tokens: '-' is always its own token)
var layoutTok = regexp.MustCompile("(?s)^(/\\*.*?\\*/|//[^\\n]*|`[^`]*`|\"(?:\\\\.|[^\"\\\\\\n])*\"|[0-9]+(?:\\.[0-9]+)?|[A-Za-z_][A-Za-z0-9_]*|==|!=|<=|>=|&&|\\|\\||:=|\\+=|-=|\\*=|/=|%=|\\+\\+|--|[^\\s])")

type layoutSeed struct {
	name string
	toks []string
	gaps []string // len(toks)+1
}

func splitLayout(name, src string) (layoutSeed, bool) {
	ls := layoutSeed{name: name}
	i := 0
	gap := ""
	for i < len(src) {
		c := src[i]
		if c == ' ' || c == '\t' || c == '\n' || c == '\r' {
			gap += string(c)
			i++
			continue
		}
		m := layoutTok.FindString(src[i:])
		if m == "" {
			return ls, false
		}
		i += len(m)
		if strings.HasPrefix(m, "//") || strings.HasPrefix(m, "/*") {
			// comments are layout
			gap += m
			continue
		}
		// a sign in prefix position is part of the number literal (no unary minus in the language)
		if n := len(ls.toks); n > 0 && ls.toks[n-1] == "-" && gap == "" && m[0] >= '0' && m[0] <= '9' {
			prefix := n == 1
			if n > 1 {
				p := ls.toks[n-2]
				prefix = !(isWordTok(p) && genTok(p) != "return" && genTok(p) != "case") && p != ")" && p != "]" && p[0] != '"' && p[0] != '`'
			}
			if prefix {
				ls.toks[n-1] = "-" + m
				continue
			}
		}
		ls.toks = append(ls.toks, m)
		ls.gaps = append(ls.gaps, gap)
		gap = ""
	}
	ls.gaps = append(ls.gaps, gap)
	return ls, len(ls.toks) > 0
}

func isWordTok(t string) bool {
	c := t[0]
	return c == '_' || (c >= 'a' && c <= 'z') || (c >= 'A' && c <= 'Z') || (c >= '0' && c <= '9')
}

func bracketTok(t string) bool { return strings.ContainsAny(t[:1], "()[]{},") }

var inlineMenu = []string{" ", "\t", "  ", " /*c*/ ", "", " /* a\n b */ "}

// continuesStatement: after these tokens a statement cannot end, so a block comment that spans lines is plain layout
// even under Go's rule that such a comment acts like a line break.
func continuesStatement(t string) bool {
	switch t {
	case "+", "-", "*", "/", "%", ",", "(", "[", "=", ":=", "==", "!=", "<", ">", "<=", ">=", "&&", "||", "!", "+=", "-=", "*=", "/=", "%=":
		return true
	}
	return false
}

var breakMenu = []string{"\n", "\n/* a\n b */\n", "\n\n", "\r\n", " \n", "\n\t\n", " // c\n", "\n// c\n", "\n/* c */\n", "\n\n\n", "\n// c\n// d\n", "\n\n// c\n\n"}

type layOutcome struct {
	Ctx    string
	Kind   string
	What   string
	Class  string
	Orig   string
	Relaid string
	Seed   string
}

// minusDigit: does the gap sit between a '-' and a following digit (known lexical coupling)?
func minusDigit(ls layoutSeed, g int) bool {
	return g > 0 && g < len(ls.toks) && ls.toks[g-1] == "-" && ls.toks[g][0] >= '0' && ls.toks[g][0] <= '9'
}

func CheckC12(r *Run) int {
	nat, err := BuildNative()
	if err != nil {
		fmt.Println("cannot build the repository natively:", err)
		return 2
	}
	r.Native = nat
	quick := r.Tier == "quick"
	rng := rand.New(rand.NewSource(r.Seed))
	var seeds []layoutSeed
	extra := []Seed{
		{"stmt-forms", "var a, b int = 1, 2\nfunc f(p int, q []int) (int, string) {\n\treturn p - 1, \"s\"\n}\nx, y := f(a, []int{b, 3})\nswitch x {\ncase 1:\n\tprint(y)\ndefault:\n\tprint(y + \"t\")\n}\nfor i, v := range []int{1, 2} {\n\tif i < v && !(v == 2) {\n\t\tcontinue\n\t} else if i >= 1 {\n\t\tbreak\n\t} else {\n\t\tx += i\n\t}\n}\nfor j := 0; j < 2; j++ {\n\tx--\n}\ns := \"ab\"\nprint(s[1], s[0:1], len(s), x % 2)\n"},
		{"import-group", "import (\n\tu \"u.tsh\"\n\tw \"w.tsh\"\n)\nprint(u.F(), w.G())\n"},
		{"import-single", "import u \"u.tsh\"\nprint(u.F())\n"},
		{"multi-line-literals", "usage := `line one\n  line two  \n\nend`\nhelp := `a\nb`\nprint(usage, len(usage))\nprint(help, len(help), usage == help)\n"},
		{"rejected-missing-return", "func f(a int) int {\n\tprint(a)\n}\nprint(f(1))\n"},
		{"rejected-wrong-return-count", "func g(a int) (int, string) {\n\tif a > 1 {\n\t\tprint(a)\n\t}\n\treturn a\n}\nx, y := g(1)\nprint(x, y)\n"},
		{"rejected-wrong-return-type", "func h() string {\n\tv := 1\n\treturn v\n}\nprint(h())\n"},
		{"rejected-undefined-variable", "a := 1\nif a == 1 {\n\tb := 2\n}\nprint(b)\n"},
		{"rejected-break-outside-loop", "a := 1\nif a == 1 {\n\tbreak\n}\n"},
		{"minus-forms", "a := 5\nb := a - 1\nc := -2\nd := a - -3\nprint(b, c, d, a -1)\n"},
	}
	for _, s := range append(RepoSeeds(), extra...) {
		if strings.Contains(s.Src, "@") || strings.Contains(s.Src, "input(") {
			continue
		}
		if quick && len(s.Src) > 330 && !isExtraSeed(s.Name) {
			continue
		}
		if ls, ok := splitLayout(s.Name, s.Src); ok {
			seeds = append(seeds, ls)
		}
	}
	type site struct{ seed, gap int }
	var sites []site
	for si, ls := range seeds {
		for g := range ls.gaps {
			sites = append(sites, site{si, g})
		}
	}
	rng.Shuffle(len(sites), func(i, j int) { sites[i], sites[j] = sites[j], sites[i] })
	// the hand-written statement-form seeds come first (a third of the sample)
	var pri, rest []site
	for _, st := range sites {
		if isExtraSeed(seeds[st.seed].name) {
			pri = append(pri, st)
		} else {
			rest = append(rest, st)
		}
	}
	sites = rest
	nSites, window := 70, 2
	if !quick {
		nSites, window = 600, 2
	}
	if nSites > len(sites) {
		nSites = len(sites)
	}
	sites = sites[:nSites]
	nSampled := len(sites)
	sites = append(append([]site{}, pri...), sites...) // every gap of the hand-written seeds, then the sample
	nPri := len(pri)
	var bads []layOutcome
	same, rejectedBoth := 0, 0
	st := r.Eng.Explore(func(c *gosym.Ctx) interface{} {
		mountStd(c)
		si := c.Choose("site", 0, len(sites)-1)
		s := sites[si]
		ls := seeds[s.seed]
		gaps := append([]string(nil), ls.gaps...)
		win := window
		if si < nPri {
			win = 1
		}
		for w := 0; w < win; w++ {
			g := s.gap + w
			if g >= len(gaps) {
				break
			}
			orig := gaps[g]
			hasBreak := strings.Contains(orig, "\n")
			switch {
			case g == 0:
				// leading layout: blank lines / comment lines / nothing
				gaps[g] = []string{"", "\n", "// c\n", "\n\n", "  \n"}[c.Choose("lead", 0, 4)]
			case g == len(gaps)-1:
				// trailing layout: presence of the final newline, trailing blanks
				gaps[g] = []string{"", "\n", "\n\n", " \n", "\r\n", "\n// c"}[c.Choose("trail", 0, 5)]
			case hasBreak:
				gaps[g] = breakMenu[c.Choose("break", 0, len(breakMenu)-1)]
			default:
				k := c.Choose("inline", 0, len(inlineMenu)-1)
				rep := inlineMenu[k]
				if rep == "" {
					l, rr := ls.toks[g-1], ls.toks[g]
					if !(bracketTok(l) || bracketTok(rr)) || orig == "" {
						rep = orig // removing the blank would merge tokens (or nothing to remove)
					}
				}
				if orig == "" && rep != "" && !(bracketTok(ls.toks[g-1]) || bracketTok(ls.toks[g]) || (!isWordTok(ls.toks[g-1]) || !isWordTok(ls.toks[g]))) {
					rep = orig
				}
				if orig == "" && (ls.toks[g-1] == "." || ls.toks[g] == "." || ls.toks[g-1] == "@") {
					rep = orig // qualified names and @prog stay glued
				}
				if strings.Contains(rep, "\n") && !continuesStatement(ls.toks[g-1]) {
					rep = " /* a b */ " // a comment with a line break only where the statement cannot end
					if orig == "" && (ls.toks[g-1] == "." || ls.toks[g] == "." || ls.toks[g-1] == "@") {
						rep = orig
					}
				}
				gaps[g] = rep
			}
		}
		crlf := c.Fork()
		var sb strings.Builder
		for i, t := range ls.toks {
			sb.WriteString(gaps[i])
			sb.WriteString(t)
		}
		sb.WriteString(gaps[len(gaps)-1])
		relaid := sb.String()
		if crlf {
			relaid = strings.ReplaceAll(strings.ReplaceAll(relaid, "\r\n", "\n"), "\n", "\r\n")
		}
		var ob strings.Builder
		for i, t := range ls.toks {
			ob.WriteString(ls.gaps[i])
			ob.WriteString(t)
		}
		ob.WriteString(ls.gaps[len(ls.gaps)-1])
		orig := ob.String()
		c.FS.AddFile("/work/orig/main.tsh", gosym.Conc(orig))
		c.FS.AddFile("/work/new/main.tsh", gosym.Conc(relaid))
		for _, d := range []string{"orig", "new"} {
			c.FS.AddFile("/work/"+d+"/u.tsh", gosym.Conc(layoutAux["u.tsh"]))
			c.FS.AddFile("/work/"+d+"/w.tsh", gosym.Conc(layoutAux["w.tsh"]))
		}
		for _, target := range []string{"bash", "batch"} {
			var s1, s2 gosym.Str
			var e1, e2 bool
			p1 := c.Try(func() { s1, _, e1 = c.Transpile("/work/orig/main.tsh", target) })
			p2 := c.Try(func() { s2, _, e2 = c.Transpile("/work/new/main.tsh", target) })
			what := ""
			switch {
			case (p1 != nil) != (p2 != nil):
				what = "one layout panics"
			case p1 != nil:
			case e1 != e2:
				what = fmt.Sprintf("accepted=%v for the original layout, accepted=%v after re-layout", !e1, !e2)
			case !e1:
				eq := c.StrEq(s1, s2)
				if !eq.IsTrue() {
					if res, _ := c.Sat(c.B.Not(eq)); res == sym.Sat {
						what = "emitted script differs"
					}
				}
			}
			if what != "" {
				ctx := ""
				for g := range gaps {
					if strings.ReplaceAll(gaps[g], "\r", "") != strings.ReplaceAll(ls.gaps[g], "\r", "") {
						l, rr := "BOF", "EOF"
						if g > 0 {
							l = genTok(ls.toks[g-1])
						}
						if g < len(ls.toks) {
							rr = genTok(ls.toks[g])
						}
						ctx = l + "_" + rr
						break
					}
				}
				return layOutcome{Kind: "bad", What: what + " (" + target + ")", Orig: orig, Relaid: relaid, Seed: ls.name, Ctx: ctx}
			}
			if e1 {
				return layOutcome{Kind: "both-rejected"}
			}
		}
		return layOutcome{Kind: "same"}
	}, gosym.ExploreOpts{Workers: r.Workers, TimeoutMS: 10000, Budget: gosym.Budget{MaxPaths: 3_000_000, Steps: 60_000_000}, OnPath: func(pr *gosym.PathResult) {
		o, ok := pr.Ret.(layOutcome)
		if !ok {
			return
		}
		switch o.Kind {
		case "same":
			same++
		case "both-rejected":
			rejectedBoth++
		case "bad":
			if len(bads) < 400 {
				bads = append(bads, o)
			}
		}
	}})
	r.Absorb("H_C12_relayout", st, fmt.Sprintf("every gap of %d hand-written statement-form seeds incl. multi-line string literals (%d gaps, one gap at a time) plus %d sampled gap positions over %d seed programs with a window of %d consecutive gaps re-laid out from menus (inline: %q, line break: %q, leading/trailing variants), LF or CRLF", 5, nPri, nSampled, len(seeds), window, inlineMenu, breakMenu))
	// Harness B: symbolic white space. One gap of a hand-written seed (or of a sampled site) receives k symbolic bytes over
	// {blank, tab} before and/or after its present content; acceptance and emitted bytes must not depend on them.
	wsSites := append([]site{}, sites[:nPri]...)
	extraWS := 40
	if !quick {
		extraWS = 150
	}
	for i := nPri; i < len(sites) && i < nPri+extraWS; i++ {
		wsSites = append(wsSites, sites[i])
	}
	st = r.Eng.Explore(func(c *gosym.Ctx) interface{} {
		mountStd(c)
		s := wsSites[c.Choose("site", 0, len(wsSites)-1)]
		ls := seeds[s.seed]
		g := s.gap
		orig := ls.gaps[g]
		// blanks may only be added where they cannot split or create a token: not inside qualified names / @prog
		if g > 0 && g < len(ls.toks) && orig == "" {
			l, rr := ls.toks[g-1], ls.toks[g]
			if l == "." || rr == "." || l == "@" || (l == "-" && rr[0] >= '0' && rr[0] <= '9') {
				return layOutcome{Kind: "same"}
			}
			// two-character operators were split into tokens by the splitter only if they are separate tokens; "a++", "x[1]" etc. stay legal with blanks
			if (l == "+" && rr == "+") || (l == "-" && rr == "-") {
				return layOutcome{Kind: "same"}
			}
		}
		var gapStr gosym.Str
		siteIdx := 0
		for i := range wsSites {
			if wsSites[i] == s {
				siteIdx = i
			}
		}
		mode := c.Choose("insertion", 0, 2)
		if mode != 0 && siteIdx >= nPri+40 {
			// symbolic comments: every gap of the hand-written seeds plus 40 sampled gaps in both tiers
			return layOutcome{Kind: "same"}
		}
		switch mode {
		case 0:
			k := c.Choose("blanks", 1, 2)
			var sy []gosym.Str
			for i := 0; i < k; i++ {
				b := c.B.ByteVar(fmt.Sprintf("w%d", i), " \t")
				c.S.Declare(b)
				sy = append(sy, gosym.ByteStr(b))
			}
			symws := gosym.Concat(sy...)
			if strings.Contains(orig, "\n") && c.Fork() {
				gapStr = gosym.Concat(gosym.Conc(orig), symws) // indentation after the line break
			} else {
				gapStr = gosym.Concat(symws, gosym.Conc(orig)) // blanks between tokens / trailing blanks before the line break
			}
		case 1:
			// a block comment whose content is 0..3 symbolic bytes (no terminator inside): plain layout between tokens
			k := c.Choose("comment-bytes", 0, 3)
			var sy []gosym.Str
			var bs []*sym.Term
			for i := 0; i < k; i++ {
				b := c.B.ByteVar(fmt.Sprintf("cm%d", i), "a*/ \"")
				c.S.Declare(b)
				bs = append(bs, b)
				sy = append(sy, gosym.ByteStr(b))
			}
			for i := 0; i+1 < k; i++ {
				c.AssumeUnchecked(c.B.Not(c.B.And(c.B.Eq(bs[i], c.B.BV('*', 8)), c.B.Eq(bs[i+1], c.B.BV('/', 8)))))
			}
			gapStr = gosym.Concat(gosym.Conc(" /*"), gosym.Concat(sy...), gosym.Conc("*/ "), gosym.Conc(orig))
		default:
			// a line comment of 0..3 symbolic bytes in front of a line break
			if !strings.Contains(orig, "\n") {
				return layOutcome{Kind: "same"}
			}
			k := c.Choose("comment-bytes", 0, 3)
			var sy []gosym.Str
			for i := 0; i < k; i++ {
				b := c.B.ByteVar(fmt.Sprintf("lc%d", i), "a*/ \"`")
				c.S.Declare(b)
				sy = append(sy, gosym.ByteStr(b))
			}
			gapStr = gosym.Concat(gosym.Conc(" //"), gosym.Concat(sy...), gosym.Conc(orig))
		}
		var parts []gosym.Str
		var ob strings.Builder
		for i, t := range ls.toks {
			if i == g {
				parts = append(parts, gapStr)
			} else {
				parts = append(parts, gosym.Conc(ls.gaps[i]))
			}
			parts = append(parts, gosym.Conc(t))
			ob.WriteString(ls.gaps[i])
			ob.WriteString(t)
		}
		last := len(ls.gaps) - 1
		if g == last {
			parts = append(parts, gapStr)
		} else {
			parts = append(parts, gosym.Conc(ls.gaps[last]))
		}
		ob.WriteString(ls.gaps[last])
		relaid := gosym.Concat(parts...)
		origSrc := ob.String()
		c.FS.AddFile("/work/orig/main.tsh", gosym.Conc(origSrc))
		c.FS.AddFile("/work/new/main.tsh", relaid)
		for _, d := range []string{"orig", "new"} {
			c.FS.AddFile("/work/"+d+"/u.tsh", gosym.Conc(layoutAux["u.tsh"]))
			c.FS.AddFile("/work/"+d+"/w.tsh", gosym.Conc(layoutAux["w.tsh"]))
		}
		for _, target := range []string{"bash", "batch"} {
			var s1, s2 gosym.Str
			var e1, e2 bool
			p1 := c.Try(func() { s1, _, e1 = c.Transpile("/work/orig/main.tsh", target) })
			p2 := c.Try(func() { s2, _, e2 = c.Transpile("/work/new/main.tsh", target) })
			what := ""
			var model map[string]uint64
			switch {
			case (p1 != nil) != (p2 != nil):
				what = "one layout panics"
			case p1 != nil:
			case e1 != e2:
				what = fmt.Sprintf("accepted=%v for the original layout, accepted=%v with symbolic blanks", !e1, !e2)
			case !e1:
				eq := c.StrEq(s1, s2)
				if !eq.IsTrue() {
					if res, m := c.Sat(c.B.Not(eq)); res == sym.Sat {
						what, model = "emitted script differs", m
					} else if res == sym.Unknown {
						c.Unsupported("solver unknown on script equality")
					}
				}
			}
			if what != "" {
				if model == nil {
					_, model = c.Sat()
				}
				l, rr := "BOF", "EOF"
				if g > 0 {
					l = genTok(ls.toks[g-1])
				}
				if g < len(ls.toks) {
					rr = genTok(ls.toks[g])
				}
				return layOutcome{Kind: "bad", What: what + " (" + target + ", symbolic blanks)", Orig: origSrc, Relaid: ModelStr(relaid, model), Seed: ls.name, Ctx: l + "_" + rr}
			}
			if e1 {
				return layOutcome{Kind: "both-rejected"}
			}
		}
		return layOutcome{Kind: "same"}
	}, gosym.ExploreOpts{Workers: r.Workers, TimeoutMS: 10000, Budget: gosym.Budget{MaxPaths: 3_000_000, Steps: 60_000_000}, OnPath: func(pr *gosym.PathResult) {
		o, ok := pr.Ret.(layOutcome)
		if !ok {
			return
		}
		switch o.Kind {
		case "same":
			same++
		case "both-rejected":
			rejectedBoth++
		case "bad":
			if len(bads) < 800 {
				bads = append(bads, o)
			}
		}
	}})
	r.Absorb("H_C12_symbolic_blanks", st, fmt.Sprintf("%d gap positions (every gap of the hand-written seeds, %d sampled): 1..2 symbolic bytes over {blank, tab} inserted before the gap's content or, at line breaks, after it (indentation); or a block comment with 0..3 symbolic content bytes over {a * / blank \"} (no terminator inside); or, before a line break, a line comment with 0..3 symbolic bytes; the lexer runs on the symbolic bytes", len(wsSites), len(wsSites)-nPri))
	// classify and confirm
	seen := map[string]bool{}
	validated := 0
	for _, b := range bads {
		b.Class = classifyLayout(b)
		if seen[b.Class] {
			continue
		}
		seen[b.Class] = true
		res, err := nat.RunDrv([]DrvReq{
			{Op: "transpile", Files: withAux(b.Orig), Main: "main.tsh", Target: "bash"},
			{Op: "transpile", Files: withAux(b.Relaid), Main: "main.tsh", Target: "bash"},
			{Op: "transpile", Files: withAux(b.Orig), Main: "main.tsh", Target: "batch"},
			{Op: "transpile", Files: withAux(b.Relaid), Main: "main.tsh", Target: "batch"},
		}, 30*time.Second)
		validated++
		if err == nil && res[0].HasErr == res[1].HasErr && res[0].Script == res[1].Script && res[2].HasErr == res[3].HasErr && res[2].Script == res[3].Script && res[0].Panic == res[1].Panic {
			r.Spurious("layout candidate did not reproduce natively: " + b.What)
			continue
		}
		if r.IsKnown(b.Class) {
			r.HitKnown(b.Class, b.Relaid)
			continue
		}
		dir := r.WriteReplay(b.Class, map[string]string{"original.tsh": b.Orig, "relaid.tsh": b.Relaid, "finding.txt": "property C12\nclass " + b.Class + "\nseed " + b.Seed + "\n" + b.What + "\n"})
		r.AddViolation(Violation{Class: b.Class, What: fmt.Sprintf("seed %s: %s; re-laid-out source %q", b.Seed, b.What, b.Relaid), Replay: dir})
	}
	r.Cov("states", same+rejectedBoth)
	r.Cov("layouts_equivalent", same)
	r.Cov("layouts_rejected_like_original", rejectedBoth)
	r.Cov("traces_validated_against_impl", validated)
	r.AddSample(map[string]interface{}{"seed": seeds[sites[0].seed].name, "gap": sites[0].gap, "relayout": "window of gaps replaced from the menus, CRLF on/off"})
	r.Assume("token-preserving re-layouts only: blanks are removed only next to brackets/commas, and added only where the two tokens cannot merge")
	r.Assume("error texts are not compared, only acceptance and the emitted bytes")
	return r.Finish("model_checking")
}

// classifyLayout names the layout feature that differs between the two sources.
func classifyLayout(b layOutcome) string {
	o, n := b.Orig, b.Relaid
	feature := "other"
	switch {
	case strings.Contains(n, "\r\n") && !strings.Contains(o, "\r\n") && strings.ReplaceAll(n, "\r\n", "\n") == o:
		feature = "crlf-only"
	case strings.Contains(n, "/*") && !strings.Contains(o, "/*"):
		feature = "block-comment-in-gap"
	case strings.Contains(n, "// c") && !strings.Contains(o, "// c"):
		feature = "line-comment-at-break"
	case strings.Count(n, "\n") > strings.Count(o, "\n"):
		feature = "extra-blank-line"
	case strings.Count(n, "\n") < strings.Count(o, "\n"):
		feature = "fewer-newlines"
	case len(n) < len(o):
		feature = "blank-removed"
	case len(n) > len(o):
		feature = "blank-added"
	}
	ctx := b.Ctx
	if ctx == "" {
		ctx = "line-endings"
	}
	kind := "script"
	if strings.Contains(b.What, "accepted=") {
		kind = "accept"
	}
	_ = feature
	return fmt.Sprintf("C12.%s.between(%s)", kind, ctx)
}

// genTok generalises a token for classification.
func genTok(t string) string {
	c := t[0]
	switch {
	case c == '"' || c == '`':
		return "STR"
	case c >= '0' && c <= '9':
		return "NUM"
	case isWordTok(t):
		switch t {
		case "import", "var", "func", "return", "if", "else", "switch", "case", "default", "for", "range", "break", "continue":
			return t
		}
		return "ID"
	}
	return t
}

var layoutAux = map[string]string{"u.tsh": "func F() int {\n\treturn 1\n}\n", "w.tsh": "func G() int {\n\treturn 2\n}\n"}

func withAux(main string) map[string]string {
	return map[string]string{"main.tsh": main, "u.tsh": layoutAux["u.tsh"], "w.tsh": layoutAux["w.tsh"]}
}

func isExtraSeed(n string) bool {
	return n == "stmt-forms" || n == "minus-forms" || n == "multi-line-literals" || strings.HasPrefix(n, "rejected-") || n == "import-group" || n == "import-single"
}
