package checks

import (
	"os"

	"verif/engine/gosym"
	. "verif/engine/oracle"
)

func readFile(p string) (string, error) {
	b, err := os.ReadFile(p)
	return string(b), err
}

// small constructors for program shapes

func L(k int) Expr                  { return IntLit{Marker: k} }
func N(v int64) Expr                { return IntLit{Marker: -1, Val: v} }
func V(n string) Expr               { return Var{Name: n} }
func S(s string) Expr               { return StrLit{Val: gosym.Conc(s)} }
func SR(s gosym.Str) Expr           { return StrLit{Val: s} }
func T() Expr                       { return BoolLit{Val: true} }
func F() Expr                       { return BoolLit{Val: false} }
func P(e Expr) Expr                 { return Paren{X: e} }
func NOT(e Expr) Expr               { return Not{X: e} }
func Call(f string, a ...Expr) Expr { return CallE{Fn: f, Args: a} }

func Op(op string, l, r Expr) Expr {
	switch op {
	case "+", "-", "*", "/", "%":
		return Bin{Op: op, L: l, R: r}
	case "==", "!=", "<", "<=", ">", ">=":
		return Cmp{Op: op, L: l, R: r}
	case "&&", "||":
		return Logic{Op: op, L: l, R: r}
	}
	panic("Op: " + op)
}

func Def(name string, e Expr) Stmt         { return Define{Names: []string{name}, Vals: []Expr{e}} }
func DefN(names []string, es ...Expr) Stmt { return Define{Names: names, Vals: es} }
func VarT(name string, t Type) Stmt        { return Define{Names: []string{name}, VarKw: true, Type: &t} }
func VarTV(name string, t Type, e Expr) Stmt {
	return Define{Names: []string{name}, VarKw: true, Type: &t, Vals: []Expr{e}}
}
func Set(name string, e Expr) Stmt         { return Assign{Names: []string{name}, Vals: []Expr{e}} }
func SetN(names []string, es ...Expr) Stmt { return Assign{Names: names, Vals: es} }
func OpSet(name, op string, e Expr) Stmt   { return OpAssign{Name: name, Op: op, Val: e} }
func Inc(name string) Stmt                 { return IncDec{Name: name, Inc: true} }
func Dec(name string) Stmt                 { return IncDec{Name: name, Inc: false} }
func Pr(es ...Expr) Stmt                   { return Print{Args: es} }
func IfS(c Expr, body ...Stmt) If          { return If{Conds: []Expr{c}, Blocks: [][]Stmt{body}} }
func (b Blk) stmts() []Stmt                { return []Stmt(b) }

type Blk []Stmt

func IfElse(c Expr, then Blk, els Blk) Stmt {
	return If{Conds: []Expr{c}, Blocks: [][]Stmt{then}, Else: els}
}
func IfChain(conds []Expr, blocks []Blk, els Blk) Stmt {
	x := If{Conds: conds}
	for _, b := range blocks {
		x.Blocks = append(x.Blocks, []Stmt(b))
	}
	if els != nil {
		x.Else = []Stmt(els)
	}
	return x
}
func For3(init Stmt, cond Expr, post Stmt, body ...Stmt) Stmt {
	return For{Kind: 2, Init: init, Cond: cond, Post: post, Body: body}
}
func ForC(cond Expr, body ...Stmt) Stmt { return For{Kind: 1, Cond: cond, Body: body} }
func ForEver(body ...Stmt) Stmt         { return For{Kind: 0, Body: body} }
func Fn(name string, params []ParamDecl, rets []Type, body ...Stmt) Stmt {
	return FuncDef{Name: name, Params: params, Rets: rets, Body: body}
}
func Pm(name string, t Type) ParamDecl { return ParamDecl{Name: name, Type: t} }
func Ret(es ...Expr) Stmt              { return Return{Vals: es} }
func Do(e Expr) Stmt                   { return ExprStmt{X: e} }
func Prog(body ...Stmt) *Program       { return &Program{Body: body} }

// symbolic string of n bytes over an alphabet
func SymStr(c *gosym.Ctx, name string, n int, alphabet string) gosym.Str {
	var parts []gosym.Str
	for i := 0; i < n; i++ {
		b := c.B.ByteVar(name+"_"+string(rune('0'+i)), alphabet)
		c.S.Declare(b)
		parts = append(parts, gosym.ByteStr(b))
	}
	return gosym.Concat(parts...)
}

const neutral = "abcxyzABZ019_ .,:"
