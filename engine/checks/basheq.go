package checks

import (
	"fmt"
	"os"
	"sort"
	"strconv"
	"strings"
	"time"

	"verif/engine/gosym"
	"verif/engine/oracle"
	"verif/engine/sym"
)

// Shape is one program shape: structure concrete, values symbolic.
type Shape struct {
	Name  string
	Prog  func(c *gosym.Ctx) *oracle.Program // built per path (may use c.Choose for symbolic choices)
	Files map[string]string                  // extra source files (imports)
	Stdin []string
	Pre   map[string]string // files present before the script runs
	Setup func(c *gosym.Ctx, in *oracle.Interp, sh *oracle.Shell)
	// AssumeLits constrains the symbolic literals (e.g. small ranges for loop bounds / indices).
	AssumeLits   func(c *gosym.Ctx)
	Tag          string                                        // known-finding class suggestion for shape-level defects
	Mods         func(c *gosym.Ctx) map[string]*oracle.Program // imported files (path as written in the import)
	Init         func(c *gosym.Ctx)                            // runs before the real code (e.g. hash-prefix classes)
	ExpectReject bool                                          // the program is illegal: transpilation must fail
	Concretize   func(o *eqOutcome, m map[string]uint64)       // fills stdin / pre-existing files of a counterexample
}

type eqOutcome struct {
	Shape        string
	Kind         string // ok | excluded | inconclusive | diff
	Why          string
	Diff         string
	Class        string
	Src          string // concrete source of the counterexample
	Files        map[string]string
	Expected     string
	ExpCode      int
	ExpFiles     map[string]string
	Hazard       bool
	Funcs        int
	SymVars      int
	Syntactic    bool        // all obligations discharged without a solver call
	More         []eqOutcome // further counterexamples on the same path (one per character class)
	Sub          string      // character class of the data bytes
	Data         string
	Stdin        string
	Pre          map[string]string
	ExpectReject bool
	Probe        bool // not a counterexample found by the solver: an instance of a path ShSem could not interpret
	PerClass     bool // probe instances enumerated per character class: classified like solver-found counterexamples
}

type eqOpts struct {
	Target       string
	CheckHazards bool
	CompareFiles bool
	ByCharClass  bool // enumerate counterexamples per character class of the symbolic data bytes v_*
	Stub         oracle.ExtStub
	// Twin: reachability witness of the harness. The reference output is perturbed on purpose; the path must then end
	// in a difference. A twin that still "holds" means the harness never reaches or never checks its assertion.
	Twin bool
}

// concretizeSource renders the program text under a model: symbolic bytes take their
// model value, marker literals are replaced by the model value of their variable.
func concretizeSource(src gosym.Str, m map[string]uint64) string {
	s := ModelStr(src, m)
	for k := 0; k < 64; k++ {
		mt := oracle.MarkerText(k)
		if strings.Contains(s, mt) {
			v := int64(m[fmt.Sprintf("lit%d", k)])
			s = strings.ReplaceAll(s, mt, strconv.FormatInt(v, 10))
		}
	}
	return s
}

// bashEquiv runs one path of: render -> real front-end + Bash back-end (symbolically) -> ShSem,
// against RefTSH evaluation of the same AST, and looks for values on the path where they differ.
func bashEquiv(r *Run, c *gosym.Ctx, sh Shape, o eqOpts) (out eqOutcome) {
	out.Shape = sh.Name
	prog := sh.Prog(c)
	src := oracle.Render(prog)
	c.FS.AddFile("/work/main.tsh", src)
	for p, content := range sh.Files {
		c.FS.AddFile("/work/"+p, gosym.Conc(content))
	}
	modRopes := map[string]gosym.Str{}
	var mods map[string]*oracle.Program
	if sh.Mods != nil {
		mods = sh.Mods(c)
		for p, mp := range mods {
			modRopes[p] = oracle.Render(mp)
			c.FS.AddFile("/work/"+p, modRopes[p])
		}
	}
	mountStd(c)
	if sh.Init != nil {
		sh.Init(c)
	}
	if sh.AssumeLits != nil {
		sh.AssumeLits(c)
	}
	// reference evaluation
	in := oracle.NewInterp(c)
	if o.Target == "batch" {
		in.Bits = 32
	}
	in.SetFiles(mods)
	shl := oracle.NewShell(c)
	shl.Stub = o.Stub
	for _, l := range sh.Stdin {
		in.Stdin = append(in.Stdin, gosym.Conc(l))
		shl.Stdin = append(shl.Stdin, gosym.Conc(l))
	}
	for p, content := range sh.Pre {
		in.Files[p] = gosym.Conc(content)
		shl.Files[p] = gosym.Conc(content)
	}
	if sh.Setup != nil {
		sh.Setup(c, in, shl)
	}
	excluded, refUnsup := "", ""
	if !sh.ExpectReject {
		func() {
			defer func() {
				if rec := recover(); rec != nil {
					switch x := rec.(type) {
					case oracle.Excluded:
						excluded = x.Why
					case oracle.RefUnsupported:
						refUnsup = x.Msg
					default:
						panic(rec)
					}
				}
			}()
			in.Run(prog)
		}()
	}
	if excluded != "" {
		out.Kind, out.Why = "excluded", excluded
		return
	}
	if refUnsup != "" {
		out.Kind, out.Why = "inconclusive", "reference: "+refUnsup
		return
	}
	refOut := gosym.Concat(in.Out...)
	if o.Twin {
		refOut = gosym.Concat(refOut, gosym.Conc("<twin>\n"))
	}
	mkOutcome := func(diff string, m map[string]uint64) eqOutcome {
		x := eqOutcome{Shape: sh.Name, Kind: "diff", Diff: diff}
		x.Src = concretizeSource(src, m)
		x.Files = sh.Files
		if len(modRopes) > 0 {
			x.Files = map[string]string{}
			for p, c := range sh.Files {
				x.Files[p] = c
			}
			for p, rp := range modRopes {
				x.Files[p] = concretizeSource(rp, m)
			}
		}
		x.Expected = ModelStr(refOut, m)
		x.ExpCode = int(in.Exit)
		if in.LazyRead {
			// the program reads a variable and then, in the same statement, calls a function that assigns it: a
			// recorded defect class of its own (the emitted statement sees the new value)
			x.Sub = "variable-read-before-modifying-call"
		}
		if in.BreakInSwitch {
			// a break executed inside a switch clause: recorded defect class (the emitted break acts on the enclosing
			// loop, or is an error outside one)
			x.Sub = "break-inside-switch"
		}
		if o.CompareFiles {
			x.ExpFiles = map[string]string{}
			for p, v := range in.Files {
				x.ExpFiles[p] = ModelStr(v, m)
			}
		}
		if sh.Concretize != nil {
			sh.Concretize(&x, m)
		}
		return x
	}
	finish := func(diff string, extra ...*sym.Term) bool {
		res, m := c.Sat(extra...)
		if res == sym.Unknown {
			out.Kind, out.Why = "inconclusive", "solver unknown on final assertion"
			return true
		}
		if res != sym.Sat {
			return false
		}
		first := mkOutcome(diff, m)
		if !o.ByCharClass {
			more := out.More
			out = first
			out.More = more
			return true
		}
		// enumerate the character classes of the data bytes for which the violation exists
		var data []*sym.Term
		for _, v := range c.B.Vars {
			if v.W == 8 && strings.HasPrefix(v.Name, "v_") {
				data = append(data, v)
			}
		}
		B := c.B
		const plainChars = "abcdefghijklmnopqrstuvwxyzABCDEFGHIJKLMNOPQRSTUVWXYZ0123456789"
		inSet := func(d *sym.Term, chars string) *sym.Term {
			var alts []*sym.Term
			for i := 0; i < len(chars); i++ {
				alts = append(alts, B.Eq(d, B.BV(uint64(chars[i]), 8)))
			}
			return B.Or(alts...)
		}
		witnesses := func(sub string, cond *sym.Term) bool {
			found := false
			exact := B.True
			for k := 0; k < 3; k++ {
				r2, m2 := c.Sat(append(append([]*sym.Term{}, extra...), cond, exact)...)
				if r2 != sym.Sat {
					break
				}
				found = true
				var vals []byte
				var same []*sym.Term
				for _, d := range data {
					vals = append(vals, byte(m2[d.Name]))
					same = append(same, B.Eq(d, B.BV(m2[d.Name], 8)))
				}
				x := mkOutcome(diff, m2)
				x.Sub = sub
				x.Data = string(vals)
				if sh.Concretize != nil {
					sh.Concretize(&x, m2)
				}
				out.More = append(out.More, x)
				exact = B.And(exact, B.Not(B.And(same...)))
			}
			return found
		}
		if len(data) == 0 {
			out.More = append(out.More, first)
		} else {
			// per class: first values that consist of this class and ordinary characters only, then mixtures
			for _, cl := range append(append([]charClass{}, charClasses...), charClass{"plain", ""}) {
				var pure, some []*sym.Term
				for _, d := range data {
					pure = append(pure, inSet(d, cl.chars+plainChars))
					if cl.chars != "" {
						some = append(some, inSet(d, cl.chars))
					}
				}
				cond := B.And(pure...)
				if cl.chars != "" {
					cond = B.And(cond, B.Or(some...))
				}
				witnesses(cl.name, cond)
			}
			// violations that need characters of two classes at once
			mixed := B.True
			for _, cl := range charClasses {
				var pure []*sym.Term
				for _, d := range data {
					pure = append(pure, inSet(d, cl.chars+plainChars))
				}
				mixed = B.And(mixed, B.Not(B.And(pure...)))
			}
			// ... of which mixtures of layout characters only (blank, tab, newline) are a class of their own
			var layout []*sym.Term
			for _, d := range data {
				layout = append(layout, inSet(d, " \t\n"+plainChars))
			}
			onlyLayout := B.And(layout...)
			witnesses("whitespace-mix", B.And(mixed, onlyLayout))
			witnesses("mixed-classes", B.And(mixed, B.Not(onlyLayout)))
		}
		more := out.More
		out = first
		out.More = more
		return true
	}
	// the real code; if the engine cannot interpret it on this path, one concrete instance is probed natively
	c.ProbeFn = func(m map[string]uint64) interface{} {
		const why = "the engine cannot interpret the real code on this path: concrete probe"
		if o.ByCharClass {
			// one instance per character class of the data bytes, classified like a solver-found counterexample
			// (so that a class listed as known stays a known finding)
			saved := out
			if finish(why+" of one instance per character class") && out.Kind == "diff" {
				x := out
				out = saved
				x.Probe, x.PerClass = true, true
				for i := range x.More {
					x.More[i].Probe, x.More[i].PerClass = true, true
				}
				return x
			}
			out = saved
		}
		x := mkOutcome(why+" of one instance", m)
		x.Probe = true
		return x
	}
	var script, errText gosym.Str
	var hasErr bool
	target := "bash"
	if o.Target == "batch" {
		target = "batch"
	}
	gp := c.Try(func() { script, errText, hasErr = c.Transpile("/work/main.tsh", target) })
	c.ProbeFn = nil
	if sh.ExpectReject {
		if gp != nil {
			out.Kind, out.Diff = "diff", "transpilation panicked: "+gp.Msg
		} else if hasErr {
			out.Kind = "ok"
		} else {
			out.Kind, out.Diff = "diff", "illegal program accepted"
		}
		if out.Kind == "diff" {
			_, m := c.Sat()
			out.Src = concretizeSource(src, m)
			out.Files = map[string]string{}
			for p, rp := range modRopes {
				out.Files[p] = concretizeSource(rp, m)
			}
			out.ExpectReject = true
		}
		return
	}
	if gp != nil {
		finish("transpilation panicked: " + gp.Msg)
		return
	}
	if hasErr {
		finish("well-typed program rejected: " + errText.String())
		return
	}
	// emitted script under the shell semantics
	var shOut gosym.Str
	var shStatus gosym.Value
	shUnsup := ""
	func() {
		defer func() {
			if rec := recover(); rec != nil {
				if x, ok := rec.(oracle.ShUnsupported); ok {
					shUnsup = x.Msg
					return
				}
				if x, ok := rec.(oracle.BatUnsupported); ok {
					shUnsup = x.Msg
					return
				}
				panic(rec)
			}
		}()
		if o.Target == "batch" {
			bs := oracle.NewBatShell(c)
			for _, l := range sh.Stdin {
				bs.Stdin = append(bs.Stdin, gosym.Conc(l))
			}
			for p, content := range sh.Pre {
				bs.Files[p] = gosym.Conc(content)
			}
			shOut, shStatus = bs.RunScript(script)
			shl.Err = bs.Err
			return
		}
		shOut, shStatus = shl.RunScript(script)
	}()
	var hazardAny *sym.Term
	if o.CheckHazards {
		var hs []*sym.Term
		what := ""
		for _, h := range shl.Hazards {
			if h.Cond.IsFalse() {
				continue
			}
			hs = append(hs, h.Cond)
			if what == "" {
				what = h.What
			}
		}
		if len(hs) > 0 {
			hazardAny = c.B.Or(hs...)
			if !o.ByCharClass || shUnsup != "" {
				if finish("data byte is shell-active: "+what, hazardAny) {
					out.Hazard = true
					return
				}
				hazardAny = nil
			}
		}
	}
	if strings.Contains(shUnsup, "step budget exceeded") {
		// the reference terminated on this path but the script did not within 200000 shell steps
		if finish("script does not terminate within the step budget") {
			return
		}
	}
	if shUnsup != "" {
		// The script uses something outside the modelled Bash subset (for instance after a refactoring of a
		// template). The path cannot be decided symbolically; one concrete instance of it is probed on the real bash.
		if o.ByCharClass {
			if finish("ShSem cannot interpret the script ("+shUnsup+"): concrete probe of one instance per character class") && out.Kind == "diff" {
				out.Probe, out.PerClass = true, true
				for i := range out.More {
					out.More[i].Probe, out.More[i].PerClass = true, true
				}
				return
			}
		}
		res, m := c.Sat()
		if res == sym.Sat {
			out = mkOutcome("ShSem cannot interpret the script ("+shUnsup+"): concrete probe of one instance", m)
			out.Probe = true
			return
		}
		out.Kind, out.Why = "inconclusive", "ShSem: "+shUnsup
		return
	}
	B := c.B
	// obligations
	type ob struct {
		t    *sym.Term
		what string
	}
	var obs []ob
	var eqOutT *sym.Term
	func() {
		defer func() {
			if rec := recover(); rec != nil {
				eqOutT = nil
			}
		}()
		eqOutT = c.StrEq(shOut, refOut)
	}()
	if eqOutT == nil {
		out.Kind, out.Why = "inconclusive", "output ropes not comparable: "+shOut.String()+" vs "+refOut.String()
		return
	}
	obs = append(obs, ob{eqOutT, "stdout"})
	if os.Getenv("VERIF_DEBUG") == "2" {
		fmt.Fprintf(os.Stderr, "DEBUG shape %s: script stdout %q | reference stdout %q | equal=%v\n", sh.Name, shOut.String(), refOut.String(), eqOutT.IsTrue())
	}
	switch s := shStatus.(type) {
	case int64:
		obs = append(obs, ob{B.Bool(s == in.Exit), fmt.Sprintf("exit status (script %d, reference %d)", s, in.Exit)})
	case *sym.Term:
		obs = append(obs, ob{B.Eq(s, B.Int(in.Exit, s.W)), "exit status"})
	}
	errRope := gosym.Concat(shl.Err...)
	if n := errRope.MinLen(); n > 0 {
		obs = append(obs, ob{B.False, "stderr not empty: " + errRope.String()})
	}
	if o.CompareFiles {
		names := map[string]bool{}
		for p := range in.Files {
			names[p] = true
		}
		for p := range shl.Files {
			names[p] = true
		}
		var ps []string
		for p := range names {
			ps = append(ps, p)
		}
		sort.Strings(ps)
		for _, p := range ps {
			a, okA := shl.Files[p]
			b, okB := in.Files[p]
			if okA != okB {
				obs = append(obs, ob{B.False, "file " + p + " exists in one semantics only"})
				continue
			}
			obs = append(obs, ob{c.StrEq(a, b), "content of file " + p})
		}
	}
	out.Syntactic = true
	if o.ByCharClass {
		// one violation condition: some data byte is shell-active, or an observable differs
		viol := []*sym.Term{}
		if hazardAny != nil {
			viol = append(viol, hazardAny)
		}
		for _, x := range obs {
			if !x.t.IsTrue() {
				viol = append(viol, B.Not(x.t))
			}
		}
		if len(viol) > 0 {
			out.Syntactic = false
			diag := "data is interpreted by the shell or an observable differs"
			if os.Getenv("VERIF_DEBUG") != "" {
				for _, h := range shl.Hazards {
					if !h.Cond.IsFalse() {
						diag += " | hazard: " + h.What
					}
				}
				for _, x := range obs {
					if !x.t.IsTrue() {
						diag += " | obligation: " + x.what
					}
				}
				diag += " | script: " + script.String()
			}
			if finish(diag, B.Or(viol...)) {
				return
			}
		}
		out.Kind = "ok"
		out.SymVars = len(c.B.Vars)
		return
	}
	for _, x := range obs {
		if x.t.IsTrue() {
			continue
		}
		out.Syntactic = false
		if finish(x.what+" differs", B.Not(x.t)) {
			return
		}
	}
	out.Kind = "ok"
	out.SymVars = len(c.B.Vars)
	return
}

// mountStd mirrors /repo/std into the virtual file system next to the virtual executable.
func mountStd(c *gosym.Ctx) {
	for name, content := range stdFiles() {
		c.FS.AddFile("/vfs/bin/std/"+name, gosym.Conc(content))
	}
}

// confirmBash replays a counterexample on the natively built transpiler and the real /bin/bash.
func confirmBash(r *Run, o eqOutcome, pre map[string]string, stdin string) (confirmed bool, what string) {
	files := map[string]string{"main.tsh": o.Src}
	for p, c := range o.Files {
		files[p] = c
	}
	files = realizeHashClasses(files)
	res, err := r.Native.RunDrv([]DrvReq{{Op: "transpile", Files: files, Main: "main.tsh", Target: "bash"}}, 30*time.Second)
	if err != nil || len(res) != 1 {
		return true, "native transpiler crashed or hung: " + fmt.Sprint(err)
	}
	n := res[0]
	if n.Panic != "" {
		return true, "native Transpile panicked: " + n.Panic
	}
	if o.ExpectReject {
		if n.HasErr {
			return false, ""
		}
		return true, "native Transpile accepts the illegal program"
	}
	if n.HasErr {
		return true, "native Transpile rejects the well-typed program: " + n.Err
	}
	b := RunBash(n.Script, stdin, pre, 10*time.Second)
	var diffs []string
	if b.Timeout {
		diffs = append(diffs, "script does not terminate")
	}
	if b.Stdout != o.Expected {
		diffs = append(diffs, fmt.Sprintf("stdout %q, expected %q", b.Stdout, o.Expected))
	}
	if b.Code != o.ExpCode {
		diffs = append(diffs, fmt.Sprintf("exit status %d, expected %d", b.Code, o.ExpCode))
	}
	if b.Stderr != "" {
		diffs = append(diffs, fmt.Sprintf("stderr %q", b.Stderr))
	}
	if o.ExpFiles != nil {
		for p, want := range o.ExpFiles {
			if got, ok := b.Files[p]; !ok && want != pre[p] {
				diffs = append(diffs, fmt.Sprintf("file %q missing", p))
			} else if ok && got != want {
				diffs = append(diffs, fmt.Sprintf("file %q holds %q, expected %q", p, got, want))
			}
		}
		for p := range b.Files {
			if _, ok := o.ExpFiles[p]; !ok {
				diffs = append(diffs, fmt.Sprintf("unexpected file %q", p))
			}
		}
	}
	if len(diffs) == 0 {
		return false, ""
	}
	return true, strings.Join(diffs, "; ")
}

// handleEq processes a diff outcome: native confirmation, known-finding lookup, replay files.
func (r *Run) handleEq(o eqOutcome, pre map[string]string, stdin string) {
	if !r.handleEqTry(o, pre, stdin) {
		r.Spurious(fmt.Sprintf("shape %s: candidate (%s) did not reproduce on bash; program:\n%s", o.Shape, o.Diff, o.Src))
	}
}

// handleEqTry returns false when the candidate does not reproduce on the real bash.
func (r *Run) handleEqTry(o eqOutcome, pre map[string]string, stdin string) bool {
	var confirmed bool
	var what string
	if r.ID == "C05" {
		confirmed, what = confirmBatch(r, o, pre, stdin)
	} else {
		confirmed, what = confirmBash(r, o, pre, stdin)
	}
	if !confirmed {
		return false
	}
	if r.IsKnown(o.Class) {
		r.HitKnown(o.Class, strings.TrimSpace(o.Src))
		return true
	}
	files := map[string]string{
		"main.tsh":     o.Src,
		"expected.out": o.Expected,
		"finding.txt":  fmt.Sprintf("property %s\nclass %s\nshape %s\nengine: %s\nreal bash: %s\nexpected exit status %d\n", r.ID, o.Class, o.Shape, o.Diff, what, o.ExpCode),
	}
	for p, c := range o.Files {
		files[p] = c
	}
	if stdin != "" {
		files["stdin.txt"] = stdin
	}
	for p, c := range pre {
		files["pre_"+strings.ReplaceAll(p, "/", "_")] = c
	}
	dir := r.WriteReplay(o.Class, files)
	r.AddViolation(Violation{Class: o.Class, What: fmt.Sprintf("shape %s: %s | program: %s", o.Shape, what, strconv.Quote(o.Src)), Replay: dir})
	return true
}

var stdCache map[string]string

func stdFiles() map[string]string {
	if stdCache == nil {
		stdCache = map[string]string{}
		for _, n := range []string{"strings.tsh", "os.tsh"} {
			if b, err := readFile(RepoDir + "/std/" + n); err == nil {
				stdCache[n] = b
			}
		}
	}
	return stdCache
}

type charClass struct{ name, chars string }

var charClasses = []charClass{
	{"dquote", "\""}, {"backslash", "\\"}, {"dollar", "$"}, {"backquote", "`"}, {"newline", "\n"}, {"tab", "\t"},
	{"blank", " "}, {"glob", "*?["}, {"dash", "-"}, {"shellmeta", ";&|<>()'#~{}!=]"},
	{"punct", "%+,./:@^_"},
}

// charClassOf returns the first special class present in the data ("plain" when none is).
func charClassOf(vals []byte) charClass {
	for _, cl := range charClasses {
		for _, b := range vals {
			if strings.IndexByte(cl.chars, b) >= 0 {
				return cl
			}
		}
	}
	return charClass{"plain", ""}
}

// classTerm: the data bytes fall into class cl (first special class present).
func classTerm(c *gosym.Ctx, data []*sym.Term, cl charClass) *sym.Term {
	if cl.chars == "" {
		return c.B.True
	}
	var any []*sym.Term
	for _, d := range data {
		for i := 0; i < len(cl.chars); i++ {
			any = append(any, c.B.Eq(d, c.B.BV(uint64(cl.chars[i]), 8)))
		}
	}
	return c.B.Or(any...)
}

// confirmBatch: there is no cmd.exe; a Batch counterexample is re-derived outside the symbolic run: the concrete
// program is transpiled by the native build and the emitted script is interpreted by BatSem concretely.
// The verdict is therefore model-level (cmd.exe's documented rules as encoded in oracle/batsem*.go).
func confirmBatch(r *Run, o eqOutcome, pre map[string]string, stdin string) (bool, string) {
	files := map[string]string{"main.tsh": o.Src}
	for p, c := range o.Files {
		files[p] = c
	}
	res, err := r.Native.RunDrv([]DrvReq{{Op: "transpile", Files: files, Main: "main.tsh", Target: "batch"}}, 30*time.Second)
	if err != nil || len(res) != 1 {
		return true, "native transpiler crashed or hung: " + fmt.Sprint(err)
	}
	n := res[0]
	if n.Panic != "" {
		return true, "native Transpile panicked: " + n.Panic
	}
	if o.ExpectReject {
		return !n.HasErr, "native Transpile accepts the illegal program"
	}
	if n.HasErr {
		return true, "native Transpile rejects the well-typed program: " + n.Err
	}
	var out string
	var status int64
	unsup := ""
	r.Eng.Explore(func(c *gosym.Ctx) interface{} {
		defer func() {
			if rec := recover(); rec != nil {
				if u, ok := rec.(oracle.BatUnsupported); ok {
					unsup = u.Msg
					return
				}
				panic(rec)
			}
		}()
		bs := oracle.NewBatShell(c)
		if stdin != "" {
			for _, l := range strings.Split(strings.TrimSuffix(stdin, "\n"), "\n") {
				bs.Stdin = append(bs.Stdin, gosym.Conc(l))
			}
		}
		for p, content := range pre {
			bs.Files[p] = gosym.Conc(content)
		}
		so, st := bs.RunScript(gosym.Conc(n.Script))
		out, _ = so.Go()
		if v, ok := st.(int64); ok {
			status = v
		}
		return nil
	}, gosym.ExploreOpts{Workers: 1})
	if strings.Contains(unsup, "step budget exceeded") {
		return true, "the script does not terminate under the cmd.exe model (" + unsup + "); the reference terminates with " + fmt.Sprintf("%q", o.Expected)
	}
	if unsup != "" {
		return false, "BatSem: " + unsup
	}
	var diffs []string
	if out != o.Expected {
		diffs = append(diffs, fmt.Sprintf("stdout (cmd.exe model) %q, expected %q", out, o.Expected))
	}
	if int(status) != o.ExpCode {
		diffs = append(diffs, fmt.Sprintf("exit status %d, expected %d", status, o.ExpCode))
	}
	if len(diffs) == 0 {
		return false, ""
	}
	return true, strings.Join(diffs, "; ")
}
