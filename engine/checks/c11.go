package checks

import (
	"fmt"
	"go/constant"
	"strconv"
	"strings"
	"time"

	"verif/engine/gosym"
	"verif/engine/oracle"
	"verif/engine/sym"
)

// tokenTypeIDs reads the lexer's exported token-type constants from the SSA package.
func tokenTypeIDs(e *gosym.Engine) map[string]int64 {
	out := map[string]int64{}
	for name, m := range e.Pkg("lexer").Members {
		if k, ok := m.(interface{ Value() constant.Value }); ok {
			_ = k
		}
		_ = name
	}
	pkg := e.Pkg("lexer")
	for name := range pkg.Members {
		if c := pkg.Const(name); c != nil && c.Value != nil && c.Value.Value != nil && c.Value.Value.Kind() == constant.Int {
			v, _ := constant.Int64Val(c.Value.Value)
			out[name] = v
		}
	}
	return out
}

type lexOutcome struct {
	Kind    string // "ok", "excluded", "diff"
	Excl    string
	Diff    string
	Src     string // concrete witness (diff only)
	Class   string
	NTokens int
}

// lexCompare runs the real tokenizer and the reference on src and looks for an input on this path where they differ.
func lexCompare(r *Run, c *gosym.Ctx, ids map[string]int64, src gosym.Str) lexOutcome {
	var toks []gosym.Tok
	var hasErr bool
	gp := c.Try(func() { toks, _, hasErr = c.Tokenize(src) })
	ref, refErr, unspec := oracle.Lex(c, src)
	if unspec != "" {
		return lexOutcome{Kind: "excluded", Excl: unspec}
	}
	B := c.B
	// build the list of (condition that must hold, description)
	type ob struct {
		t    *sym.Term
		what string
	}
	var obs []ob
	structural := ""
	switch {
	case gp != nil:
		structural = "Tokenize panicked: " + gp.Msg
	case refErr && !hasErr:
		structural = "invalid input accepted"
	case !refErr && hasErr:
		structural = "valid input rejected"
	case !refErr:
		if len(toks) != len(ref) {
			structural = fmt.Sprintf("token count %d, reference %d", len(toks), len(ref))
			break
		}
		for i := range ref {
			want, ok := ids[ref[i].Kind]
			if !ok {
				structural = "token kind " + ref[i].Kind + " no longer exported"
				break
			}
			tt := c.Data["_"] // unused
			_ = tt
			switch v := toks[i].Type.(type) {
			case int64:
				if v != want {
					structural = fmt.Sprintf("token %d has type %d, reference %s(%d)", i, v, ref[i].Kind, want)
				}
			case *sym.Term:
				obs = append(obs, ob{B.Eq(v, B.Int(want, v.W)), fmt.Sprintf("type of token %d", i)})
			}
			if structural != "" {
				break
			}
			obs = append(obs, ob{c.StrEq(toks[i].Value, ref[i].Val), fmt.Sprintf("value of token %d (%s)", i, ref[i].Kind)})
			if ref[i].PosOK {
				if row, ok := toks[i].Row.(int64); ok && int(row) != ref[i].Row {
					structural = fmt.Sprintf("token %d (%s) reported at row %d, reference row %d", i, ref[i].Kind, row, ref[i].Row)
				} else if col, ok := toks[i].Col.(int64); ok && int(col) != ref[i].Col {
					structural = fmt.Sprintf("token %d (%s) reported at column %d, reference column %d", i, ref[i].Kind, col, ref[i].Col)
				}
			}
			if structural != "" {
				break
			}
		}
	}
	var model map[string]uint64
	diff := structural
	if structural != "" {
		res, m := c.Sat()
		if res != sym.Sat {
			return lexOutcome{Kind: "ok", NTokens: len(ref)}
		}
		model = m
	} else {
		for _, o := range obs {
			if o.t.IsTrue() {
				continue
			}
			res, m := c.Sat(B.Not(o.t))
			if res == sym.Unknown {
				c.Unsupported("solver unknown on final assertion")
			}
			if res == sym.Sat {
				model, diff = m, o.what+" differs"
				break
			}
		}
	}
	if model == nil {
		return lexOutcome{Kind: "ok", NTokens: len(ref)}
	}
	s := ModelStr(src, model)
	return lexOutcome{Kind: "diff", Diff: diff, Src: s, Class: classifyLex(s, diff)}
}

// classifyLex names the defect class of a concrete counterexample (input predicate).
func classifyLex(src, diff string) string {
	s := strings.ReplaceAll(src, "\r\n", "\n")
	if i := strings.Index(s, "/*"); i >= 0 {
		rest := s[i+2:]
		if j := strings.Index(rest, "*/"); j >= 0 && strings.Contains(rest[j+2:], "*/") {
			return "lex.block_comment_greedy"
		}
	}
	for _, kw := range []string{"true", "false"} {
		for i := 0; i+len(kw) < len(s); i++ {
			if strings.HasPrefix(s[i:], kw) && isIdentByte(s[i+len(kw)]) {
				return "lex.bool_prefix_of_identifier"
			}
		}
	}
	for i := 0; i < len(s); i++ {
		if s[i] >= 0x80 {
			return "lex.non_ascii_byte"
		}
	}
	if strings.Contains(s, `\x`) || strings.Contains(s, `\u`) || strings.Contains(s, `\U`) || hasOctalEscape(s) {
		return "lex.multi_character_escape"
	}
	if strings.Contains(diff, "row") || strings.Contains(diff, "column") {
		if strings.Contains(s, "`") || strings.Contains(s, "\"") {
			return "lex.position_after_multiline_string"
		}
		return "lex.position"
	}
	if strings.Contains(diff, "accepted") {
		return "lex.accepts_invalid"
	}
	if strings.Contains(diff, "rejected") {
		return "lex.rejects_valid"
	}
	return "lex.other"
}

func isIdentByte(b byte) bool {
	return b == '_' || (b >= 'a' && b <= 'z') || (b >= 'A' && b <= 'Z') || (b >= '0' && b <= '9')
}

func hasOctalEscape(s string) bool {
	for i := 0; i+1 < len(s); i++ {
		if s[i] == '\\' && s[i+1] >= '0' && s[i+1] <= '7' {
			return true
		}
	}
	return false
}

// confirmLex replays a counterexample natively: real tokens vs the reference run concretely.
func confirmLex(r *Run, ids map[string]int64, src string) (bool, string) {
	res, err := r.Native.RunDrv([]DrvReq{{Op: "tokenize", Src: src}}, 20*time.Second)
	if err != nil || len(res) != 1 {
		return true, "native tokenizer crashed or hung: " + fmt.Sprint(err)
	}
	nat := res[0]
	if nat.Panic != "" {
		return true, "native Tokenize panicked: " + nat.Panic
	}
	// reference, concretely, in a throw-away engine path
	var ref []oracle.RTok
	var refErr bool
	var unspec string
	r.Eng.Explore(func(c *gosym.Ctx) interface{} {
		ref, refErr, unspec = oracle.Lex(c, gosym.Conc(src))
		return nil
	}, gosym.ExploreOpts{Workers: 1})
	if unspec != "" {
		return false, "excluded: " + unspec
	}
	if refErr != nat.HasErr {
		return true, fmt.Sprintf("native error=%v (%s), reference error=%v", nat.HasErr, nat.Err, refErr)
	}
	if refErr {
		return false, ""
	}
	if len(ref) != len(nat.Tokens) {
		return true, fmt.Sprintf("native yields %d tokens, reference %d", len(nat.Tokens), len(ref))
	}
	for i := range ref {
		v, _ := ref[i].Val.Go()
		t := nat.Tokens[i]
		if int64(t.Type) != ids[ref[i].Kind] || t.Value != v {
			return true, fmt.Sprintf("token %d: native (%d,%q), reference (%s,%q)", i, t.Type, t.Value, ref[i].Kind, v)
		}
		if ref[i].PosOK && (t.Row != ref[i].Row || t.Col != ref[i].Col) {
			return true, fmt.Sprintf("token %d (%s): native position %d:%d, reference %d:%d", i, ref[i].Kind, t.Row, t.Col, ref[i].Row, ref[i].Col)
		}
	}
	return false, ""
}

func (r *Run) handleLexDiff(ids map[string]int64, o lexOutcome) {
	confirmed, what := confirmLex(r, ids, o.Src)
	if !confirmed {
		r.Spurious(fmt.Sprintf("lexer candidate %q (%s) did not reproduce natively: %s", o.Src, o.Diff, what))
		return
	}
	if r.IsKnown(o.Class) {
		r.HitKnown(o.Class, o.Src)
		return
	}
	dir := r.WriteReplay(o.Class, map[string]string{
		"input.tsh":   o.Src,
		"finding.txt": fmt.Sprintf("property C11\nclass %s\ninput %s\nengine: %s\nnative: %s\n", o.Class, strconv.Quote(o.Src), o.Diff, what),
		"replay.sh":   "#!/bin/sh\n# re-run: /verif/bin/verif replay " + r.ID + " <this dir>\n",
	})
	r.AddViolation(Violation{Class: o.Class, What: fmt.Sprintf("input %s: %s", strconv.Quote(o.Src), what), Replay: dir})
}

const printable = " !\"#$%&'()*+,-./0123456789:;<=>?@ABCDEFGHIJKLMNOPQRSTUVWXYZ[\\]^_`abcdefghijklmnopqrstuvwxyz{|}~"

// CheckC11: tokenisation is faithful.
func CheckC11(r *Run) int {
	ids := tokenTypeIDs(r.Eng)
	nat, err := BuildNative()
	if err != nil {
		fmt.Println("cannot build the repository natively:", err)
		return 2
	}
	r.Native = nat
	quick := r.Tier == "quick"
	nRaw := 3
	if quick {
		nRaw = 3
	}
	total, nontrivial := 0, 0
	onPath := func(pr *gosym.PathResult) {
		o, ok := pr.Ret.(lexOutcome)
		if !ok {
			return
		}
		total++
		switch o.Kind {
		case "diff":
			r.handleLexDiff(ids, o)
		case "ok":
			if o.NTokens > 1 {
				nontrivial++
			}
		}
	}
	// Harness A: every byte string of length 0..nRaw over all 256 byte values.
	for n := 0; n <= nRaw; n++ {
		n := n
		st := r.Eng.Explore(func(c *gosym.Ctx) interface{} {
			var segs []gosym.Seg
			for i := 0; i < n; i++ {
				b := c.B.Var(fmt.Sprintf("b%d", i), 8)
				c.S.Declare(b)
				segs = append(segs, gosym.Seg{B: b})
			}
			return lexCompare(r, c, ids, gosym.Str{Segs: segs})
		}, gosym.ExploreOpts{Workers: r.Workers, OnPath: onPath, TimeoutMS: 10000, Budget: gosym.Budget{MaxPaths: 6_000_000}})
		r.Absorb(fmt.Sprintf("H_C11_bytes(n=%d)", n), st, fmt.Sprintf("source = %d fully symbolic bytes (all 256 values each)", n))
	}
	// Harness B: templates whose holes are symbolic bytes (interactions of adjacent lexemes that
	// short raw inputs cannot form). "?" marks a hole; quick uses a focused alphabet per template,
	// thorough makes the first two holes range over all 256 byte values.
	type tmpl struct {
		text  string
		alpha string
	}
	const idc = "aZ_09"
	templates := []tmpl{
		{"x[0]-?", "0-9 a"}, {"f()-?", "0-9 a"}, {"\"s\"-?", "0-9 a"}, {"true-?", "0-9 a"}, {"x -? y", "0-9 "}, {"(-?)", "0-9a"}, {"nil-?,-?", "0-9 "},
		{"\"\\x4?\" \"\\?01\"", "1g0\"9"},
		{"\"\\u00e?\"?", "9g\" "},
		{"/*?*/?/*?*/", "a*/ \n"},
		{"x?/*?*/?", "a*/ \n="},
		{"true??", idc + " (=."},
		{"x ?false?", idc + " (=."},
		{"?il?", "nN" + idc + " "},
		{"\"??\" ?", printable[:1] + "a\"\\$`'\n\t\xc3\xa4"},
		{"\"\\??\"", "antx41\"\\'0 \n"},
		{"`?\n?`?", "a`\"\\\n "},
		{"a := `x\n?\n` ?", "a`\n "},
		{"x??y", "=!<>&|+-*/%:.,;@(){}[] \t"},
		{"? = ?", idc + "=!<>:+-"},
		{"//?\n?", "a/*\n\" "},
		{"1?2?", "0.9a- \n"},
		{"-?? x", "0-9.a "},
		{"a\r?b?", "\r\n ab"},
		{"x /*\n?*/ ?", "a*/\n "},
		{"a := `x\r\n?\r\n` ?", "a`\r\n "},
		{"/** d *?/ x /* e ?*/ y", "*/a "},
		{"(a)-? x)-?", "0-9 a"},
		{"\"a\" ? \"?\"", "a+\"\\ "},
	}
	for ti, tp := range templates {
		tp := tp
		st := r.Eng.Explore(func(c *gosym.Ctx) interface{} {
			var parts []gosym.Str
			hole := 0
			for i := 0; i < len(tp.text); i++ {
				if tp.text[i] != '?' {
					parts = append(parts, gosym.Conc(tp.text[i:i+1]))
					continue
				}
				hole++
				alpha := tp.alpha
				if !quick && hole <= 2 {
					alpha = ""
				}
				b := c.B.ByteVar(fmt.Sprintf("h%d", hole), alpha)
				c.S.Declare(b)
				parts = append(parts, gosym.ByteStr(b))
			}
			return lexCompare(r, c, ids, gosym.Concat(parts...))
		}, gosym.ExploreOpts{Workers: r.Workers, OnPath: onPath, TimeoutMS: 10000, Budget: gosym.Budget{MaxPaths: 200000}})
		r.Absorb(fmt.Sprintf("H_C11_template[%d]", ti), st, fmt.Sprintf("template %q, holes over alphabet %q (thorough: first two holes over all 256 byte values)", tp.text, tp.alpha))
	}
	r.Cov("states", total)
	r.Cov("paths_with_more_than_one_token", nontrivial)
	r.Assume("reference lexer (oracle/reflex.go) encodes the token grammar: longest match, Go escape rules, CRLF->LF first, '-' directly followed by a digit starts a number (documented mechanism)")
	r.Assume("excluded as unspecified: newline inside an interpreted string, unterminated block comment, row/column after non-ASCII text on the same line, symbolic hex/octal escape digits")
	r.Assume("a byte >= 0x80 is treated as one rune by the symbolic regexp matcher; candidates are confirmed natively before being reported")
	r.AddSample(map[string]interface{}{"harness": "H_C11_bytes", "input": "3 symbolic bytes b0 b1 b2, e.g. path b0='/' b1='*' b2 any -> unterminated comment (excluded)"})
	r.AddSample(map[string]interface{}{"harness": "H_C11_template", "input": "/*?*/?/*?*/ with three symbolic hole bytes"})
	return r.Finish("model_checking")
}
