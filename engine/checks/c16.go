package checks

import (
	"fmt"
	"os"
	"os/exec"
	"path/filepath"
	"regexp"
	"sort"
	"strings"
	"time"

	"verif/engine/gosym"
	"verif/engine/oracle"
)

// construct menu: each entry is source text; "%BODY%" is a nested slot, "%N%" a fresh number.
var c16Menu = []string{
	"v%N% := %N%\nprint(v%N% + 1, v%N% > 2, \"s\")",
	"sl%N% := []int{1, 2}\nsl%N%[3] = 4\nprint(len(sl%N%), sl%N%[0])\nfor i%N%, e%N% := range sl%N% {\n\tprint(i%N%, e%N%)\n}",
	"st%N% := \"hello\"\nprint(len(st%N%), st%N%[1], st%N%[1:3], st%N%[:2], st%N%[2:], st%N% + \"x\", st%N% == \"a\")",
	"if gv > %N% {\n%BODY%\n} else if gv == 1 {\n} else {\n%BODY%\n}",
	"if gv != %N% {\n}",
	"switch gv {\ncase 1:\n%BODY%\ncase 2:\ndefault:\n%BODY%\n}",
	"switch {\ndefault:\n}",
	"for i%N% := 0; i%N% < 2; i%N%++ {\n%BODY%\n\tif i%N% == 1 {\n\t\tcontinue\n\t}\n\tprint(i%N%)\n}",
	"for gv < 0 {\n\tbreak\n}",
	"for {\n%BODY%\n\tbreak\n}",
	"for i%N% := 0; i%N% < 2; i%N%++ {\n\tfor j%N% := 0; j%N% < 2; j%N%++ {\n\t\tif j%N% == 1 {\n\t\t\tbreak\n\t\t}\n\t}\n\tif i%N% == 0 {\n\t\tcontinue\n\t}\n\tprint(i%N%)\n}",
	"for i%N% := 0; i%N% < 1; i%N%++ {\n}",
	"fvoid()\nprint(fint(gv))\np%N%, q%N% := fmulti(gv)\nprint(p%N%, q%N%)",
	"print(itoa(gv) + \"!\", exists(\"f.txt\"))\nwrite(\"f.txt\", \"data\")\nwrite(\"f.txt\", \"more\", true)\nprint(read(\"f.txt\"))",
	"in%N% := input(\"prompt \")\nin%N% = input()\nprint(in%N%)",
	"@ls(\"-l\")\no%N%, e%N%, c%N% := @ls(\"x\") | @grep(\"y\", gs)\nprint(o%N%, e%N%, c%N%)",
	"cp%N% := []string{\"a\"}\ncq%N% := []string{}\nprint(copy(cq%N%, cp%N%))\nbs%N% := []bool{true}\nbs%N%[1] = false",
	"if gv == %N% {\n\tpanic(\"stop\")\n}",
	"ol%N% := []int{1}\nprint(len(ol%N%))\nos%N% := \"abc\"\nprint(os%N%)",
	"gs += \"x\"\ngv -= 1\ngv++\ngv--\ngs, gv = \"q\", 2",
	// branches whose only statement is a jump
	"// break-in-switch-outside-loop\nswitch gv {\ncase 1:\n\tbreak\ncase 2:\n\tprint(2)\ndefault:\n\tbreak\n}",
	"for i%N% := 0; i%N% < 2; i%N%++ {\n\tswitch i%N% {\n\tcase 0:\n\t\tbreak\n\tdefault:\n\t\tcontinue\n\t}\n%BODY%\n}",
	"// break-in-switch-outside-loop\nfunc t%N%(a int) int {\n\tswitch a {\n\tcase 1:\n\t\tbreak\n\tcase 2:\n\t\treturn 2\n\tdefault:\n\t}\n\tif a == 3 {\n\t\treturn 3\n\t} else {\n\t\treturn 4\n\t}\n\treturn 0\n}\nprint(t%N%(1))",
}

var c16Bodies = []string{
	"",
	"\tprint(\"b\")",
	"\tif gv == 7 {\n\t\tprint(1)\n\t}",
	"\tfor k%N% := 0; k%N% < 1; k%N%++ {\n\t\tif k%N% == 0 {\n\t\t\tcontinue\n\t\t}\n\t}",
	"\tsw%N% := []int{}\n\tsw%N%[1] = 2",
	"\tprint(fint(1))",
	"\tif gv == 8 {\n\t} else if gv == 9 {\n\t} else {\n\t}",
	"\tswitch gv {\n\tcase 5:\n\tdefault:\n\t}",
	"\tgv",
	"\t\"lit\"\n\tgv + 1\n\t(gs)",
}

const c16Prelude = "gv := 3\ngs := \"g\"\nfunc fvoid() {\n\tprint(\"v\")\n}\nfunc fint(a int) int {\n\tif a > 1 {\n\t\treturn a\n\t}\n\tfor i := 0; i < 2; i++ {\n\t\tif i == a {\n\t\t\treturn i\n\t\t}\n\t}\n\treturn 0\n}\nfunc fmulti(a int) (int, string) {\n\treturn a + 1, \"m\"\n}\nfunc fempty() {\n}\nfunc fexpr() {\n\tgv\n\ttrue\n}\n"

type wfOutcome struct {
	Files  map[string]string // all files of a multi-file program (nil: the program is Src alone)
	Kind   string
	Src    string
	Bash   string
	Batch  string
	Issues []string
}

var (
	labelRe = regexp.MustCompile(`^:([A-Za-z0-9_]+)\s*$`)
	gotoRe  = regexp.MustCompile(`(?i)\bgoto\s+:?([A-Za-z0-9_]+)`)
	callRe  = regexp.MustCompile(`(?i)\bcall\s+:([A-Za-z0-9_]+)`)
)

var batchHelpers = []string{"_ach", "_frh", "_fwh", "_sls", "_slg", "_sah", "_sch", "_stsh", "_stlh", "_seh", "_ech"}

// analyzeBatch checks the structural invariants of an emitted Batch script.
func analyzeBatch(script string) []string {
	var issues []string
	lines := strings.Split(strings.ReplaceAll(script, "\r\n", "\n"), "\n")
	defined := map[string][]int{}
	for i, l := range lines {
		if m := labelRe.FindStringSubmatch(strings.TrimSpace(l)); m != nil && !strings.HasPrefix(strings.TrimSpace(l), "::") {
			defined[m[1]] = append(defined[m[1]], i)
		}
	}
	var names []string
	for n := range defined {
		names = append(names, n)
	}
	sort.Strings(names)
	for _, n := range names {
		if len(defined[n]) > 1 {
			issues = append(issues, fmt.Sprintf("duplicate-label:%s", generalizeLabel(n)))
		}
	}
	// parentheses outside double quotes
	depth := 0
	for i, l := range lines {
		if strings.HasPrefix(strings.TrimSpace(l), "::") || strings.HasPrefix(strings.TrimSpace(l), "rem ") {
			continue
		}
		inQ := false
		for k := 0; k < len(l); k++ {
			switch {
			case l[k] == '^' && k+1 < len(l):
				k++
			case l[k] == '"':
				inQ = !inQ
			case l[k] == '(' && !inQ:
				depth++
			case l[k] == ')' && !inQ:
				depth--
				if depth < 0 {
					issues = append(issues, fmt.Sprintf("unbalanced-parenthesis:closing at line %d", i+1))
					depth = 0
				}
			}
		}
	}
	if depth != 0 {
		issues = append(issues, "unbalanced-parenthesis:open at end")
	}
	// jump and call targets
	called := map[string]bool{}
	for i, l := range lines {
		t := strings.TrimSpace(l)
		if strings.HasPrefix(t, "::") {
			continue
		}
		for _, m := range gotoRe.FindAllStringSubmatch(t, -1) {
			tgt := m[1]
			if strings.EqualFold(tgt, "eof") {
				continue
			}
			if len(defined[tgt]) == 0 {
				issues = append(issues, "undefined-goto-target:"+generalizeLabel(tgt))
				continue
			}
			// containment: loop and if jumps
			switch {
			case strings.HasPrefix(tgt, "_f") && isNum(tgt[2:]):
				lo, hi := loopRegion(lines, defined, tgt)
				if i < lo || i > hi {
					issues = append(issues, "loop-jump-outside-its-loop:continue")
				}
			case strings.HasPrefix(tgt, "_e") && isNum(tgt[2:]):
				// a break must precede the end label it targets and be inside a loop that ends at that label
				ok := false
				for _, d := range defined[tgt] {
					if d > i && enclosingLoopEndsAt(lines, defined, i, d) {
						ok = true
					}
				}
				if !ok {
					issues = append(issues, "loop-jump-outside-its-loop:break")
				}
			case strings.HasPrefix(tgt, "_i") && isNum(tgt[2:]):
				if defined[tgt][0] < i {
					issues = append(issues, "if-jump-backwards")
				}
			}
		}
		for _, m := range callRe.FindAllStringSubmatch(t, -1) {
			called[m[1]] = true
			if len(defined[m[1]]) == 0 {
				issues = append(issues, "call-of-missing-routine:"+m[1])
			}
		}
	}
	for _, h := range batchHelpers {
		if len(defined[h]) > 0 && !called[h] {
			issues = append(issues, "helper-present-but-unused:"+h)
		}
	}
	return dedupe(issues)
}

func isNum(s string) bool {
	if s == "" {
		return false
	}
	for i := 0; i < len(s); i++ {
		if s[i] < '0' || s[i] > '9' {
			return false
		}
	}
	return true
}

var hashPrefixRe = regexp.MustCompile(`i[0-9a-f]{7}_`)
var digitsRe = regexp.MustCompile(`[0-9]+`)

func generalizeLabel(l string) string {
	if hashPrefixRe.MatchString(l) {
		// labels of imported files: the content hash and counters are not part of the class
		return digitsRe.ReplaceAllString(hashPrefixRe.ReplaceAllString(l, "i<hash>_"), "N")
	}
	for _, p := range []string{"_e", "_f", "_i"} {
		if strings.HasPrefix(l, p) && isNum(l[len(p):]) {
			return p + "N"
		}
	}
	return l
}

// loopRegion: from the loop head label to the closing "goto head" that is followed by ")" and an end label.
func loopRegion(lines []string, defined map[string][]int, head string) (int, int) {
	lo := defined[head][0]
	hi := lo
	for i := lo; i < len(lines); i++ {
		t := strings.TrimSpace(lines[i])
		if strings.EqualFold(t, "goto :"+head) && i+2 < len(lines) && strings.TrimSpace(lines[i+1]) == ")" && strings.HasPrefix(strings.TrimSpace(lines[i+2]), ":_e") {
			hi = i
		}
	}
	return lo, hi
}

// enclosingLoopEndsAt: is line i inside a loop whose end label stands at line d?
func enclosingLoopEndsAt(lines []string, defined map[string][]int, i, d int) bool {
	// the end label at d follows ")" and "goto :_fK"; the loop starts at label _fK
	if d < 2 {
		return false
	}
	m := gotoRe.FindStringSubmatch(strings.TrimSpace(lines[d-2]))
	if m == nil || len(defined[m[1]]) == 0 {
		return false
	}
	return defined[m[1]][0] <= i && i < d
}

func dedupe(s []string) []string {
	seen := map[string]bool{}
	var out []string
	for _, x := range s {
		if !seen[x] {
			seen[x] = true
			out = append(out, x)
		}
	}
	return out
}

func bashSyntaxOK(script string) (bool, string) {
	dir, err := os.MkdirTemp(scratchRoot(), "verif-bashn-")
	if err != nil {
		return true, ""
	}
	defer os.RemoveAll(dir)
	p := filepath.Join(dir, "s.sh")
	os.WriteFile(p, []byte(script), 0o666)
	out, err := exec.Command("timeout", "10", "/bin/bash", "-n", p).CombinedOutput()
	return err == nil, string(out)
}

func CheckC16(r *Run) int {
	nat, err := BuildNative()
	if err != nil {
		fmt.Println("cannot build the repository natively:", err)
		return 2
	}
	r.Native = nat
	quick := r.Tier == "quick"
	// (slots, every nested body slot filled?) per exploration: quick = 2 slots with the first nested slot filled;
	// thorough = 3 such slots, and 2 slots with every nested slot filled
	type cfg struct {
		slots int
		full  bool
	}
	cfgs := []cfg{{2, false}}
	if !quick {
		cfgs = []cfg{{3, false}, {2, true}}
	}
	var outcomes []wfOutcome
	okN := 0
	slots := 0
	for _, cf := range cfgs {
		slots = cf.slots
		fullBodies := cf.full
		st := r.Eng.Explore(func(c *gosym.Ctx) interface{} {
			mountStd(c)
			n := 0
			fresh := func(s string) string {
				n++
				return strings.ReplaceAll(s, "%N%", fmt.Sprint(n))
			}
			var sb strings.Builder
			sb.WriteString(c16Prelude)
			for s := 0; s < slots; s++ {
				item := c16Menu[c.Choose("construct", 0, len(c16Menu)-1)]
				first := true
				for strings.Contains(item, "%BODY%") {
					body := ""
					if first || fullBodies {
						body = fresh(c16Bodies[c.Choose("body", 0, len(c16Bodies)-1)])
					}
					first = false
					item = strings.Replace(item, "%BODY%", body, 1)
				}
				sb.WriteString(fresh(item) + "\n")
			}
			src := sb.String()
			c.FS.AddFile("/work/main.tsh", gosym.Conc(src))
			o := wfOutcome{Kind: "ok", Src: src}
			for _, target := range []string{"bash", "batch"} {
				var script gosym.Str
				var hasErr bool
				var errText gosym.Str
				gp := c.Try(func() { script, errText, hasErr = c.Transpile("/work/main.tsh", target) })
				if gp == nil && hasErr && target == "batch" && strings.Contains(src, "// break-in-switch-outside-loop") && strings.Contains(errText.String(), "break statement is only supported within a for-loop") {
					// recorded defect (KNOWN_FINDINGS, C01 break-inside-switch): the Batch back-end rejects a break in a
					// switch clause outside a loop; the Bash script of the same program is still checked
					continue
				}
				if gp != nil || hasErr {
					o.Kind = "rejected"
					o.Issues = append(o.Issues, "generator-program-rejected:"+target+":"+errText.String())
					if gp != nil {
						o.Issues = append(o.Issues, "panic:"+gp.Msg)
					}
					return o
				}
				text, _ := script.Go()
				if target == "bash" {
					o.Bash = text
					var hz []oracle.Hazard
					func() {
						defer func() {
							if rec := recover(); rec != nil {
								if u, ok := rec.(oracle.ShUnsupported); ok {
									o.Issues = append(o.Issues, "bash-syntax:"+u.Msg)
									return
								}
								panic(rec)
							}
						}()
						oracle.ParseScript(c, script, &hz)
					}()
				} else {
					o.Batch = text
					for _, is := range analyzeBatch(text) {
						o.Issues = append(o.Issues, "batch:"+is)
					}
				}
			}
			if len(o.Issues) > 0 {
				o.Kind = "bad"
			}
			return o
		}, gosym.ExploreOpts{Workers: r.Workers, TimeoutMS: 10000, Budget: gosym.Budget{MaxPaths: 1500000, Steps: 30_000_000}, OnPath: func(pr *gosym.PathResult) {
			o, ok := pr.Ret.(wfOutcome)
			if !ok {
				return
			}
			if o.Kind == "ok" {
				okN++
				if len(outcomes) < 400 {
					outcomes = append(outcomes, o)
				}
			} else {
				outcomes = append(outcomes, o)
			}
		}})
		r.Absorb(fmt.Sprintf("H_C16_constructs(slots=%d,all-nested-bodies=%v)", slots, fullBodies), st, fmt.Sprintf("%d statement slots, each filled by choice from %d constructs of the whole language (every builtin, empty blocks, nested loops with break/continue, functions); nested body slots from %d bodies (all of them: %v); both targets", slots, len(c16Menu), len(c16Bodies), fullBodies))
	}
	// multi-file programs: generated acyclic import graphs (the generator of C09), both targets
	nGraphs := 30
	if !quick {
		nGraphs = 400
	}
	st := r.Eng.Explore(func(c *gosym.Ctx) interface{} {
		mountStd(c)
		k := c.Choose("graph", 0, nGraphs-1)
		shp := genModuleShape(r.Seed*1000 + int64(k))
		c.FS.HashOverride = nil // real digests: the scripts are inspected as emitted
		files := map[string]string{}
		for pth, mp := range shp.Mods(c) {
			files[pth] = concretizeMarkers(strings.ReplaceAll(oracle.Render(mp).String(), "HASHCLASS:", "graph "))
		}
		src := concretizeMarkers(oracle.Render(shp.Prog(c)).String())
		files["main.tsh"] = src
		for pth, content := range files {
			c.FS.AddFile("/work/"+pth, gosym.Conc(content))
		}
		o := wfOutcome{Kind: "ok", Src: src, Files: files}
		for _, target := range []string{"bash", "batch"} {
			var script, errText gosym.Str
			var hasErr bool
			gp := c.Try(func() { script, errText, hasErr = c.Transpile("/work/main.tsh", target) })
			if gp != nil || hasErr {
				o.Kind = "rejected"
				o.Issues = append(o.Issues, "generator-program-rejected:"+target+":"+errText.String())
				return o
			}
			text, _ := script.Go()
			if target == "bash" {
				o.Bash = text
				if ok, msg := bashSyntaxOK(text); !ok {
					o.Issues = append(o.Issues, "bash-syntax:bash -n: "+strings.TrimSpace(msg))
				}
			} else {
				o.Batch = text
				for _, is := range analyzeBatch(text) {
					o.Issues = append(o.Issues, "batch:"+is)
				}
			}
		}
		if len(o.Issues) > 0 {
			o.Kind = "bad"
		}
		return o
	}, gosym.ExploreOpts{Workers: r.Workers, TimeoutMS: 10000, Budget: gosym.Budget{MaxPaths: 100000, Steps: 30_000_000}, OnPath: func(pr *gosym.PathResult) {
		o, ok := pr.Ret.(wfOutcome)
		if !ok {
			return
		}
		if o.Kind == "ok" {
			okN++
		} else {
			outcomes = append(outcomes, o)
		}
	}})
	r.Absorb("H_C16_import_graphs", st, fmt.Sprintf("%d generated acyclic import graphs of 2..4 files (globals, private helpers, cross-file calls, top-level code, diamonds), both targets: `bash -n` and the Batch structural invariants", nGraphs))
	// deterministic order, then confirm natively
	sort.SliceStable(outcomes, func(i, j int) bool { return outcomes[i].Src < outcomes[j].Src })
	validated := 0
	seen := map[string]bool{}
	for _, o := range outcomes {
		if o.Kind == "ok" {
			// sample: the real shell's syntax check agrees with ShSem's parser
			if validated < 150 {
				validated++
				if ok, msg := bashSyntaxOK(o.Bash); !ok {
					o.Issues = append(o.Issues, "bash-syntax:bash -n: "+strings.TrimSpace(msg))
					o.Kind = "bad"
				}
			}
			if o.Kind == "ok" {
				continue
			}
		}
		for _, is := range o.Issues {
			class := "C16." + strings.SplitN(normBashMsg(is), " at line", 2)[0]
			if i := strings.Index(class, ":closing"); i > 0 {
				class = class[:i]
			}
			if len(class) > 90 {
				class = class[:90]
			}
			if seen[class] {
				continue
			}
			seen[class] = true
			// native confirmation of the issue on the real build's output
			nfiles := map[string]string{"main.tsh": o.Src}
			if o.Files != nil {
				nfiles = o.Files
			}
			res, err := nat.RunDrv([]DrvReq{
				{Op: "transpile", Files: nfiles, Main: "main.tsh", Target: "bash"},
				{Op: "transpile", Files: nfiles, Main: "main.tsh", Target: "batch"},
			}, 30*time.Second)
			validated++
			confirmed := false
			what := is
			if err == nil {
				switch {
				case strings.HasPrefix(is, "batch:"):
					for _, x := range analyzeBatch(res[1].Script) {
						if "batch:"+x == is {
							confirmed = true
						}
					}
				case strings.HasPrefix(is, "bash-syntax:"):
					ok, msg := bashSyntaxOK(res[0].Script)
					confirmed = !ok && !res[0].HasErr
					what += " | bash -n: " + strings.TrimSpace(msg)
				default:
					confirmed = res[0].HasErr || res[0].Panic != "" || res[1].HasErr
				}
			}
			if !confirmed {
				r.Spurious("well-formedness candidate did not reproduce natively: " + is)
				continue
			}
			if r.IsKnown(class) {
				r.HitKnown(class, firstLines(afterPrelude(o.Src), 6))
				continue
			}
			rd := r.WriteReplay(class, map[string]string{"main.tsh": o.Src, "main.sh": o.Bash, "main.bat": o.Batch, "finding.txt": "property C16\n" + what + "\n"})
			r.AddViolation(Violation{Class: class, What: what + " | program tail: " + firstLines(afterPrelude(o.Src), 8), Replay: rd})
		}
	}
	r.Cov("states", okN+len(seen))
	r.Cov("well_formed_programs", okN)
	r.Cov("traces_validated_against_impl", validated)
	r.AddSample(map[string]interface{}{"slots": []string{"nested for with break/continue", "switch { default: }"}, "checks": "ShSem grammar (+ bash -n on a sample), Batch label/parenthesis/helper/jump invariants"})
	r.Assume("Bash: accepted by ShSem's parser of the emitted subset; a sample of 150 scripts per run and every rejected script are checked with the real `bash -n`")
	r.Assume("Batch: structural invariants computed on the emitted text (labels :_f<n>/:_e<n>/:_i<n>/_ret_/_eo_ as the back-end names them); string literals are neutral text (quoting of data is C08's business)")
	return r.Finish("model_checking")
}

func firstLines(s string, n int) string {
	l := strings.Split(strings.TrimSpace(s), "\n")
	if len(l) > n {
		l = l[:n]
	}
	return strings.Join(l, " / ")
}

var bashMsgLoc = regexp.MustCompile(`/[^ :]*s\.sh: (line \d+: )?`)

// normBashMsg removes the scratch path and the line number from a `bash -n` message, so that the class of a finding does not
// depend on where the script was checked.
func normBashMsg(s string) string {
	s = bashMsgLoc.ReplaceAllString(s, "")
	if i := strings.IndexByte(s, '\n'); i >= 0 {
		s = s[:i]
	}
	return s
}

// afterPrelude is the part of a generated single-file program after the common prelude (whole text for other programs).
func afterPrelude(src string) string {
	if strings.HasPrefix(src, c16Prelude) {
		return src[len(c16Prelude):]
	}
	return src
}
