package checks

import (
	"encoding/json"
	"fmt"
	"os"
	"os/exec"
	"path/filepath"
	"sort"
	"strings"
	"time"

	"verif/engine/gosym"
	"verif/engine/sym"
)

type cmdOutcome struct {
	Kind string
	What string
	Args []string
	Lits map[string]int64
	Desc string
	// modification times (seconds) of files before the run, where the path depends on them
	MTimes map[string]int64
}

var staleText = "#!/bin/bash\n" + strings.Repeat("echo STALE LINE OF AN EARLIER AND MUCH LONGER OUTPUT\n", 40)

const (
	goodProg = "x := 7000000\nfor i := 0; i < 2; i++ {\n\tprint(x + i)\n}\n"
	// a program that imports a file with top-level state (what one run emits for a second target must not depend on the first)
	// a program that uses the standard library (found next to the executable)
	stdProg       = "import \"os\"\nx := 7000000\nprint(os.Shell(), x)\n"
	importingProg = "import l \"lib/state.tsh\"\nx := 7000000\nprint(l.Sum(x), l.Next())\n"
	libState      = "Base := 40\ncount := 0\nprint(\"lib loaded\")\nfunc Sum(a int) int {\n\treturn a + Base\n}\nfunc Next() int {\n\tcount++\n\treturn count\n}\n"
	badProg       = "x := 1\nprint(y)\n"
	lexBad        = "x := \"abc\n"
)

// CheckC19: the tsh command writes exactly the library's output, or nothing.
func CheckC19(r *Run) int {
	nat, err := BuildNative()
	if err != nil {
		fmt.Println("cannot build the repository natively:", err)
		return 2
	}
	r.Native = nat
	quick := r.Tier == "quick"
	maxPairs := 3
	if !quick {
		maxPairs = 4
	}
	inputs := []string{"in/rel.1.0/build", "in/a.tsh", "in/a.b.tsh", "in/noext", "in/my prog.tsh", "in/bad.tsh", "in/lexbad.tsh", "in/missing.tsh", "in", "in/a.b.tsh ", " in/a.tsh", "in/std.tsh"}
	outs := []string{"out", "out dir", "nodir", "in/a.tsh", "out ", " out"}
	var bads []cmdOutcome
	probes := map[string][]string{}
	okRuns, errRuns := 0, 0
	mainFn := r.Eng.Pkg("").Func("main")
	if mainFn == nil {
		fmt.Println("package main has no function main")
		return 2
	}
	setup := func(c *gosym.Ctx) {
		mountStd(c)
		c.FS.Cwd = "/w"
		c.FS.AddFile("/w/in/a.tsh", gosym.Conc(goodProg))
		c.FS.AddFile("/w/in/a.b.tsh", gosym.Conc(importingProg))
		c.FS.AddFile("/w/in/lib/state.tsh", gosym.Conc(libState))
		c.FS.AddFile("/w/in/std.tsh", gosym.Conc(stdProg))
		c.FS.AddFile("/w/in/noext", gosym.Conc(goodProg))
		c.FS.AddFile("/w/in/my prog.tsh", gosym.Conc(goodProg))
		c.FS.AddFile("/w/in/bad.tsh", gosym.Conc(badProg))
		c.FS.AddFile("/w/in/lexbad.tsh", gosym.Conc(lexBad))
		c.FS.AddDir("/w/out")
		c.FS.AddDir("/w/out dir")
		// stale output files from an earlier run
		c.FS.AddFile("/w/out/a.sh", gosym.Conc(staleText))
		c.FS.AddFile("/w/out/a.bat", gosym.Conc(staleText))
		c.FS.AddFile("/w/out/bad.sh", gosym.Conc(staleText))
		c.FS.AddFile("/w/out/a.b.sh", gosym.Conc(staleText))
		c.FS.AddFile("/w/out/a.b.bat", gosym.Conc(staleText))
		c.FS.AddFile("/w/out dir/my prog.sh", gosym.Conc(staleText))
		c.FS.AddFile("/w/in/rel.1.0/build", gosym.Conc(goodProg))
	}
	st := r.Eng.Explore(func(c *gosym.Ctx) interface{} {
		setup(c)
		B := c.B
		type opt struct {
			flag  gosym.Str
			value string
		}
		var optsL []opt
		long := c.Fork()
		symflag := c.Choose("symbolic-flag", 0, 3) // which option (if any) has its two flag bytes symbolic
		mk := func(kind int, short, longForm, value string) {
			var flag gosym.Str
			switch {
			case symflag == kind:
				flag = SymStr(c, fmt.Sprintf("f%d", kind), 2, "-iotx")
			case long:
				flag = gosym.Conc(longForm)
			default:
				flag = gosym.Conc(short)
			}
			optsL = append(optsL, opt{flag, value})
		}
		ins, os_ := inputs, outs
		tys := []string{"bash", "batch", "bash ", "Bash", ""}
		if quick {
			// values with a blank at an edge name nothing that exists: they must fail like any other missing file, directory or target
			ins = []string{"in/rel.1.0/build", "in/a.b.tsh", "in/my prog.tsh", "in/bad.tsh", "in/a.b.tsh ", "in/std.tsh"}
			os_ = []string{"out", "out dir", "out "}
			tys = tys[:3]
		}
		if k := c.Choose("in", 0, len(ins)); k < len(ins) {
			mk(1, "-i", "--in", ins[k])
		}
		if k := c.Choose("out", 0, len(os_)); k < len(os_) {
			mk(2, "-o", "--out", os_[k])
		}
		nt := c.Choose("ntypes", 0, maxPairs-1)
		for i := 0; i < nt; i++ {
			kind := 3
			if i > 0 {
				kind = 10 + i // only the first -t can be the symbolic one
			}
			mk(kind, "-t", "--type", tys[c.Choose("type", 0, len(tys)-1)])
		}
		if c.Fork() { // option order reversed
			for i, j := 0, len(optsL)-1; i < j; i, j = i+1, j-1 {
				optsL[i], optsL[j] = optsL[j], optsL[i]
			}
		}
		args := []gosym.Str{gosym.Conc("tsh")}
		switch c.Choose("noise", 0, 1) {
		case 1:
			optsL = append(optsL, opt{gosym.Conc("--input"), "v"})
		}
		for _, o := range optsL {
			args = append(args, o.flag, gosym.Conc(o.value))
		}
		if c.Choose("trailing", 0, 1) == 1 {
			args = append(args, gosym.Conc("-t"))
		}
		c.Args = args
		{
			var as []string
			okc := true
			for _, a := range args {
				g, ok := a.Go()
				if !ok {
					okc = false
					break
				}
				as = append(as, g)
			}
			if okc {
				if b, err := json.Marshal(as); err == nil {
					c.Note("args:" + string(b))
				}
			}
		}
		before := map[string]gosym.Str{}
		for p, s := range c.FS.Files {
			before[p] = s
		}
		gp := c.Try(func() { c.Call(mainFn) })
		if gp != nil && gp.Exit {
			if iv, ok := gp.Val.(gosym.Iface); ok {
				if code, isInt := iv.V.(int64); isInt && code == 0 {
					gp = nil // os.Exit(0) is a normal end of the run
				}
			}
		}
		// what the run was asked to do, decided on this path (flags are concrete per path after forking)
		in, out := "", ""
		var targets []string
		model := func() (map[string]uint64, []string) {
			_, m := c.Sat()
			var as []string
			for _, a := range args {
				as = append(as, ModelStr(a, m))
			}
			return m, as
		}
		bad := func(what string) cmdOutcome {
			m, as := model()
			lits := map[string]int64{}
			for k, v := range m {
				if strings.HasPrefix(k, "lit") {
					lits[k] = int64(v)
				}
			}
			mt := map[string]int64{}
			for k, v := range m {
				if strings.HasPrefix(k, "mtime_/w/") && !strings.Contains(k, "#w") {
					mt[strings.TrimPrefix(k, "mtime_/w/")] = int64(v)
				}
			}
			return cmdOutcome{Kind: "bad", What: what, Args: as, Lits: lits, MTimes: mt}
		}
		unknownOpt := false
		nIn, nOut := 0, 0
		for _, o := range optsL {
			fs := "?"
			for _, known := range []string{"-i", "--in", "-o", "--out", "-t", "--type"} {
				if c.Branch(c.StrEq(o.flag, gosym.Conc(known))) {
					fs = known
					break
				}
			}
			switch fs {
			case "-i", "--in":
				in = o.value
				nIn++
			case "-o", "--out":
				out = o.value
				nOut++
			case "-t", "--type":
				targets = append(targets, o.value)
			default:
				unknownOpt = true
			}
		}
		// input must never change
		for p, s := range before {
			if strings.HasPrefix(p, "/w/in/") {
				if now, ok := c.FS.Files[p]; !ok || !c.StrEq(now, s).IsTrue() {
					return bad("input file " + p + " was modified")
				}
			}
		}
		changed := func() []string {
			var ch []string
			for p, s := range c.FS.Files {
				if b, ok := before[p]; !ok || !c.StrEq(b, s).IsTrue() {
					ch = append(ch, p)
				}
			}
			return ch
		}
		if gp != nil {
			// error exit: nothing may have been written for the failing target
			// (files of targets that succeeded before the failure are allowed)
			okTargets := map[string]bool{}
			if in != "" && out != "" {
				for _, t := range targets {
					ext := map[string]string{"bash": "sh", "batch": "bat"}[t]
					if ext == "" {
						break
					}
					var script gosym.Str
					var he bool
					if c.Try(func() { script, _, he = c.Transpile(in, t) }) != nil || he {
						break
					}
					_ = script
					okTargets[filepath.Join("/w", out, stem(in)+"."+ext)] = true
				}
			}
			for _, p := range changed() {
				if !okTargets[p] {
					return bad(fmt.Sprintf("failed run (%s) left a new or changed file %s", gp.Msg, p))
				}
			}
			// a run whose options are complete and valid, whose output directory exists and whose input the library
			// accepts for every requested target must succeed
			if !unknownOpt && nIn == 1 && nOut == 1 && len(targets) > 0 && len(okTargets) > 0 && c.FS.Dirs[c.FS.Abs(out)] {
				allOK := true
				seenT := map[string]bool{}
				for _, t := range targets {
					if map[string]string{"bash": "sh", "batch": "bat"}[t] == "" {
						allOK = false
					}
					seenT[t] = true
				}
				if allOK && len(okTargets) == len(seenT) {
					return bad(fmt.Sprintf("the run fails (%s) although the options are valid and the library accepts the input", gp.Msg))
				}
			}
			return cmdOutcome{Kind: "error-exit"}
		}
		// normal exit: options must have been complete and valid
		if unknownOpt || in == "" || out == "" || len(targets) == 0 {
			return bad("exit status 0 although the options are incomplete or unknown")
		}
		want := map[string]gosym.Str{}
		for _, t := range targets {
			ext := map[string]string{"bash": "sh", "batch": "bat"}[t]
			if ext == "" {
				return bad("exit status 0 with an unknown target " + t)
			}
			var script gosym.Str
			var he bool
			if gp2 := c.Try(func() { script, _, he = c.Transpile(in, t) }); gp2 != nil || he {
				return bad("exit status 0 although the library rejects the input")
			}
			want[filepath.Join("/w", out, stem(in)+"."+ext)] = script
		}
		for p, w := range want {
			got, ok := c.FS.Files[p]
			if !ok {
				return bad("output file " + p + " was not written")
			}
			eq := c.StrEq(got, w)
			if !eq.IsTrue() {
				if res, _ := c.Sat(B.Not(eq)); res == sym.Sat {
					return bad("output file " + p + " differs from what the library returns for a fresh converter")
				}
			}
		}
		for _, p := range changed() {
			if _, ok := want[p]; !ok {
				return bad("unexpected file written: " + p)
			}
		}
		return cmdOutcome{Kind: "ok-exit"}
	}, gosym.ExploreOpts{Workers: r.Workers, TimeoutMS: 10000, Budget: gosym.Budget{MaxPaths: 4_000_000, Steps: 30_000_000}, OnPath: func(pr *gosym.PathResult) {
		if pr.End == "unsupported" {
			for _, n := range pr.Notes {
				if strings.HasPrefix(n, "args:") {
					var as []string
					if json.Unmarshal([]byte(n[5:]), &as) == nil {
						probes[strings.Join(as, "\x00")] = as
					}
				}
			}
		}
		o, ok := pr.Ret.(cmdOutcome)
		if !ok {
			return
		}
		switch o.Kind {
		case "ok-exit":
			okRuns++
		case "error-exit":
			errRuns++
		case "bad":
			if len(bads) < 200 {
				bads = append(bads, o)
			}
		}
	}})
	r.Absorb("H_C19_command_line", st, fmt.Sprintf("os.Args = up to %d option/value pairs plus an optional trailing singleton; short flags are two symbolic bytes over \"-iotx\", long and odd flags from menus; values from menus of %d input paths (several dots, no extension, blank, rejected programs, missing, directory), %d output paths and 5 target spellings; the program's integer literal is symbolic", maxPairs, len(inputs), len(outs)))
	// paths the engine could not interpret (e.g. file operations without a model) are probed natively
	var pkeys []string
	for k := range probes {
		pkeys = append(pkeys, k)
	}
	sort.Strings(pkeys)
	// one probe per combination of option values (flag spelling and order normalised), so that every input/output/target
	// combination the engine could not decide is run natively
	// the probe budget is spread over the argument orders: keys are visited in the order of a hash of the option-letter
	// sequence and the key, so that no order (e.g. the target named first) is starved by the ones that sort before it
	orderOf := func(k string) string {
		var sb strings.Builder
		for i, a := range probes[k] {
			if i > 0 && strings.HasPrefix(a, "-") && len(strings.TrimLeft(a, "-")) > 0 {
				sb.WriteString(strings.TrimLeft(a, "-")[:1])
			}
		}
		return sb.String()
	}
	byOrder := map[string][]string{}
	var orders []string
	for _, k := range pkeys {
		o := orderOf(k)
		if _, ok := byOrder[o]; !ok {
			orders = append(orders, o)
		}
		byOrder[o] = append(byOrder[o], k)
	}
	sort.Strings(orders)
	var interleaved []string
	for i := 0; len(interleaved) < len(pkeys); i++ {
		for _, o := range orders {
			if i < len(byOrder[o]) {
				interleaved = append(interleaved, byOrder[o][i])
			}
		}
	}
	pkeys = interleaved
	bucketSeen := map[string]bool{}
	var chosen []string
	for _, k := range pkeys {
		as := probes[k]
		var vals []string
		for i := 1; i < len(as); i++ {
			a := as[i]
			if strings.HasPrefix(a, "-") {
				a = "-" + strings.TrimLeft(a, "-")[:1]
			}
			vals = append(vals, a)
		}
		bk := strings.Join(vals, "\x00")
		if bucketSeen[bk] {
			continue
		}
		bucketSeen[bk] = true
		chosen = append(chosen, k)
	}
	probed := 0
	for _, k := range chosen {
		if probed >= 600 {
			break
		}
		probed++
		b := cmdOutcome{Kind: "bad", What: "native probe: output file differs from the library result", Args: probes[k], Lits: map[string]int64{"lit0": 5}}
		confirmed, what := confirmCmd(nat, b)
		if os.Getenv("VERIF_DEBUG") != "" {
			fmt.Fprintf(os.Stderr, "probe %q -> %v %s\n", b.Args, confirmed, what)
		}
		if confirmed {
			bads = append(bads, b)
		}
	}
	r.Cov("paths_decided_by_native_probe_only", probed)
	seen := map[string]bool{}
	validated := 0
	for _, b := range bads {
		class := "C19." + classifyCmd(b)
		if seen[class] {
			continue
		}
		seen[class] = true
		confirmed, what := confirmCmd(nat, b)
		validated++
		if !confirmed {
			r.Spurious(fmt.Sprintf("command-line candidate %v (%s) did not reproduce with the native binary: %s", b.Args, b.What, what))
			continue
		}
		if r.IsKnown(class) {
			r.HitKnown(class, strings.Join(b.Args, " "))
			continue
		}
		rd := r.WriteReplay(class, map[string]string{"finding.txt": fmt.Sprintf("property C19\nargs %q\n%s\nnative: %s\n", b.Args, b.What, what)})
		r.AddViolation(Violation{Class: class, What: fmt.Sprintf("args %q: %s (native: %s)", b.Args, b.What, what), Replay: rd})
	}
	r.Cov("states", okRuns+errRuns)
	r.Cov("successful_runs", okRuns)
	r.Cov("error_exits", errRuns)
	r.Cov("traces_validated_against_impl", validated)
	r.AddSample(map[string]interface{}{"args": []string{"tsh", "<2 symbolic bytes>", "in/a.b.tsh", "--out", "out dir", "-t", "bash", "-t", "bash"}})
	r.Assume("exit status: a Go panic escaping main is exit status 2, normal return is 0; os.WriteFile failures are not injected (not in the property's error list)")
	r.Assume("the file system is virtual: /w/in holds accepted, rejected and lexically invalid programs, /w/out holds stale outputs")
	return r.Finish("model_checking")
}

func stem(in string) string {
	b := filepath.Base(in)
	return b[:len(b)-len(filepath.Ext(in))]
}

func classifyCmd(b cmdOutcome) string {
	n := map[string]int{}
	for i := 1; i+1 < len(b.Args); i += 2 {
		if b.Args[i] == "-t" || b.Args[i] == "--type" {
			n[b.Args[i+1]]++
		}
	}
	for _, k := range n {
		if k > 1 {
			return "repeated-target"
		}
	}
	switch {
	case strings.Contains(b.What, "left a new or changed file"):
		return "partial-output-on-error"
	case strings.Contains(b.What, "differs"):
		return "output-differs"
	case strings.Contains(b.What, "exit status 0"):
		return "exit-0-on-error"
	case strings.Contains(b.What, "the run fails"):
		return "valid-run-fails"
	case strings.Contains(b.What, "not written"):
		return "output-missing"
	}
	return "other"
}

// confirmCmd runs the natively built tsh with the concrete arguments in a scratch tree.
func confirmCmd(nat *Native, b cmdOutcome) (bool, string) {
	dir, err := os.MkdirTemp(scratchRoot(), "verif-c19-")
	if err != nil {
		return false, err.Error()
	}
	defer os.RemoveAll(dir)
	x := fmt.Sprint(b.Lits["lit0"])
	if _, ok := b.Lits["lit0"]; !ok {
		x = "5"
	}
	good := strings.ReplaceAll(goodProg, "7000000", x)
	w := map[string]string{"in/rel.1.0/build": good, "in/a.tsh": good, "in/a.b.tsh": strings.ReplaceAll(importingProg, "7000000", x), "in/lib/state.tsh": libState, "in/std.tsh": strings.ReplaceAll(stdProg, "7000000", x), "in/noext": good, "in/my prog.tsh": good, "in/bad.tsh": badProg, "in/lexbad.tsh": lexBad, "out/a.sh": staleText, "out/a.bat": staleText, "out/bad.sh": staleText, "out/a.b.sh": staleText, "out/a.b.bat": staleText, "out dir/my prog.sh": staleText}
	for p, c := range w {
		os.MkdirAll(filepath.Dir(filepath.Join(dir, p)), 0o777)
		os.WriteFile(filepath.Join(dir, p), []byte(c), 0o666)
	}
	os.MkdirAll(filepath.Join(dir, "out dir"), 0o777)
	snapshot := func() map[string]string {
		m := map[string]string{}
		filepath.Walk(dir, func(p string, info os.FileInfo, err error) error {
			if err == nil && !info.IsDir() {
				bs, _ := os.ReadFile(p)
				rel, _ := filepath.Rel(dir, p)
				m[rel] = string(bs)
			}
			return nil
		})
		return m
	}
	// modification times: the counterexample's where the path depends on them, otherwise one common instant
	filepath.Walk(dir, func(p string, info os.FileInfo, err error) error {
		if err == nil && !info.IsDir() {
			rel, _ := filepath.Rel(dir, p)
			t := time.Unix(1_500_000_000, 0)
			if v, ok := b.MTimes[rel]; ok {
				t = time.Unix(v, 0)
			}
			os.Chtimes(p, t, t)
		}
		return nil
	})
	before := snapshot()
	cmd := exec.Command("/usr/bin/timeout", append([]string{"20", filepath.Base(nat.Tsh)}, b.Args[1:]...)...)
	cmd.Env = append(os.Environ(), "PATH="+filepath.Dir(nat.Tsh)+":/usr/bin:/bin") // started by bare name through the search path
	cmd.Dir = dir
	outb, err := cmd.CombinedOutput()
	code := 0
	if ee, ok := err.(*exec.ExitError); ok {
		code = ee.ExitCode()
	}
	after := snapshot()
	var changed []string
	for p, c := range after {
		if before[p] != c {
			changed = append(changed, p)
		}
	}
	// reference: what the library returns, via the driver
	in, out := "", ""
	var targets []string
	for i := 1; i+1 < len(b.Args); i += 2 {
		switch b.Args[i] {
		case "-i", "--in":
			in = b.Args[i+1]
		case "-o", "--out":
			out = b.Args[i+1]
		case "-t", "--type":
			targets = append(targets, b.Args[i+1])
		}
	}
	desc := fmt.Sprintf("exit=%d changed=%v output=%q", code, changed, tail(string(outb), 160))
	if code == 0 {
		for _, t := range targets {
			ext := map[string]string{"bash": "sh", "batch": "bat"}[t]
			res, err := nat.RunDrv([]DrvReq{{Op: "transpile", Files: map[string]string{"main.tsh": before[in], "lib/state.tsh": libState}, Main: "main.tsh", Target: t}}, 30e9)
			if err != nil || ext == "" {
				return true, desc + " (library rejects or unknown target)"
			}
			got := after[filepath.Join(out, stem(in)+"."+ext)]
			if got != res[0].Script {
				return true, desc + fmt.Sprintf("; %s.%s has %d bytes, the library returns %d bytes", stem(in), ext, len(got), len(res[0].Script))
			}
		}
		if strings.Contains(b.What, "exit status 0") {
			return true, desc
		}
		return false, desc
	}
	if strings.Contains(b.What, "left a new or changed file") && len(changed) > 0 {
		return true, desc
	}
	if strings.Contains(b.What, "the run fails") {
		return true, desc
	}
	return false, desc
}
