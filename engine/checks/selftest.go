package checks

import (
	"fmt"
	"strings"
	"time"

	"verif/engine/gosym"
	"verif/engine/oracle"
)

// runShSemConcrete runs a concrete script through ShSem.
func runShSemConcrete(eng *gosym.Engine, script string, stdin []string, files map[string]string) (out string, status int64, errOut string, unsupported string) {
	eng.Explore(func(c *gosym.Ctx) interface{} {
		defer func() {
			if r := recover(); r != nil {
				if u, ok := r.(oracle.ShUnsupported); ok {
					unsupported = u.Msg
					return
				}
				panic(r)
			}
		}()
		sh := oracle.NewShell(c)
		for _, l := range stdin {
			sh.Stdin = append(sh.Stdin, gosym.Conc(l))
		}
		for k, v := range files {
			sh.Files[k] = gosym.Conc(v)
		}
		o, st := sh.RunScript(gosym.Conc(script))
		out, _ = o.Go()
		if s, ok := st.(int64); ok {
			status = s
		}
		e, _ := gosym.Concat(sh.Err...).Go()
		errOut = e
		return nil
	}, gosym.ExploreOpts{Workers: 1})
	return
}

// Calibrate runs the repository's own test programs through the native transpiler,
// the real /bin/bash and ShSem and reports agreement.
func Calibrate(r *Run) (agree, disagree, skipped int, notes []string) {
	seeds := RepoSeeds()
	var reqs []DrvReq
	for _, s := range seeds {
		reqs = append(reqs, DrvReq{Op: "transpile", Files: map[string]string{"main.tsh": s.Src}, Main: "main.tsh", Target: "bash"})
	}
	res, err := r.Native.RunDrv(reqs, 120*time.Second)
	if err != nil {
		return 0, 0, len(seeds), []string{"driver failed: " + err.Error()}
	}
	for i, s := range seeds {
		if res[i].HasErr || res[i].Panic != "" {
			skipped++
			continue
		}
		if strings.Contains(res[i].Script, "\nread ") || strings.Contains(s.Src, "@") {
			skipped++
			continue
		}
		real := RunBash(res[i].Script, "", nil, 10*time.Second)
		out, st, _, un := runShSemConcrete(r.Eng, res[i].Script, nil, nil)
		if un != "" {
			skipped++
			notes = append(notes, fmt.Sprintf("%s: ShSem unsupported: %s", s.Name, un))
			continue
		}
		if out == real.Stdout && int(st) == real.Code {
			agree++
		} else {
			disagree++
			notes = append(notes, fmt.Sprintf("%s: bash (%q,%d) vs ShSem (%q,%d)", s.Name, real.Stdout, real.Code, out, st))
		}
	}
	return
}
