package checks

import (
	"fmt"
	"math/rand"
	"os"

	"verif/engine/gosym"
	. "verif/engine/oracle"
)

// Gen is a typed random generator of well-typed, terminating TypeShell programs (ASTs).
// Integer literals are symbolic markers with probability pSym; structure is concrete.
type Gen struct {
	rng       *rand.Rand
	ints      []string
	bools     []string
	strs      []string
	slices    []string // []int variables
	protected map[string]bool
	nmark     int
	maxMark   int
	nvar      int
	symConds  int // symbolic conditions generated so far (bounds path count)
	maxSym    int
	funcs     []genFunc
	inLoop    int
	inFunc    bool
	freed     map[string][]string // names whose scope has ended, by prefix: reused by later declarations (same name in sibling scopes / other frames)
	globals   genScope            // variables defined before the functions (visible inside them)
	withFuncs bool
	withSlice bool
	budget    int
}

type genFunc struct {
	name   string
	params []Type
	rets   []Type
}

func NewGen(seed int64, withFuncs, withSlice bool) *Gen {
	return &Gen{rng: rand.New(rand.NewSource(seed)), protected: map[string]bool{}, freed: map[string][]string{}, maxMark: 5, maxSym: 4, withFuncs: withFuncs, withSlice: withSlice, budget: 60}
}

func (g *Gen) pick(n int) int { return g.rng.Intn(n) }

func (g *Gen) fresh(p string) string {
	// every second declaration reuses a name that has gone out of scope (never a visible one: redeclaring an
	// outer-scope variable is excluded from the properties)
	if fl := g.freed[p]; len(fl) > 0 && g.pick(2) == 0 {
		k := g.pick(len(fl))
		n := fl[k]
		g.freed[p] = append(append([]string{}, fl[:k]...), fl[k+1:]...)
		return n
	}
	g.nvar++
	return fmt.Sprintf("%s%d", p, g.nvar)
}

// release makes the names of a closed scope available again.
func (g *Gen) release(names []string) {
	for _, n := range names {
		delete(g.protected, n)
		p := n[:1]
		g.freed[p] = append(g.freed[p], n)
	}
}

func (g *Gen) intLit() Expr {
	if g.nmark < g.maxMark && g.pick(3) == 0 {
		g.nmark++
		return L(g.nmark - 1)
	}
	return N(int64(g.pick(9)) - 2)
}

func (g *Gen) intExpr(d int) Expr {
	g.budget--
	if d <= 0 || g.budget <= 0 || g.pick(3) == 0 {
		if len(g.ints) > 0 && g.pick(2) == 0 {
			return V(g.ints[g.pick(len(g.ints))])
		}
		return g.intLit()
	}
	switch g.pick(9) {
	case 0, 1:
		return Op("+", g.intExpr(d-1), g.intExpr(d-1))
	case 2, 3:
		return Op("-", g.intExpr(d-1), g.intExpr(d-1))
	case 4:
		return Op("*", g.intExpr(d-1), g.intExpr(d-1))
	case 5:
		// divisor: a non-zero constant (division by zero is excluded from the property)
		return Op([]string{"/", "%"}[g.pick(2)], g.intExpr(d-1), N(int64(g.pick(4))+1))
	case 6:
		return P(g.intExpr(d - 1))
	case 7:
		if g.withSlice && len(g.slices) > 0 {
			return Len(V(g.slices[g.pick(len(g.slices))]))
		}
		if len(g.strs) > 0 {
			return Len(V(g.strs[g.pick(len(g.strs))]))
		}
		return g.intLit()
	default:
		if f := g.funcReturning(TInt); f != nil && d > 0 {
			return g.callOf(*f, d-1)
		}
		return g.intLit()
	}
}

func (g *Gen) boolExpr(d int) Expr {
	g.budget--
	if d <= 0 || g.budget <= 0 {
		if len(g.bools) > 0 && g.pick(2) == 0 {
			return V(g.bools[g.pick(len(g.bools))])
		}
		return BoolLit{Val: g.pick(2) == 0}
	}
	switch g.pick(8) {
	case 0, 1, 2:
		return Op(cmpOps[g.pick(6)], g.intExpr(d-1), g.intExpr(d-1))
	case 3:
		return Op("&&", g.boolExpr(d-1), g.boolExpr(d-1))
	case 4:
		return Op("||", g.boolExpr(d-1), g.boolExpr(d-1))
	case 5:
		return NOT(P(g.boolExpr(d - 1)))
	case 6:
		return Op([]string{"==", "!="}[g.pick(2)], g.strExpr(d-1), g.strExpr(d-1))
	default:
		if len(g.bools) > 0 {
			return V(g.bools[g.pick(len(g.bools))])
		}
		return Op("==", g.boolExpr(d-1), g.boolExpr(d-1))
	}
}

func (g *Gen) strExpr(d int) Expr {
	g.budget--
	if d <= 0 || g.budget <= 0 || g.pick(2) == 0 {
		if len(g.strs) > 0 && g.pick(2) == 0 {
			return V(g.strs[g.pick(len(g.strs))])
		}
		return S([]string{"a", "b", "ab", "", "x y", "Z9"}[g.pick(6)])
	}
	switch g.pick(3) {
	case 0:
		return Op("+", g.strExpr(d-1), g.strExpr(d-1))
	case 1:
		return ItoaE{X: g.intExpr(d - 1)}
	default:
		return g.strExpr(d - 1)
	}
}

func (g *Gen) exprOf(t Type, d int) Expr {
	switch t.Base {
	case "int":
		return g.intExpr(d)
	case "bool":
		return g.boolExpr(d)
	}
	return g.strExpr(d)
}

func (g *Gen) funcReturning(t Type) *genFunc {
	var cands []genFunc
	for _, f := range g.funcs {
		if len(f.rets) == 1 && f.rets[0] == t {
			cands = append(cands, f)
		}
	}
	if len(cands) == 0 {
		return nil
	}
	f := cands[g.pick(len(cands))]
	return &f
}

func (g *Gen) callOf(f genFunc, d int) Expr {
	var args []Expr
	for _, p := range f.params {
		args = append(args, g.exprOf(p, d))
	}
	return Call(f.name, args...)
}

// cond generates a condition; symbolic conditions are limited to keep the number of paths small.
func (g *Gen) cond(d int) Expr {
	before := g.nmark
	saved := g.maxMark
	if g.symConds >= g.maxSym {
		g.maxMark = g.nmark // no new symbolic literals in this condition
	}
	e := g.boolExpr(d)
	g.maxMark = saved
	if g.nmark > before {
		g.symConds++
	}
	return e
}

type genScope struct{ ints, bools, strs, slices int }

func (g *Gen) save() genScope { return genScope{len(g.ints), len(g.bools), len(g.strs), len(g.slices)} }
func (g *Gen) restore(s genScope) {
	g.release(g.ints[s.ints:])
	g.release(g.bools[s.bools:])
	g.release(g.strs[s.strs:])
	g.release(g.slices[s.slices:])
	g.ints, g.bools, g.strs, g.slices = g.ints[:s.ints], g.bools[:s.bools], g.strs[:s.strs], g.slices[:s.slices]
}

func (g *Gen) block(n, d int) []Stmt {
	s := g.save()
	var out []Stmt
	for i := 0; i < n; i++ {
		out = append(out, g.stmt(d)...)
	}
	g.restore(s)
	return out
}

func (g *Gen) assignable(list []string) (string, bool) {
	var c []string
	for _, v := range list {
		if !g.protected[v] {
			c = append(c, v)
		}
	}
	if len(c) == 0 {
		return "", false
	}
	return c[g.pick(len(c))], true
}

func (g *Gen) stmt(d int) []Stmt {
	g.budget--
	choice := g.pick(19)
	if d <= 0 && choice >= 9 && choice <= 15 {
		choice = g.pick(9)
	}
	switch choice {
	case 0:
		n := g.fresh("i")
		e := g.intExpr(2)
		g.ints = append(g.ints, n)
		return []Stmt{Def(n, e)}
	case 1:
		n := g.fresh("b")
		e := g.boolExpr(2)
		g.bools = append(g.bools, n)
		return []Stmt{Def(n, e)}
	case 2:
		n := g.fresh("s")
		e := g.strExpr(2)
		g.strs = append(g.strs, n)
		return []Stmt{Def(n, e)}
	case 3, 4:
		var args []Expr
		for k := g.pick(3) + 1; k > 0; k-- {
			args = append(args, g.exprOf([]Type{TInt, TBool, TString}[g.pick(3)], 2))
		}
		return []Stmt{Pr(args...)}
	case 5:
		if v, ok := g.assignable(g.ints); ok {
			switch g.pick(4) {
			case 0:
				return []Stmt{Set(v, g.intExpr(2))}
			case 1:
				return []Stmt{OpSet(v, []string{"+", "-", "*"}[g.pick(3)], g.intExpr(1))}
			case 2:
				return []Stmt{Inc(v)}
			default:
				return []Stmt{Dec(v)}
			}
		}
		return []Stmt{Pr(g.intExpr(2))}
	case 6:
		if v, ok := g.assignable(g.bools); ok {
			return []Stmt{Set(v, g.boolExpr(2))}
		}
		if v, ok := g.assignable(g.strs); ok {
			return []Stmt{OpSet(v, "+", g.strExpr(1))}
		}
		return []Stmt{Pr(g.boolExpr(2))}
	case 7:
		if g.withSlice {
			if len(g.slices) > 0 && g.pick(2) == 0 {
				sl := g.slices[g.pick(len(g.slices))]
				return []Stmt{SSet(sl, N(int64(g.pick(4))), g.intExpr(1)), Pr(Len(V(sl)), Idx(sl, N(0)))}
			}
			n := g.fresh("q")
			lit := Ints(g.intExpr(1), g.intExpr(1))
			g.slices = append(g.slices, n)
			return []Stmt{Def(n, lit)}
		}
		return []Stmt{Pr(g.strExpr(2))}
	case 8:
		if g.inLoop > 0 {
			// break / continue guarded by a condition
			return []Stmt{IfS(g.cond(1), []Stmt{Break{}, Continue{}}[g.pick(2)])}
		}
		if f := g.funcReturning(TInt); f != nil {
			return []Stmt{Pr(g.callOf(*f, 1))}
		}
		return []Stmt{Pr(g.intExpr(2))}
	case 9, 10:
		// if / else-if / else
		nb := g.pick(3) + 1
		var conds []Expr
		var blocks []Blk
		for k := 0; k < nb; k++ {
			conds = append(conds, g.cond(2))
			blocks = append(blocks, Blk(g.block(g.pick(3), d-1)))
		}
		var els Blk
		if g.pick(2) == 0 {
			els = Blk(g.block(g.pick(2)+1, d-1))
		}
		return []Stmt{IfChain(conds, blocks, els)}
	case 11:
		// switch over an int or without tag
		var sw Switch
		if g.pick(2) == 0 && len(g.ints) > 0 {
			sw.Tag = V(g.ints[g.pick(len(g.ints))])
			for k := g.pick(3); k > 0; k-- {
				sw.Cases = append(sw.Cases, Case{Val: g.intLit(), Body: g.blockNoBreak(g.pick(2)+1, d-1)})
			}
		} else {
			for k := g.pick(2) + 1; k > 0; k-- {
				sw.Cases = append(sw.Cases, Case{Val: g.cond(1), Body: g.blockNoBreak(g.pick(2)+1, d-1)})
			}
		}
		if g.pick(3) > 0 || len(sw.Cases) == 0 {
			sw.HasDef = true
			sw.DefPos = len(sw.Cases)
			sw.Default = g.blockNoBreak(g.pick(2)+1, d-1)
		}
		return []Stmt{sw}
	case 12, 13:
		// three-part loop with a protected counter and a concrete bound
		iv := g.fresh("k")
		bound := int64(g.pick(4))
		g.protected[iv] = true
		s := g.save()
		g.ints = append(g.ints, iv)
		g.inLoop++
		body := g.block(g.pick(3)+1, d-1)
		g.inLoop--
		g.restore(s)
		if g.pick(3) == 0 {
			return []Stmt{For3(Def(iv, N(bound)), Op(">", V(iv), N(0)), Dec(iv), body...)}
		}
		return []Stmt{For3(Def(iv, N(0)), Op("<", V(iv), N(bound)), Inc(iv), body...)}
	case 14:
		// condition-only loop driven by a protected counter
		cv := g.fresh("c")
		g.protected[cv] = true
		s := g.save()
		g.ints = append(g.ints, cv)
		g.inLoop++
		body := g.block(g.pick(2)+1, d-1)
		g.inLoop--
		g.restore(s)
		g.unfree(cv) // the counter was defined before the loop and stays visible after it
		g.protected[cv] = true
		g.ints = append(g.ints, cv)
		loopBody := append([]Stmt{Inc(cv)}, body...)
		if g.pick(2) == 0 {
			return []Stmt{Def(cv, N(0)), ForC(Op("<", V(cv), N(int64(g.pick(3)+1))), loopBody...)}
		}
		return []Stmt{Def(cv, N(0)), ForEver(append([]Stmt{IfS(Op(">=", V(cv), N(int64(g.pick(3)+1))), Break{})}, loopBody...)...)}
	case 16:
		// simultaneous assignment whose right-hand sides read the targets
		a, okA := g.assignable(g.ints)
		b, okB := g.assignable(g.ints)
		if okA && okB && a != b {
			forms := []Expr{V(b), P(V(a)), Op("+", V(a), V(b)), Op("-", V(b), g.intLit()), Op("*", V(a), N(2))}
			return []Stmt{SetN([]string{a, b}, forms[g.pick(len(forms))], forms[g.pick(len(forms))])}
		}
		if sv, ok := g.assignable(g.strs); ok && okA {
			return []Stmt{SetN([]string{a, sv}, Op("+", V(a), N(1)), Op("+", ItoaE{X: V(a)}, V(sv)))}
		}
		return []Stmt{Pr(g.intExpr(2))}
	case 17:
		// calls as statements (value discarded) and multi-value calls assigned to existing variables
		if len(g.funcs) > 0 {
			f := g.funcs[g.pick(len(g.funcs))]
			if len(f.rets) == 2 && g.pick(2) == 0 {
				var targets []string
				okAll := true
				for _, rt := range f.rets {
					var v string
					var ok bool
					switch rt.Base {
					case "int":
						v, ok = g.assignable(g.ints)
					case "bool":
						v, ok = g.assignable(g.bools)
					default:
						v, ok = g.assignable(g.strs)
					}
					if !ok || (len(targets) > 0 && targets[0] == v) {
						okAll = false
						break
					}
					targets = append(targets, v)
				}
				if okAll {
					return []Stmt{SetN(targets, g.callOf(f, 1))}
				}
			}
			return []Stmt{Do(g.callOf(f, 1))}
		}
		return []Stmt{Do(g.intExpr(2))}
	case 18:
		// an expression used as a statement (its operands may be calls with effects)
		if g.pick(2) == 0 {
			return []Stmt{Do(g.intExpr(2))}
		}
		return []Stmt{Do(g.boolExpr(2))}
	default:
		if g.inFunc || g.inLoop > 0 {
			return []Stmt{Pr(g.strExpr(2), g.intExpr(2))}
		}
		return []Stmt{PanicGuard(g.cond(2), g.strExpr(1))}
	}
}

func (g *Gen) unfree(n string) {
	p := n[:1]
	fl := g.freed[p]
	for i, x := range fl {
		if x == n {
			g.freed[p] = append(append([]string{}, fl[:i]...), fl[i+1:]...)
			return
		}
	}
}

// blockNoBreak: switch bodies must not contain a bare break (break inside a switch is excluded)
func (g *Gen) blockNoBreak(n, d int) []Stmt {
	saved := g.inLoop
	g.inLoop = 0
	b := g.block(n, d)
	g.inLoop = saved
	return b
}

func PanicGuard(c Expr, msg Expr) Stmt { return IfS(c, PanicS{X: msg}) }

// genFuncDef creates a function with scalar parameters and one or two results.
func (g *Gen) genFuncDef() Stmt {
	name := g.fresh("f")
	np := g.pick(3)
	var params []ParamDecl
	var ptypes []Type
	savedI, savedB, savedS, savedQ := g.ints, g.bools, g.strs, g.slices
	// a function body sees the globals defined before it, nothing else of the top level
	g.ints = append([]string{}, savedI[:g.globals.ints]...)
	g.bools = append([]string{}, savedB[:g.globals.bools]...)
	g.strs = append([]string{}, savedS[:g.globals.strs]...)
	g.slices = nil
	fscope := g.save()
	for k := 0; k < np; k++ {
		t := []Type{TInt, TInt, TBool, TString}[g.pick(4)]
		pn := g.fresh("p")
		params = append(params, Pm(pn, t))
		ptypes = append(ptypes, t)
		switch t.Base {
		case "int":
			g.ints = append(g.ints, pn)
		case "bool":
			g.bools = append(g.bools, pn)
		default:
			g.strs = append(g.strs, pn)
		}
	}
	rets := []Type{[]Type{TInt, TInt, TBool, TString}[g.pick(4)]}
	if g.pick(4) == 0 {
		rets = append(rets, TInt)
	}
	g.inFunc = true
	body := g.block(g.pick(3), 1)
	var rv []Expr
	for _, t := range rets {
		rv = append(rv, g.exprOf(t, 2))
	}
	body = append(body, Ret(rv...))
	g.inFunc = false
	g.restore(fscope) // parameters and locals go out of scope: their names may be reused by later frames and globals
	g.ints, g.bools, g.strs, g.slices = savedI, savedB, savedS, savedQ
	g.funcs = append(g.funcs, genFunc{name: name, params: ptypes, rets: rets})
	return Fn(name, params, rets, body...)
}

// Program generates one program.
func (g *Gen) Program(nStmts int) *Program {
	var body []Stmt
	if g.withFuncs {
		// globals defined before the functions are read and written in place by them
		for k := g.pick(3); k > 0; k-- {
			switch g.pick(3) {
			case 0:
				n := g.fresh("s")
				body = append(body, Def(n, g.strExpr(1)))
				g.strs = append(g.strs, n)
			default:
				n := g.fresh("i")
				body = append(body, Def(n, g.intExpr(1)))
				g.ints = append(g.ints, n)
			}
		}
		g.globals = g.save()
		for k := g.pick(3) + 1; k > 0; k-- {
			body = append(body, g.genFuncDef())
		}
	}
	for i := 0; i < nStmts; i++ {
		body = append(body, g.stmt(2)...)
		if g.withFuncs && g.pick(3) == 0 {
			// multi-value use
			for _, f := range g.funcs {
				if len(f.rets) == 2 && g.pick(2) == 0 {
					a, b := g.fresh("m"), g.fresh("m")
					body = append(body, DefN([]string{a, b}, g.callOf(f, 1)), Pr(V(a), V(b)))
					break
				}
			}
		}
	}
	// observe every live variable at the end
	var obs []Expr
	for _, v := range g.ints {
		obs = append(obs, V(v))
	}
	for _, v := range g.bools {
		obs = append(obs, V(v))
	}
	for _, v := range g.strs {
		obs = append(obs, V(v))
	}
	if len(obs) > 0 {
		body = append(body, Pr(obs...))
	}
	return Prog(body...)
}

// generatedShapes returns n generated program shapes (deterministic in seed).
func generatedShapes(prefix string, seed int64, n int, withFuncs, withSlice bool) []Shape {
	var out []Shape
	for i := 0; i < n; i++ {
		s := seed*100003 + int64(i)
		g := NewGen(s, withFuncs, withSlice)
		p := g.Program(4 + g.pick(4))
		if os.Getenv("VERIF_DUMP_GEN") != "" {
			fmt.Fprintf(os.Stderr, "---- generated %s #%d\n%s", prefix, i, Render(p).String())
		}
		out = append(out, Shape{Name: fmt.Sprintf("%s-generated", prefix), Prog: func(c *gosym.Ctx) *Program { return p }})
	}
	return out
}
