package checks

import (
	"fmt"
	"os"
	"path/filepath"
	"strings"
	"time"
)

// Replay re-runs a stored counterexample against the natively built working tree.
// Exit status 1 = the violation reproduces, 0 = it does not (any more).
func Replay(id, dir string) int {
	fb, _ := os.ReadFile(filepath.Join(dir, "finding.txt"))
	fmt.Printf("replaying %s from %s\n%s\n", id, dir, string(fb))
	nat, err := BuildNative()
	if err != nil {
		fmt.Println("cannot build the repository natively:", err)
		return 2
	}
	defer nat.Close()
	read := func(n string) (string, bool) {
		b, err := os.ReadFile(filepath.Join(dir, n))
		return string(b), err == nil
	}
	if in, ok := read("input.tsh"); ok {
		r, err := NewRun(id, "quick")
		if err != nil {
			fmt.Println(err)
			return 2
		}
		r.Native = nat
		confirmed, what := confirmLex(r, tokenTypeIDs(r.Eng), in)
		fmt.Printf("input %q: reproduces=%v %s\n", in, confirmed, what)
		if confirmed {
			return 1
		}
		return 0
	}
	if main, ok := read("main.tsh"); ok {
		files := map[string]string{"main.tsh": main}
		pre := map[string]string{}
		filepath.Walk(dir, func(p string, info os.FileInfo, err error) error {
			if err != nil || info.IsDir() {
				return nil
			}
			n, _ := filepath.Rel(dir, p)
			switch {
			case strings.HasSuffix(n, ".tsh") && n != "main.tsh" && n != "neutral.tsh":
				files[n], _ = read(n)
			case strings.HasPrefix(n, "pre_"):
				c, _ := read(n)
				pre[strings.TrimPrefix(n, "pre_")] = c
			}
			return nil
		})
		stdin, _ := read("stdin.txt")
		files = realizeHashClasses(files)
		res, err := nat.RunDrv([]DrvReq{{Op: "transpile", Files: files, Main: "main.tsh", Target: "bash"}, {Op: "transpile", Files: files, Main: "main.tsh", Target: "batch"}}, 60*time.Second)
		if err != nil {
			fmt.Println("native transpilation crashed or hung:", err)
			return 1
		}
		fmt.Printf("native Transpile (bash): error=%q panic=%q, %d bytes\nnative Transpile (batch): error=%q panic=%q, %d bytes\n", res[0].Err, res[0].Panic, len(res[0].Script), res[1].Err, res[1].Panic, len(res[1].Script))
		want, hasWant := read("expected.out")
		if !hasWant {
			fmt.Println("no expected.out: compare the result above with finding.txt")
			if res[0].Panic != "" {
				return 1
			}
			return 0
		}
		if res[0].HasErr || res[0].Panic != "" {
			fmt.Println("the program is rejected, expected output:", want)
			return 1
		}
		b := RunBash(res[0].Script, stdin, pre, 10*time.Second)
		fmt.Printf("bash: stdout %q exit %d stderr %q timeout=%v\nexpected stdout %q\n", b.Stdout, b.Code, b.Stderr, b.Timeout, want)
		if b.Stdout != want || b.Stderr != "" || b.Timeout {
			return 1
		}
		return 0
	}
	fmt.Println("this replay directory holds a description only (finding.txt); re-run the check to re-evaluate it")
	return 1
}
