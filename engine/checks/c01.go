package checks

import (
	"fmt"
	"os"
	"sort"
	"strings"
	"sync"

	"verif/engine/gosym"
	. "verif/engine/oracle"
	"verif/engine/sym"
)

var arithOps = []string{"+", "-", "*", "/", "%"}
var cmpOps = []string{"==", "!=", "<", "<=", ">", ">="}

func constShape(name string, p *Program) Shape {
	return Shape{Name: name, Prog: func(c *gosym.Ctx) *Program { return p }}
}

// smallLits assumes literal k in [lo,hi].
func smallLits(lo, hi int64, ks ...int) func(c *gosym.Ctx) {
	return func(c *gosym.Ctx) {
		for _, k := range ks {
			v := c.MarkerVar(k)
			c.AssumeUnchecked(c.B.And(c.B.Cmp(sym.OpSLe, c.B.Int(lo, 64), v), c.B.Cmp(sym.OpSLe, v, c.B.Int(hi, 64))))
		}
	}
}

func c01Shapes() []Shape {
	var sh []Shape
	add := func(name string, p *Program) { sh = append(sh, constShape(name, p)) }
	// arithmetic: precedence and associativity with symbolic operator choice
	sh = append(sh, Shape{Name: "arith3(op1,op2)", Prog: func(c *gosym.Ctx) *Program {
		o1 := arithOps[c.Choose("op1", 0, 4)]
		o2 := arithOps[c.Choose("op2", 0, 4)]
		return Prog(Def("x", Op(o2, Op(o1, L(0), L(1)), L(2))), Pr(V("x")),
			Def("y", Op(o1, L(0), Op(o2, L(1), L(2)))), Pr(V("y")))
	}})
	sh = append(sh, Shape{Name: "arith4-mixed", Prog: func(c *gosym.Ctx) *Program {
		o := arithOps[c.Choose("op", 0, 4)]
		return Prog(Pr(Op("-", Op("+", L(0), Op("*", L(1), L(2))), L(3))),
			Pr(Op(o, P(Op("-", L(0), L(1))), P(Op("+", L(2), L(3))))))
	}})
	// chains in which only some operands are literals: what a constant folder could regroup
	sh = append(sh, Shape{Name: "variable-and-literal-chains(op1,op2)", Prog: func(c *gosym.Ctx) *Program {
		o1 := arithOps[c.Choose("op1", 0, 4)]
		o2 := arithOps[c.Choose("op2", 0, 4)]
		return Prog(Def("x", L(0)), Pr(Op(o2, Op(o1, V("x"), L(1)), L(2))), Pr(Op(o2, Op(o1, L(1), V("x")), L(2))), Pr(Op(o2, Op(o1, L(1), L(2)), V("x"))),
			Def("y", Op(o2, Op(o1, V("x"), N(7)), N(3))), Pr(V("y")), Set("y", Op(o2, Op(o1, V("y"), N(1)), N(1))), Pr(V("y")),
			Pr(Op(o2, Op(o1, L(1), L(2)), L(3))), Pr(Op(o1, V("x"), P(Op(o2, L(1), L(2))))))
	}})
	sh = append(sh, Shape{Name: "literal-only-conditions(cmp)", Prog: func(c *gosym.Ctx) *Program {
		o := cmpOps[c.Choose("cmp", 0, 5)]
		return Prog(IfElse(Op(o, L(0), L(1)), Blk{Pr(S("t"))}, Blk{Pr(S("f"))}), Pr(Op("&&", T(), Op(o, L(0), N(5))), Op("||", F(), Op(o, N(5), L(1)))),
			Pr(Op("==", S("a"), S("a")), Op("!=", S("a"), S("b")), Op("+", S("a"), S("b"))), Def("i", N(0)), ForC(Op("&&", T(), Op("<", V("i"), N(2))), Inc("i")), Pr(V("i")))
	}})
	sh = append(sh, Shape{Name: "cmp-of-sums(op)", Prog: func(c *gosym.Ctx) *Program {
		o := cmpOps[c.Choose("cmp", 0, 5)]
		return Prog(Pr(Op(o, Op("+", L(0), L(1)), Op("*", L(2), L(3)))), Def("b", Op(o, L(0), L(2))), Pr(V("b"), NOT(V("b"))))
	}})
	add("logic-mix", Prog(
		Def("a", Op("<", L(0), L(1))), Def("b", Op("==", L(2), L(3))), Def("c", Op(">=", L(4), L(5))),
		Pr(Op("||", V("a"), Op("&&", V("b"), V("c")))),
		Pr(Op("&&", P(Op("||", V("a"), V("b"))), V("c"))),
		Pr(Op("||", Op("&&", NOT(V("a")), V("b")), V("c"))),
		Pr(NOT(P(Op("&&", V("a"), V("b"))))),
		Pr(Op("||", Op("||", V("a"), V("b")), V("c")), Op("&&", Op("&&", V("a"), V("b")), V("c"))),
		Pr(Op("==", V("a"), V("b")), Op("!=", V("a"), V("c")))))
	add("logic-inline", Prog(
		Pr(Op("||", Op("<", L(0), L(1)), Op("&&", Op("<", L(1), L(2)), Op("!=", L(2), L(0))))),
		Pr(Op("&&", Op("<=", L(0), L(1)), Op("||", Op(">", L(1), L(2)), T())))))
	add("incdec", Prog(Def("x", L(0)), Dec("x"), Dec("x"), Pr(V("x")), Inc("x"), Pr(V("x")), Def("y", N(0)), Dec("y"), Pr(V("y"))))
	sh = append(sh, Shape{Name: "compound(op)", Prog: func(c *gosym.Ctx) *Program {
		o := arithOps[c.Choose("op", 0, 4)]
		return Prog(Def("x", L(0)), OpSet("x", o, L(1)), Pr(V("x")), OpSet("x", o, Op("+", L(2), N(1))), Pr(V("x")))
	}})
	add("compound-string", Prog(Def("s", S("ab")), OpSet("s", "+", S("cd")), Pr(V("s")), Pr(Op("+", Op("+", V("s"), S(" ")), ItoaE{X: L(0)}))))
	add("defaults", Prog(VarT("i", TInt), VarT("b", TBool), VarT("s", TString), Pr(V("i"), V("b"), V("s"), S("end")),
		VarTV("j", TInt, L(0)), Pr(V("j")), DefN([]string{"p", "q"}, L(1), L(2)), Pr(V("q"), V("p"))))
	add("if-chain", Prog(Def("x", L(0)),
		IfChain([]Expr{Op("<", V("x"), L(1)), Op("<", V("x"), L(2)), Op("==", V("x"), L(3))},
			[]Blk{{Pr(S("one"))}, {Pr(S("two"))}, {Pr(S("three"))}}, Blk{Pr(S("else"))}),
		Pr(S("after"))))
	add("if-nested", Prog(Def("x", L(0)), Def("y", L(1)),
		IfElse(Op("<", V("x"), V("y")), Blk{IfElse(Op("<", V("y"), L(2)), Blk{Pr(S("a"))}, Blk{Pr(S("b"))}), Pr(S("c"))},
			Blk{IfS(Op("==", V("x"), V("y")), Pr(S("d")))}), Pr(V("x"))))
	add("if-empty-blocks", Prog(Def("x", L(0)), IfElse(Op("<", V("x"), L(1)), Blk{}, Blk{Pr(S("e"))}), Pr(S("z"))))
	add("switch-int", Prog(Def("x", L(0)),
		Switch{Tag: V("x"), Cases: []Case{{Val: L(1), Body: []Stmt{Pr(S("c1"))}}, {Val: Op("+", L(2), N(1)), Body: []Stmt{Pr(S("c2"))}}}, HasDef: true, DefPos: 2, Default: []Stmt{Pr(S("d"))}},
		Pr(S("end"))))
	add("switch-notag", Prog(Def("x", L(0)),
		Switch{Cases: []Case{{Val: Op("<", V("x"), L(1)), Body: []Stmt{Pr(S("lt"))}}, {Val: Op("==", V("x"), L(1)), Body: []Stmt{Pr(S("eq"))}}}, HasDef: true, DefPos: 2, Default: []Stmt{Pr(S("gt"))}}))
	add("switch-clause-scopes", Prog(Def("x", L(0)),
		Switch{Tag: V("x"), Cases: []Case{{Val: N(0), Body: []Stmt{Def("t", N(1)), Pr(S("a"), V("t"))}}, {Val: N(1), Body: []Stmt{Def("t", Op("+", V("x"), N(2))), Pr(S("b"), V("t"))}}},
			HasDef: true, DefPos: 2, Default: []Stmt{Def("t", S("dflt")), Pr(S("c"), V("t"))}},
		Switch{Cases: []Case{{Val: Op(">", V("x"), N(0)), Body: []Stmt{VarTV("u", TInt, N(5)), Pr(V("u"))}}, {Val: Op("<", V("x"), N(0)), Body: []Stmt{Def("u", S("neg")), Pr(V("u"))}}}},
		Def("t", N(9)), Def("u", T()), Pr(V("t"), V("u"))))
	add("empty-first-branch", Prog(Def("x", L(0)),
		IfChain([]Expr{Op("==", V("x"), L(1)), Op("==", V("x"), L(2)), Op(">", V("x"), L(3))}, []Blk{{}, {Pr(S("second"))}, {Pr(S("third"))}}, nil),
		Switch{Tag: V("x"), Cases: []Case{{Val: N(0), Body: nil}, {Val: N(1), Body: []Stmt{Pr(S("one"))}}, {Val: L(2), Body: []Stmt{Pr(S("two"))}}}},
		IfChain([]Expr{Op("<", V("x"), N(0)), Op(">=", V("x"), N(0))}, []Blk{{}, {Pr(S("nonneg"))}}, Blk{}),
		Pr(S("end"))))
	add("continue-after-closed-inner-loop", Prog(Def("t", L(0)),
		For3(Def("i", N(0)), Op("<", V("i"), N(3)), Inc("i"),
			For3(Def("j", N(0)), Op("<", V("j"), N(2)), Inc("j"), Pr(V("i"), V("j"))),
			ForC(Op("<", V("t"), N(0)), Inc("t")),
			IfS(Op("==", V("i"), N(1)), Continue{}),
			Pr(S("after"), V("i"))),
		Pr(S("done"))))
	add("minus-attached-after-operand", Prog(Def("a", L(0)), Def("b", L(1)),
		Def("c", RawExpr{Text: "(a + b)-1", Val: Op("-", P(Op("+", V("a"), V("b"))), N(1))}),
		Def("d", RawExpr{Text: "(a * b) -2", Val: Op("-", P(Op("*", V("a"), V("b"))), N(2))}),
		Def("e", RawExpr{Text: "a-1", Val: Op("-", V("a"), N(1))}), Def("f", RawExpr{Text: "a -3", Val: Op("-", V("a"), N(3))}),
		Def("g", RawExpr{Text: "a- 4", Val: Op("-", V("a"), N(4))}), Def("h", RawExpr{Text: "c*-1", Val: Op("*", V("c"), N(-1))}),
		OpSet("a", "-", RawExpr{Text: "(b + 2)-1", Val: Op("-", P(Op("+", V("b"), N(2))), N(1))}), Pr(V("c"), V("d"), V("e"), V("f"), V("g"), V("h"), V("a"))))
	add("switch-default-only", Prog(Def("x", L(0)), Switch{Tag: V("x"), HasDef: true, Default: []Stmt{Pr(S("d"), V("x"))}}))
	add("switch-default-first", Prog(Def("x", L(0)),
		Switch{Tag: V("x"), Cases: []Case{{Val: L(1), Body: []Stmt{Pr(S("c1"))}}}, HasDef: true, DefPos: 0, Default: []Stmt{Pr(S("d"))}}))
	add("switch-string", Prog(Def("s", S("b")),
		Switch{Tag: V("s"), Cases: []Case{{Val: S("a"), Body: []Stmt{Pr(S("A"))}}, {Val: S("b"), Body: []Stmt{Pr(S("B"))}}}}))
	add("switch-no-match-no-default", Prog(Def("x", L(0)), Switch{Tag: V("x"), Cases: []Case{{Val: L(1), Body: []Stmt{Pr(S("c1"))}}}}, Pr(S("end"))))
	add("for3", Prog(Def("acc", L(0)), For3(Def("i", N(0)), Op("<", V("i"), N(3)), Inc("i"), OpSet("acc", "+", Op("*", V("i"), L(1))), Pr(V("i"), V("acc"))), Pr(V("acc"))))
	sh = append(sh, Shape{Name: "for3-symbolic-bound", AssumeLits: smallLits(0, 3, 0), Prog: func(c *gosym.Ctx) *Program {
		return Prog(For3(Def("i", N(0)), Op("<", V("i"), L(0)), Inc("i"), Pr(V("i"))), Pr(S("done")))
	}})
	sh = append(sh, Shape{Name: "for3-down(cmp)", AssumeLits: smallLits(-1, 3, 0), Prog: func(c *gosym.Ctx) *Program {
		o := []string{">", ">=", "!="}[c.Choose("cmp", 0, 2)]
		return Prog(For3(Def("i", L(0)), Op("&&", Op(o, V("i"), N(0)), Op("<", V("i"), N(4))), Dec("i"), Pr(V("i"))), Pr(S("done")))
	}})
	add("for-cond", Prog(Def("i", N(0)), Def("s", L(0)), ForC(Op("<", V("i"), N(3)), OpSet("s", "-", V("i")), Inc("i")), Pr(V("i"), V("s"))))
	add("for-ever-break", Prog(Def("i", N(0)), ForEver(IfS(Op(">=", V("i"), N(2)), Break{}), Pr(V("i")), Inc("i")), Pr(S("out"), V("i"))))
	// break inside a switch clause leaves the switch: outside a loop, inside a loop (the loop goes on), and a loop inside a
	// clause whose break leaves only that loop
	add("break-in-switch-outside-loop", Prog(Def("x", L(0)),
		Switch{Tag: V("x"), Cases: []Case{{Val: L(1), Body: []Stmt{Pr(S("c1")), Break{}}}, {Val: L(2), Body: []Stmt{Break{}}}}, HasDef: true, DefPos: 2, Default: []Stmt{Pr(S("d")), Break{}}}, Pr(S("after"))))
	add("break-in-switch-inside-loop", Prog(Def("x", L(0)),
		For3(Def("i", N(0)), Op("<", V("i"), N(3)), Inc("i"),
			Switch{Tag: V("i"), Cases: []Case{{Val: N(1), Body: []Stmt{Pr(S("one")), Break{}}}}, HasDef: true, DefPos: 1, Default: []Stmt{IfS(Op("<", V("x"), L(1)), Break{}), Pr(S("dflt"), V("i"))}},
			Pr(S("tail"), V("i"))), Pr(S("end"))))
	add("loop-with-break-inside-switch-clause", Prog(Def("m", L(0)),
		Switch{Tag: V("m"), Cases: []Case{{Val: L(1), Body: []Stmt{
			For3(Def("i", N(0)), Op("<", V("i"), N(5)), Inc("i"), IfS(Op("==", V("i"), N(2)), Break{}), Pr(S("i"), V("i"))),
			Def("k", N(0)), ForEver(IfS(Op(">=", V("k"), N(2)), Break{}), Inc("k")), Pr(S("k"), V("k"))}}},
			HasDef: true, DefPos: 1, Default: []Stmt{ForC(Op("<", V("m"), L(2)), Pr(S("w")), Break{})}}, Pr(S("end"))))
	add("for-no-parts", Prog(Def("i", N(0)), For3(nil, Op("<", V("i"), N(2)), nil, Pr(V("i")), Inc("i")), For3(Def("j", N(0)), nil, Inc("j"), IfS(Op("==", V("j"), N(2)), Break{}), Pr(V("j")))))
	add("continue-elseif-nested", Prog(Def("t", L(0)),
		For3(Def("i", N(0)), Op("<", V("i"), N(3)), Inc("i"),
			For3(Def("j", N(0)), Op("<", V("j"), N(3)), Inc("j"),
				IfChain([]Expr{Op("==", V("j"), N(0)), Op("==", V("j"), V("i")), Op("<", V("t"), L(1))},
					[]Blk{{Continue{}}, {Pr(S("eq"), V("i")), Break{}}, {Pr(S("lt"))}}, Blk{Pr(S("o"), V("i"), V("j"))}),
				Pr(S("tail"), V("j"))),
			IfS(Op("==", V("i"), N(1)), Continue{}),
			Pr(S("row"), V("i"))),
		Pr(S("end"))))
	add("three-nested", Prog(Def("x", L(0)),
		For3(Def("i", N(0)), Op("<", V("i"), N(2)), Inc("i"),
			IfElse(Op("<", V("x"), L(1)),
				Blk{Switch{Tag: V("i"), Cases: []Case{{Val: N(0), Body: []Stmt{Pr(S("z"))}}, {Val: N(1), Body: []Stmt{Pr(S("o")), IfS(Op("==", V("x"), L(2)), Pr(S("deep")))}}}}},
				Blk{ForC(Op("<", V("x"), L(1)), Pr(S("never")))})),
		Pr(S("end"))))
	add("sequential-loops", Prog(For3(Def("i", N(0)), Op("<", V("i"), N(2)), Inc("i"), Pr(V("i"))), For3(Def("k", N(0)), Op("<", V("k"), N(2)), Inc("k"), Pr(V("k"))),
		Def("n", N(0)), ForC(Op("<", V("n"), N(2)), Inc("n")), Pr(V("n"))))
	add("panic-status", Prog(Pr(S("before")), IfS(Op("<", L(0), L(1)), PanicS{X: S("boom")}), Pr(S("after"))))
	add("panic-in-loop", Prog(For3(Def("i", N(0)), Op("<", V("i"), N(3)), Inc("i"), IfS(Op("==", V("i"), L(0)), PanicS{X: Op("+", S("at "), ItoaE{X: V("i")})}), Pr(V("i")))))
	sh = append(sh, Shape{Name: "strings-neutral", Prog: func(c *gosym.Ctx) *Program {
		n1 := c.Choose("len1", 0, 2)
		s1 := SymStr(c, "s", n1, neutral)
		s2 := SymStr(c, "t", 1, neutral)
		return Prog(Def("a", SR(s1)), Def("b", SR(s2)), Pr(Op("+", V("a"), V("b"))), Pr(Op("==", V("a"), V("b")), Op("!=", V("a"), V("b"))),
			Pr(V("a"), V("b"), Op("==", Op("+", V("a"), V("b")), Op("+", V("b"), V("a")))),
			IfElse(Op("==", V("a"), S("x")), Blk{Pr(S("isx"))}, Blk{Pr(S("notx"))}))
	}})
	add("itoa", Prog(Def("x", L(0)), Def("s", ItoaE{X: Op("*", V("x"), L(1))}), Pr(Op("+", V("s"), S("!"))), Pr(Op("==", ItoaE{X: V("x")}, ItoaE{X: L(2)}))))
	add("bool-vars", Prog(Def("t", T()), Def("f", F()), Pr(V("t"), V("f"), Op("&&", V("t"), V("f")), Op("||", V("t"), V("f")), NOT(V("t")), Op("==", V("t"), V("f"))),
		VarTV("u", TBool, Op("!=", L(0), L(1))), IfS(V("u"), Pr(S("u"))), IfS(NOT(V("u")), Pr(S("nu")))))
	add("cmp-chain-bool", Prog(Def("a", L(0)), Def("b", L(1)), Pr(Op("==", Op("<", V("a"), V("b")), T()))))
	add("block-scope", Prog(Def("x", L(0)), IfS(T(), Def("y", Op("+", V("x"), N(1))), Pr(V("y"))), IfS(T(), Def("y", Op("-", V("x"), N(1))), Pr(V("y"))), Pr(V("x"))))
	add("assign-swap-temp", Prog(Def("a", L(0)), Def("b", L(1)), Def("t", V("a")), Set("a", V("b")), Set("b", V("t")), Pr(V("a"), V("b"))))
	add("exit-zero", Prog(Pr(S("only"))))
	add("empty-program-blocks", Prog(For3(Def("i", N(0)), Op("<", V("i"), N(2)), Inc("i")), Def("x", L(0)), Switch{Tag: V("x"), Cases: []Case{{Val: L(1), Body: nil}}, HasDef: true, DefPos: 1, Default: nil}, Pr(S("z"))))
	return sh
}

func classifyEq(prop string, o eqOutcome) string {
	if o.Probe && !o.PerClass {
		return fmt.Sprintf("%s.%s.outside-modelled-bash-subset", prop, o.Shape)
	}
	if o.Sub != "" {
		return fmt.Sprintf("%s.%s.%s", prop, o.Shape, o.Sub)
	}
	return fmt.Sprintf("%s.%s", prop, o.Shape)
}

// runShapes explores every shape and handles the outcomes.
func runShapes(r *Run, shapes []Shape, o eqOpts, perShapePaths int) {
	only := os.Getenv("VERIF_SHAPE") // developer aid: run the shapes whose name contains this text
	for _, sh := range shapes {
		sh := sh
		if only != "" && !strings.Contains(sh.Name, only) {
			continue
		}
		var diffs []eqOutcome
		ok, excl, inc, syn := 0, 0, 0, 0
		var whys []string
		st := r.Eng.Explore(func(c *gosym.Ctx) interface{} { return bashEquiv(r, c, sh, o) },
			gosym.ExploreOpts{Workers: r.Workers, TimeoutMS: 10000, Budget: gosym.Budget{MaxPaths: perShapePaths}, OnPath: func(pr *gosym.PathResult) {
				if pb, ok := pr.Probe.(eqOutcome); ok && len(diffs) < 50000 {
					if len(pb.More) > 0 {
						diffs = append(diffs, pb.More...)
					} else {
						diffs = append(diffs, pb)
					}
				}
				eo, isEo := pr.Ret.(eqOutcome)
				if !isEo {
					return
				}
				switch eo.Kind {
				case "ok":
					ok++
					if eo.Syntactic {
						syn++
					}
				case "excluded":
					excl++
				case "inconclusive":
					inc++
					if len(whys) < 3 {
						whys = append(whys, eo.Why)
					}
				case "diff":
					if len(eo.More) > 0 {
						for _, x := range eo.More {
							if len(diffs) < 50000 {
								diffs = append(diffs, x)
							}
						}
					} else if len(diffs) < 50000 {
						diffs = append(diffs, eo)
					}
				}
			}})
		r.Absorb(sh.Name, st, "program shape; symbolic literals/bytes as listed in the shape")
		r.AddCount("programs", 1)
		r.AddCount("paths_equivalent", ok)
		r.AddCount("paths_excluded_inputs", excl)
		r.AddCount("paths_inconclusive_model", inc)
		r.AddCount("syntactic_discharges", syn)
		if len(whys) > 0 {
			fmt.Printf("note: shape %s: %d inconclusive paths, e.g. %s\n", sh.Name, inc, whys[0])
		}
		// reachability witness: the same shape against a reference that is wrong on purpose must end in a difference
		if !sh.ExpectReject && (ok > 0 || len(diffs) > 0) && (r.Tier == "quick" || !strings.HasSuffix(sh.Name, "-generated")) {
			twinDiff, twinPaths := false, 0
			ot := o
			ot.Twin = true
			r.Eng.Explore(func(c *gosym.Ctx) interface{} { return bashEquiv(r, c, sh, ot) },
				gosym.ExploreOpts{Workers: 2, TimeoutMS: 10000, Budget: gosym.Budget{MaxPaths: 6}, OnPath: func(pr *gosym.PathResult) {
					twinPaths++
					if eo, isEo := pr.Ret.(eqOutcome); isEo && eo.Kind == "diff" {
						twinDiff = true
					}
					if _, isProbe := pr.Probe.(eqOutcome); isProbe {
						twinDiff = true // decided by a concrete probe, like the path itself
					}
				}})
			r.AddCount("reachability_twins", 1)
			if twinDiff {
				r.AddCount("reachability_twins_violated_as_expected", 1)
			} else {
				fmt.Printf("note: shape %s: the twin with a deliberately wrong reference was not reported as different on any of %d paths (vacuous harness?)\n", sh.Name, twinPaths)
			}
		}
		if excl > 0 && ok == 0 && len(diffs) == 0 && inc == 0 {
			// every path of the shape lies outside the property's quantifier: the shape checks nothing
			fmt.Printf("note: shape %s: all %d paths are excluded inputs (the shape checks nothing)\n", sh.Name, excl)
			r.AddCount("shapes_entirely_excluded", 1)
		}
		// group by class; within a class try the candidates until one reproduces
		var order []string
		byClass := map[string][]eqOutcome{}
		// deterministic order: paths finish in any order on the worker pool
		for i := range diffs {
			diffs[i].Class = classifyEq(r.ID, diffs[i])
		}
		sort.SliceStable(diffs, func(i, j int) bool {
			if diffs[i].Class != diffs[j].Class {
				return diffs[i].Class < diffs[j].Class
			}
			if len(diffs[i].Src) != len(diffs[j].Src) {
				return len(diffs[i].Src) < len(diffs[j].Src)
			}
			return diffs[i].Src+diffs[i].Data < diffs[j].Src+diffs[j].Data
		})
		skeletons := map[string]bool{}
		for _, d := range diffs {
			if _, ok := byClass[d.Class]; !ok {
				order = append(order, d.Class)
			}
			if d.Probe {
				// probes: one candidate per program skeleton (the program with the data bytes blanked out), i.e. per path
				sk := d.Src
				if d.Data != "" {
					sk = strings.ReplaceAll(sk, d.Data, "\x00")
				}
				if key := d.Class + "\x01" + sk; !skeletons[key] && len(byClass[d.Class]) < 400 {
					skeletons[key] = true
					byClass[d.Class] = append(byClass[d.Class], d)
				}
				continue
			}
			if n := len(byClass[d.Class]); n < 6 && (n == 0 || byClass[d.Class][n-1].Src != d.Src) {
				byClass[d.Class] = append(byClass[d.Class], d)
			}
		}
		for _, cl := range order {
			r.AddCount("disagreements_checked", 1)
			handled := false
			var last eqOutcome
			if cs := byClass[cl]; len(cs) > 1 && cs[0].Probe && r.ID != "C05" {
				// many probe instances: run them side by side and keep the first one that misbehaves
				r.AddCount("paths_decided_by_concrete_probe_only", len(cs))
				if i := firstConfirmed(r, sh, cs); i >= 0 {
					byClass[cl] = cs[i : i+1]
				} else {
					continue
				}
			}
			for _, d := range byClass[cl] {
				stdin := d.Stdin
				if stdin == "" {
					for _, l := range sh.Stdin {
						stdin += l + "\n"
					}
				}
				pre := sh.Pre
				if d.Pre != nil {
					pre = d.Pre
				}
				last = d
				if r.handleEqTry(d, pre, stdin) {
					handled = true
					break
				}
			}
			if !handled && last.Probe {
				r.AddCount("paths_decided_by_concrete_probe_only", len(byClass[cl]))
				continue
			}
			if !handled {
				r.Spurious(fmt.Sprintf("shape %s: candidates of class %s (%s) did not reproduce on bash; last program:\n%s", sh.Name, cl, last.Diff, last.Src))
			}
		}
	}
}

func CheckC01(r *Run) int {
	nat, err := BuildNative()
	if err != nil {
		fmt.Println("cannot build the repository natively:", err)
		return 2
	}
	r.Native = nat
	shapes := c01Shapes()
	ngen := 200
	if r.Tier != "quick" {
		ngen = 6000
	}
	shapes = append(shapes, generatedShapes("scalar", r.Seed, ngen, false, false)...)
	runShapes(r, shapes, eqOpts{Target: "bash", CheckHazards: true}, 3000)
	r.Cov("disagreements_checked", r.Ev.Coverage["disagreements_checked"])
	if _, ok := r.Ev.Coverage["disagreements_checked"].(int); !ok {
		r.Cov("disagreements_checked", 0)
	}
	for _, s := range shapes[:3] {
		p := s.Name
		r.AddSample(map[string]interface{}{"shape": p})
	}
	r.Assume("RefTSH (oracle/reftsh.go): Go semantics of the shared syntax + README deviations (eager conditions, bools print 1/0, panic prints 'panic: m' and exits 1)")
	r.Assume("ShSem (oracle/shparse.go, sheval.go): semantics of the emitted Bash subset; calibrated against /bin/bash on the repository's test programs by `verif selftest`; every counterexample is re-run on the real bash before being reported")
	r.Assume("excluded inputs: division/modulo by zero, loops beyond 24 iterations")
	return r.Finish("translation_validation")
}

// firstConfirmed runs the candidates natively, 12 at a time, and returns the index of the first one that reproduces (-1: none).
func firstConfirmed(r *Run, sh Shape, cs []eqOutcome) int {
	const width = 12
	for base := 0; base < len(cs); base += width {
		end := min(base+width, len(cs))
		res := make([]bool, end-base)
		var wg sync.WaitGroup
		for i := base; i < end; i++ {
			wg.Add(1)
			go func(i int) {
				defer wg.Done()
				d := cs[i]
				stdin := d.Stdin
				if stdin == "" {
					for _, l := range sh.Stdin {
						stdin += l + "\n"
					}
				}
				pre := sh.Pre
				if d.Pre != nil {
					pre = d.Pre
				}
				res[i-base], _ = confirmBash(r, d, pre, stdin)
			}(i)
		}
		wg.Wait()
		for i, ok := range res {
			if ok {
				return base + i
			}
		}
	}
	return -1
}
