package checks

import (
	"fmt"
	"sort"
	"strconv"
	"strings"
	"sync"
	"time"

	"verif/engine/gosym"
	"verif/engine/oracle"
	"verif/engine/sym"
)

// one library function under test
type stdFn struct {
	name   string
	nStr   int                                  // string arguments read from files a0.txt ..
	count  bool                                 // has an int argument (enumerated -2..4)
	slice  bool                                 // first argument is a []string built from the string arguments except the last
	call   func(args []string, n string) string // TypeShell statements printing the result(s)
	ref    func(a []string, n int) string       // expected stdout, from Go's strings package
	maxLen []int                                // per string argument (quick)
	alpha  string                               // alphabet of the argument bytes (default "ab ")
}

func b01(b bool) string {
	if b {
		return "1"
	}
	return "0"
}

func stdFns() []stdFn {
	p1 := func(f string) func(a []string, n string) string {
		return func(a []string, n string) string { return "print(strings." + f + "(" + strings.Join(a, ", ") + "))\n" }
	}
	return []stdFn{
		{name: "Index", nStr: 2, call: p1("Index"), ref: func(a []string, n int) string { return strconv.Itoa(strings.Index(a[0], a[1])) + "\n" }, maxLen: []int{3, 2}},
		{name: "Contains", nStr: 2, call: p1("Contains"), ref: func(a []string, n int) string { return b01(strings.Contains(a[0], a[1])) + "\n" }, maxLen: []int{3, 2}},
		{name: "HasPrefix", nStr: 2, call: p1("HasPrefix"), ref: func(a []string, n int) string { return b01(strings.HasPrefix(a[0], a[1])) + "\n" }, maxLen: []int{2, 2}},
		{name: "HasSuffix", nStr: 2, call: p1("HasSuffix"), ref: func(a []string, n int) string { return b01(strings.HasSuffix(a[0], a[1])) + "\n" }, maxLen: []int{2, 2}},
		{name: "Count", nStr: 2, call: p1("Count"), ref: func(a []string, n int) string { return strconv.Itoa(strings.Count(a[0], a[1])) + "\n" }, maxLen: []int{3, 2}},
		{name: "Join", nStr: 3, slice: true, call: func(a []string, n string) string {
			return "print(strings.Join([]string{" + strings.Join(a[:len(a)-1], ", ") + "}, " + a[len(a)-1] + "))\n"
		}, ref: func(a []string, n int) string { return strings.Join(a[:len(a)-1], a[len(a)-1]) + "\n" }, maxLen: []int{1, 1, 1}},
		{name: "Split", nStr: 2, call: func(a []string, n string) string {
			return "r := strings.Split(" + a[0] + ", " + a[1] + ")\nprint(len(r))\nfor i, e := range r {\n\tprint(i, \"[\" + e + \"]\")\n}\n"
		}, ref: func(a []string, n int) string {
			r := strings.Split(a[0], a[1])
			out := strconv.Itoa(len(r)) + "\n"
			for i, e := range r {
				out += fmt.Sprintf("%d [%s]\n", i, e)
			}
			return out
		}, maxLen: []int{3, 2}},
		{name: "Repeat", nStr: 1, count: true, call: func(a []string, n string) string {
			return "print(\"[\" + strings.Repeat(" + a[0] + ", " + n + ") + \"]\")\n"
		},
			ref: func(a []string, n int) string {
				if n < 0 {
					return "\x00panic"
				}
				return "[" + strings.Repeat(a[0], n) + "]\n"
			}, maxLen: []int{2}},
		{name: "Replace", nStr: 3, count: true, call: func(a []string, n string) string {
			return "print(\"[\" + strings.Replace(" + a[0] + ", " + a[1] + ", " + a[2] + ", " + n + ") + \"]\")\n"
		}, ref: func(a []string, n int) string { return "[" + strings.Replace(a[0], a[1], a[2], n) + "]\n" }, maxLen: []int{3, 1, 1}},
		{name: "ReplaceAll", nStr: 3, call: func(a []string, n string) string {
			return "print(\"[\" + strings.ReplaceAll(" + a[0] + ", " + a[1] + ", " + a[2] + ") + \"]\")\n"
		}, ref: func(a []string, n int) string { return "[" + strings.ReplaceAll(a[0], a[1], a[2]) + "]\n" }, maxLen: []int{3, 1, 1}},
		{name: "CutPrefix", nStr: 2, call: func(a []string, n string) string {
			return "x, f := strings.CutPrefix(" + a[0] + ", " + a[1] + ")\nprint(\"[\" + x + \"]\", f)\n"
		}, ref: func(a []string, n int) string {
			x, f := strings.CutPrefix(a[0], a[1])
			return "[" + x + "] " + b01(f) + "\n"
		}, maxLen: []int{2, 2}},
		{name: "CutSuffix", nStr: 2, call: func(a []string, n string) string {
			return "x, f := strings.CutSuffix(" + a[0] + ", " + a[1] + ")\nprint(\"[\" + x + \"]\", f)\n"
		}, ref: func(a []string, n int) string {
			x, f := strings.CutSuffix(a[0], a[1])
			return "[" + x + "] " + b01(f) + "\n"
		}, maxLen: []int{2, 2}},
		{name: "Cut", nStr: 2, call: func(a []string, n string) string {
			return "x, y, f := strings.Cut(" + a[0] + ", " + a[1] + ")\nprint(\"[\" + x + \"]\", \"[\" + y + \"]\", f)\n"
		}, ref: func(a []string, n int) string {
			x, y, f := strings.Cut(a[0], a[1])
			return "[" + x + "] [" + y + "] " + b01(f) + "\n"
		}, maxLen: []int{3, 2}},
		{name: "TrimPrefix", nStr: 2, call: func(a []string, n string) string {
			return "print(\"[\" + strings.TrimPrefix(" + a[0] + ", " + a[1] + ") + \"]\")\n"
		},
			ref: func(a []string, n int) string { return "[" + strings.TrimPrefix(a[0], a[1]) + "]\n" }, maxLen: []int{2, 2}},
		{name: "TrimSuffix", nStr: 2, call: func(a []string, n string) string {
			return "print(\"[\" + strings.TrimSuffix(" + a[0] + ", " + a[1] + ") + \"]\")\n"
		},
			ref: func(a []string, n int) string { return "[" + strings.TrimSuffix(a[0], a[1]) + "]\n" }, maxLen: []int{2, 2}},
		{name: "TrimLeft", nStr: 2, call: func(a []string, n string) string {
			return "print(\"[\" + strings.TrimLeft(" + a[0] + ", " + a[1] + ") + \"]\")\n"
		},
			ref: func(a []string, n int) string { return "[" + strings.TrimLeft(a[0], a[1]) + "]\n" }, maxLen: []int{3, 2}},
		{name: "TrimRight", nStr: 2, call: func(a []string, n string) string {
			return "print(\"[\" + strings.TrimRight(" + a[0] + ", " + a[1] + ") + \"]\")\n"
		},
			ref: func(a []string, n int) string { return "[" + strings.TrimRight(a[0], a[1]) + "]\n" }, maxLen: []int{3, 2}},
		{name: "Trim", nStr: 2, call: func(a []string, n string) string {
			return "print(\"[\" + strings.Trim(" + a[0] + ", " + a[1] + ") + \"]\")\n"
		},
			ref: func(a []string, n int) string { return "[" + strings.Trim(a[0], a[1]) + "]\n" }, maxLen: []int{3, 2}},
		{name: "TrimSpace", nStr: 1, call: func(a []string, n string) string { return "print(\"[\" + strings.TrimSpace(" + a[0] + ") + \"]\")\n" },
			// the letters of the escape sequences in the library's white-space set, a tab and a blank
			ref: func(a []string, n int) string { return "[" + strings.TrimSpace(a[0]) + "]\n" }, maxLen: []int{3}, alpha: "vtnrf\t "},
	}
}

var scriptCache sync.Map // concrete source -> [2]string{script, error}

// transpileCached runs the real Transpile symbolically once per distinct concrete source of a run.
func transpileCached(c *gosym.Ctx, src string) (string, bool) {
	if v, ok := scriptCache.Load(src); ok {
		r := v.([2]string)
		return r[0], r[1] != ""
	}
	c.FS.AddFile("/work/main.tsh", gosym.Conc(src))
	mountStd(c)
	var script gosym.Str
	var hasErr bool
	var errText gosym.Str
	if gp := c.Try(func() { script, errText, hasErr = c.Transpile("/work/main.tsh", "bash") }); gp != nil {
		hasErr, errText = true, gosym.Conc("panic: "+gp.Msg)
	}
	s, _ := script.Go()
	e := ""
	if hasErr {
		e = "error: " + errText.String()
	}
	scriptCache.Store(src, [2]string{s, e})
	return s, hasErr
}

type stdOutcome struct {
	Kind  string
	Fn    string
	Args  []string
	N     int
	Src   string
	Want  string
	What  string
	Class string
}

func tuples(alpha string, n int) []string {
	if n == 0 {
		return []string{""}
	}
	var out []string
	for _, t := range tuples(alpha, n-1) {
		for i := 0; i < len(alpha); i++ {
			out = append(out, t+alpha[i:i+1])
		}
	}
	return out
}

func CheckC15(r *Run) int {
	nat, err := BuildNative()
	if err != nil {
		fmt.Println("cannot build the repository natively:", err)
		return 2
	}
	r.Native = nat
	quick := r.Tier == "quick"
	fns := stdFns()
	defaultAlpha := "ab "
	var bads []stdOutcome
	okN := 0
	tupleCount := 0
	var mu sync.Mutex
	st := r.Eng.Explore(func(c *gosym.Ctx) interface{} {
		B := c.B
		f := fns[c.Choose("function", 0, len(fns)-1)]
		alpha := defaultAlpha
		if f.alpha != "" {
			alpha = f.alpha
		}
		lens := make([]int, f.nStr)
		for i := range lens {
			mx := f.maxLen[i]
			if !quick {
				mx += 2
			} else {
				mx++
			}
			lens[i] = c.Choose(fmt.Sprintf("len%d", i), 0, mx)
		}
		n := 0
		if f.count {
			n = c.Choose("count", 0, 6) - 2
		}
		// the program reads its string arguments from files; its text is concrete
		var sb strings.Builder
		sb.WriteString("import (\n\t\"strings\"\n)\n")
		var names []string
		for i := range lens {
			// empty strings are literals (an empty file cannot be told from a missing argument line)
			if lens[i] == 0 {
				names = append(names, `""`)
			} else {
				sb.WriteString(fmt.Sprintf("a%d := read(\"a%d.txt\")\n", i, i))
				names = append(names, fmt.Sprintf("a%d", i))
			}
		}
		sb.WriteString(f.call(names, strconv.Itoa(n)))
		src := sb.String()
		script, hasErr := transpileCached(c, src)
		if hasErr {
			return stdOutcome{Kind: "bad", Fn: f.name, Src: src, What: "library program rejected: " + script, Class: "C15." + f.name + ".rejected"}
		}
		sh := oracle.NewShell(c)
		var data [][]*sym.Term
		for i := range lens {
			var bytesI []*sym.Term
			var parts []gosym.Str
			for k := 0; k < lens[i]; k++ {
				b := c.B.ByteVar(fmt.Sprintf("a%d_%d", i, k), alpha)
				c.S.Declare(b)
				bytesI = append(bytesI, b)
				parts = append(parts, gosym.ByteStr(b))
			}
			data = append(data, bytesI)
			if lens[i] > 0 {
				// a value ending in a newline cannot travel through $(cat): the alphabet has none
				sh.Files[fmt.Sprintf("a%d.txt", i)] = gosym.Concat(append(parts, gosym.Conc("\n"))...)
			}
		}
		var out gosym.Str
		var status gosym.Value
		unsup := ""
		func() {
			defer func() {
				if rec := recover(); rec != nil {
					if u, ok := rec.(oracle.ShUnsupported); ok {
						unsup = u.Msg
						return
					}
					panic(rec)
				}
			}()
			out, status = sh.RunScript(gosym.Conc(script))
		}()
		if unsup != "" && !strings.Contains(unsup, "step budget") {
			c.Unsupported("ShSem: %s", unsup)
		}
		errOut := gosym.Concat(sh.Err...)
		// violation: for some argument tuple on this path the output differs from Go's result
		ts := make([][]string, len(lens))
		total := 1
		for i := range lens {
			ts[i] = tuples(alpha, lens[i])
			total *= len(ts[i])
		}
		mu.Lock()
		tupleCount += total
		mu.Unlock()
		idx := make([]int, len(lens))
		var viol []*sym.Term
		for {
			args := make([]string, len(lens))
			cond := B.True
			for i := range lens {
				args[i] = ts[i][idx[i]]
				for k, b := range data[i] {
					cond = B.And(cond, B.Eq(b, B.BV(uint64(args[i][k]), 8)))
				}
			}
			if !cond.IsFalse() {
				want := f.ref(args, n)
				var good *sym.Term
				switch {
				case unsup != "":
					good = B.False // the script does not terminate
				case want == "\x00panic":
					// Go panics (negative Repeat count): any behaviour of the script is accepted
					good = B.True
				default:
					good = c.StrEq(out, gosym.Conc(want))
					if s, ok := status.(int64); ok && s != 0 {
						good = B.False
					}
					if errOut.MinLen() > 0 {
						good = B.False
					}
				}
				viol = append(viol, B.And(cond, B.Not(good)))
			}
			k := 0
			for k < len(idx) {
				idx[k]++
				if idx[k] < len(ts[k]) {
					break
				}
				idx[k] = 0
				k++
			}
			if k == len(idx) {
				break
			}
		}
		v := B.Or(viol...)
		if v.IsFalse() {
			return stdOutcome{Kind: "ok"}
		}
		res, m := c.Sat(v)
		if res == sym.Unknown {
			c.Unsupported("solver unknown on final assertion")
		}
		if res != sym.Sat {
			return stdOutcome{Kind: "ok"}
		}
		args := make([]string, len(lens))
		for i := range lens {
			for _, b := range data[i] {
				args[i] += string([]byte{byte(m[b.Name])})
			}
		}
		return stdOutcome{Kind: "bad", Fn: f.name, Args: args, N: n, Src: src, Want: f.ref(args, n), What: "result differs from Go's strings." + f.name}
	}, gosym.ExploreOpts{Workers: r.Workers, TimeoutMS: 20000, Budget: gosym.Budget{MaxPaths: 400000, Steps: 80_000_000}, OnPath: func(pr *gosym.PathResult) {
		o, ok := pr.Ret.(stdOutcome)
		if !ok {
			return
		}
		if o.Kind == "ok" {
			okN++
		} else {
			bads = append(bads, o)
		}
	}})
	r.Absorb("H_C15_std_strings", st, fmt.Sprintf("%d functions of std/strings.tsh; every string argument is 0..maxLen symbolic bytes over %q (maxLen per function 1..3, +1 in quick, +2 in thorough), counts -2..4, slices of 2 elements; the compiled library runs under ShSem, the result is compared with Go's strings package for every argument tuple on the path", len(fns), defaultAlpha+" (TrimSpace: \"vtnrf\", tab, blank)"))
	sort.SliceStable(bads, func(i, j int) bool {
		a, b := bads[i], bads[j]
		if a.Fn != b.Fn {
			return a.Fn < b.Fn
		}
		return fmt.Sprint(a.Args, a.N) < fmt.Sprint(b.Args, b.N)
	})
	seen := map[string]int{}
	validated := 0
	for _, b := range bads {
		if b.Class == "" {
			var ls []string
			for _, a := range b.Args {
				ls = append(ls, map[bool]string{true: "empty", false: "nonempty"}[a == ""])
			}
			b.Class = "C15." + b.Fn + "(" + strings.Join(ls, ",") + ")"
			if b.N != 0 || strings.Contains("Repeat Replace", b.Fn) {
				switch {
				case b.N < 0:
					b.Class += ".n<0"
				case b.N == 0:
					b.Class += ".n=0"
				default:
					b.Class += ".n>0"
				}
			}
		}
		if seen[b.Class] >= 3 {
			continue
		}
		// native confirmation: real transpiler + real bash + files
		pre := map[string]string{}
		for i, a := range b.Args {
			if a != "" {
				pre[fmt.Sprintf("a%d.txt", i)] = a + "\n"
			}
		}
		res, err := nat.RunDrv([]DrvReq{{Op: "transpile", Files: map[string]string{"main.tsh": b.Src}, Main: "main.tsh", Target: "bash"}}, 60*time.Second)
		validated++
		if err != nil || res[0].HasErr {
			continue
		}
		br := RunBash(res[0].Script, "", pre, 10*time.Second)
		if br.Stdout == b.Want && br.Code == 0 && br.Stderr == "" {
			seen[b.Class]++
			if seen[b.Class] == 3 {
				r.Spurious(fmt.Sprintf("std/strings candidate %s%q n=%d did not reproduce on bash", b.Fn, b.Args, b.N))
			}
			continue
		}
		seen[b.Class] = 99
		what := fmt.Sprintf("strings.%s(%q, n=%d): script prints %q (exit %d, stderr %q), Go returns %q", b.Fn, b.Args, b.N, br.Stdout, br.Code, tail(br.Stderr, 80), b.Want)
		if r.IsKnown(b.Class) {
			r.HitKnown(b.Class, fmt.Sprintf("%s%q n=%d", b.Fn, b.Args, b.N))
			continue
		}
		files := map[string]string{"main.tsh": b.Src, "expected.out": b.Want, "finding.txt": "property C15\n" + what + "\n"}
		for p, c := range pre {
			files["pre_"+p] = c
		}
		rd := r.WriteReplay(b.Class, files)
		r.AddViolation(Violation{Class: b.Class, What: what, Replay: rd})
	}
	r.Cov("programs", len(fns))
	r.Cov("paths_equivalent", okN)
	r.Cov("argument_tuples_covered", tupleCount)
	r.Cov("disagreements_checked", validated)
	r.AddSample(map[string]interface{}{"function": "Index", "arguments": "a0 = 2 symbolic bytes over {a,b,' '}, a1 = 1 symbolic byte", "expected": "strings.Index for each of the 27 tuples"})
	r.Assume("reference = Go's strings package, evaluated natively for every concrete argument tuple of the bounded domain and asserted as a table over the symbolic bytes")
	r.Assume("arguments reach the program through files read at run time (so that the source is concrete and the real Transpile is executed symbolically once per distinct source); a negative Repeat count (Go panics) is unspecified")
	return r.Finish("translation_validation")
}
