package checks

import (
	"crypto/sha256"
	"fmt"
	"math/rand"
	"path/filepath"
	"strings"

	"verif/engine/gosym"
	. "verif/engine/oracle"
)

func ACall(alias, fn string, args ...Expr) Expr { return CallE{Alias: alias, Fn: fn, Args: args} }

func withImports(p *Program, imps ...Import) *Program {
	p.Imports = imps
	return p
}

// hashClassMarker: a comment in an imported file that tells the sha256 stub which class of prefix the file has.
func hashMarker(class string, idx int) Stmt {
	return Comment{Text: fmt.Sprintf("HASHCLASS:%s:%d", class, idx)}
}

func hashOverride(c *gosym.Ctx, content string) (gosym.Str, bool) {
	i := strings.Index(content, "HASHCLASS:")
	if i < 0 {
		return gosym.Str{}, false
	}
	var class string
	var idx int
	rest := content[i+len("HASHCLASS:"):]
	parts := strings.SplitN(rest, ":", 2)
	class = parts[0]
	fmt.Sscanf(parts[1], "%d", &idx)
	first := "c"
	if class == "digit" {
		first = "7"
	}
	hex := fmt.Sprintf("%s%02x%s", first, idx, strings.Repeat("e", 61))
	return gosym.Conc(hex), true
}

// realizeHashClasses rewrites the HASHCLASS comments of concrete files into nonce comments such that the
// real SHA-256 prefix has the requested class.
func realizeHashClasses(files map[string]string) map[string]string {
	out := map[string]string{}
	for p, content := range files {
		i := strings.Index(content, "HASHCLASS:")
		if i < 0 {
			out[p] = content
			continue
		}
		wantDigit := strings.HasPrefix(content[i+len("HASHCLASS:"):], "digit")
		end := strings.Index(content[i:], "\n")
		if end < 0 {
			end = len(content) - i
		}
		for nonce := 0; nonce < 10000; nonce++ {
			cand := content[:i] + fmt.Sprintf("nonce %d", nonce) + content[i+end:]
			sum := fmt.Sprintf("%x", sha256.Sum256([]byte(cand)))
			isDigit := sum[0] >= '0' && sum[0] <= '9'
			if isDigit == wantDigit {
				out[p] = cand
				break
			}
		}
		if _, ok := out[p]; !ok {
			out[p] = content
		}
	}
	return out
}

func c09Shapes() []Shape {
	var sh []Shape
	classes := []string{"letter", "digit"}
	// add builds one shape per prefix-class assignment of its imported files (all letter / first digit / all digit)
	add := func(name string, nFiles int, build func(cl []string) (*Program, map[string]*Program), reject bool) {
		assignments := [][]string{}
		all := func(c string) []string {
			r := make([]string, nFiles)
			for i := range r {
				r[i] = c
			}
			return r
		}
		assignments = append(assignments, all("letter"))
		if nFiles > 0 {
			assignments = append(assignments, all("digit"))
		}
		if nFiles > 1 {
			mixed := all("letter")
			mixed[0] = "digit"
			assignments = append(assignments, mixed)
		}
		for _, cl := range assignments {
			cl := cl
			suffix := ""
			if nFiles > 0 {
				suffix = "[" + strings.Join(cl, ",") + "]"
			}
			sh = append(sh, Shape{Name: name + suffix, ExpectReject: reject,
				Prog: func(c *gosym.Ctx) *Program { p, _ := build(cl); return p },
				Mods: func(c *gosym.Ctx) map[string]*Program { _, m := build(cl); return m },
				Init: func(c *gosym.Ctx) { c.FS.HashOverride = hashOverride },
			})
		}
	}
	_ = classes
	pubHello := func(cl string, idx int, extra ...Stmt) *Program {
		body := []Stmt{hashMarker(cl, idx),
			Fn("helper", []ParamDecl{Pm("a", TInt)}, []Type{TInt}, Ret(Op("+", V("a"), N(1)))),
			Fn("Hello", []ParamDecl{Pm("a", TInt)}, []Type{TInt}, Ret(Op("*", Call("helper", V("a")), N(2)))),
			Fn("Unused", nil, []Type{TInt}, Ret(Call("helper", N(5))))}
		return Prog(append(body, extra...)...)
	}
	add("single-import", 1, func(cl []string) (*Program, map[string]*Program) {
		return withImports(Prog(Pr(ACall("h", "Hello", L(0))), Def("x", ACall("h", "Hello", N(3))), Pr(V("x"))), Import{"h", "h.tsh"}),
			map[string]*Program{"h.tsh": pubHello(cl[0], 0)}
	}, false)
	add("two-imports-with-top-level-code", 2, func(cl []string) (*Program, map[string]*Program) {
		a := Prog(hashMarker(cl[0], 0), Fn("World", nil, []Type{TString}, Ret(S("world"))), Pr(S("init a"), Call("World")))
		b := Prog(hashMarker(cl[1], 1), Fn("Twice", []ParamDecl{Pm("v", TInt)}, []Type{TInt}, Ret(Op("*", V("v"), N(2)))), Pr(S("init b"), Call("Twice", N(4))))
		return withImports(Prog(Pr(ACall("a", "World"), ACall("b", "Twice", L(0)))), Import{"a", "a.tsh"}, Import{"b", "b.tsh"}),
			map[string]*Program{"a.tsh": a, "b.tsh": b}
	}, false)
	add("top-level-code-of-import-calls-private-function", 2, func(cl []string) (*Program, map[string]*Program) {
		a := Prog(hashMarker(cl[0], 0), Fn("World", nil, []Type{TString}, Ret(S("world"))), Pr(S("init a"), Call("World")))
		b := Prog(hashMarker(cl[1], 1), Fn("setup", []ParamDecl{Pm("v", TInt)}, []Type{TInt}, Ret(Op("+", V("v"), N(1)))),
			Fn("openLog", nil, []Type{TString}, Ret(S("log"))), Fn("third", nil, []Type{TInt}, Ret(N(3))),
			Fn("Public", nil, []Type{TInt}, Ret(N(2))), Pr(S("init b"), Call("setup", N(4)), Call("openLog"), Call("third")))
		return withImports(Prog(Pr(ACall("a", "World"), ACall("b", "Public"))), Import{"a", "a.tsh"}, Import{"b", "b.tsh"}),
			map[string]*Program{"a.tsh": a, "b.tsh": b}
	}, false)
	add("main-and-import-both-have-top-level-calls", 1, func(cl []string) (*Program, map[string]*Program) {
		b := Prog(hashMarker(cl[0], 0), Fn("setup", nil, []Type{TInt}, Ret(N(7))), Fn("Public", nil, []Type{TInt}, Ret(N(2))), Pr(S("init b"), Call("setup")))
		return withImports(Prog(Fn("mine", nil, []Type{TInt}, Ret(N(9))), Pr(Call("mine"), ACall("b", "Public"))), Import{"b", "b.tsh"}),
			map[string]*Program{"b.tsh": b}
	}, false)
	add("imported-function-uses-own-global", 1, func(cl []string) (*Program, map[string]*Program) {
		a := Prog(hashMarker(cl[0], 0), Def("Counter", N(10)), Def("hidden", N(5)),
			Fn("Next", nil, []Type{TInt}, Set("Counter", Op("+", V("Counter"), V("hidden"))), Ret(V("Counter"))))
		return withImports(Prog(Pr(ACall("a", "Next")), Pr(ACall("a", "Next"))), Import{"a", "a.tsh"}), map[string]*Program{"a.tsh": a}
	}, false)
	add("imported-top-level-global-only", 1, func(cl []string) (*Program, map[string]*Program) {
		a := Prog(hashMarker(cl[0], 0), Def("Total", N(3)), Set("Total", Op("+", V("Total"), N(4))), Pr(S("a"), V("Total")),
			Fn("Get", nil, []Type{TInt}, Ret(N(1))))
		return withImports(Prog(Pr(ACall("a", "Get"))), Import{"a", "a.tsh"}), map[string]*Program{"a.tsh": a}
	}, false)
	add("equal-names-in-different-files", 2, func(cl []string) (*Program, map[string]*Program) {
		mk := func(c string, i int, v int64) *Program {
			return Prog(hashMarker(c, i), Fn("get", nil, []Type{TInt}, Ret(N(v))), Fn("Get", nil, []Type{TInt}, Ret(Op("+", Call("get"), N(1)))))
		}
		main := Prog(Fn("get", nil, []Type{TInt}, Ret(N(100))), Fn("Get", nil, []Type{TInt}, Ret(Call("get"))),
			Pr(Call("Get"), ACall("a", "Get"), ACall("b", "Get")))
		return withImports(main, Import{"a", "a.tsh"}, Import{"b", "b.tsh"}), map[string]*Program{"a.tsh": mk(cl[0], 0, 10), "b.tsh": mk(cl[1], 1, 20)}
	}, false)
	add("diamond", 3, func(cl []string) (*Program, map[string]*Program) {
		c := Prog(hashMarker(cl[2], 2), Fn("Base", []ParamDecl{Pm("v", TInt)}, []Type{TInt}, Ret(Op("+", V("v"), N(1)))), Pr(S("init c")))
		a := withImports(Prog(hashMarker(cl[0], 0), Pr(S("init a")), Fn("A", []ParamDecl{Pm("v", TInt)}, []Type{TInt}, Ret(ACall("c", "Base", V("v")))), Pr(S("init a2"), Call("A", N(1)))), Import{"c", "c.tsh"})
		b := withImports(Prog(hashMarker(cl[1], 1), Pr(S("init b")), Fn("B", []ParamDecl{Pm("v", TInt)}, []Type{TInt}, Ret(Op("*", ACall("c", "Base", V("v")), N(2)))), Pr(S("init b2"), Call("B", N(1)))), Import{"c", "c.tsh"})
		return withImports(Prog(Pr(ACall("a", "A", L(0)), ACall("b", "B", L(1)))), Import{"a", "a.tsh"}, Import{"b", "b.tsh"}),
			map[string]*Program{"a.tsh": a, "b.tsh": b, "c.tsh": c}
	}, false)
	add("diamond-shared-state", 3, func(cl []string) (*Program, map[string]*Program) {
		c := Prog(hashMarker(cl[2], 2), Def("count", N(0)), Def("Label", S("c")),
			Fn("Inc", nil, []Type{TInt}, Set("count", Op("+", V("count"), N(1))), Ret(V("count"))),
			Fn("Tag", []ParamDecl{Pm("t", TString)}, []Type{TString}, Set("Label", Op("+", V("Label"), V("t"))), Ret(V("Label"))))
		a := withImports(Prog(hashMarker(cl[0], 0), Def("first", ACall("c", "Inc")), Def("tag", ACall("c", "Tag", S("a"))),
			Fn("A", []ParamDecl{Pm("v", TInt)}, []Type{TInt}, Ret(Op("+", Op("+", ACall("c", "Inc"), Op("*", V("first"), N(100))), V("v")))),
			Fn("T", nil, []Type{TString}, Ret(Op("+", V("tag"), ACall("c", "Tag", S("A")))))), Import{"c", "c.tsh"})
		b := withImports(Prog(hashMarker(cl[1], 1), Fn("B", nil, []Type{TInt}, Ret(ACall("c", "Inc")))), Import{"c", "c.tsh"})
		return withImports(Prog(Pr(ACall("a", "A", L(0))), Pr(ACall("b", "B")), Pr(ACall("a", "A", N(0)), ACall("a", "T"))), Import{"a", "a.tsh"}, Import{"b", "b.tsh"}),
			map[string]*Program{"a.tsh": a, "b.tsh": b, "c.tsh": c}
	}, false)
	add("imported-top-level-blocks-use-own-globals", 1, func(cl []string) (*Program, map[string]*Program) {
		a := Prog(hashMarker(cl[0], 0), Def("Total", N(3)), Def("limit", N(2)),
			IfS(Op(">", V("Total"), V("limit")), Set("Total", Op("+", V("Total"), N(4))), Pr(S("a"), V("Total"))),
			For3(Def("i", N(0)), Op("<", V("i"), V("limit")), Inc("i"), OpSet("Total", "+", V("i"))),
			Switch{Tag: V("limit"), Cases: []Case{{Val: N(2), Body: []Stmt{Set("limit", N(5)), Pr(S("switched"), V("limit"))}}}},
			Fn("Get", nil, []Type{TInt}, Ret(Op("+", V("Total"), V("limit")))))
		return withImports(Prog(Pr(ACall("a", "Get"), L(0))), Import{"a", "a.tsh"}), map[string]*Program{"a.tsh": a}
	}, false)
	add("same-import-string-in-two-directories", 3, func(cl []string) (*Program, map[string]*Program) {
		helper := func(c string, i int, v int64, tag string) *Program {
			return Prog(hashMarker(c, i), Def("State", N(0)), Set("State", N(v)), Pr(S("init"), S(tag), V("State")), Fn("Value", nil, []Type{TInt}, Ret(V("State"))))
		}
		mod := func(name string) *Program {
			return withImports(Prog(Fn(name, nil, []Type{TInt}, Ret(Op("+", ACall("h", "Value"), N(1))))), Import{"h", "helper.tsh"})
		}
		return withImports(Prog(Pr(ACall("n", "Net"), ACall("d", "Disk"), L(0))), Import{"n", "net/mod.tsh"}, Import{"d", "disk/mod.tsh"}),
			map[string]*Program{"net/mod.tsh": mod("Net"), "disk/mod.tsh": mod("Disk"), "net/helper.tsh": helper(cl[0], 0, 10, "net"), "disk/helper.tsh": helper(cl[1], 1, 20, "disk")}
	}, false)
	add("one-file-two-import-strings", 2, func(cl []string) (*Program, map[string]*Program) {
		d := Prog(hashMarker(cl[0], 0), Def("count", N(0)), Pr(S("init d")), Fn("Inc", nil, []Type{TInt}, Set("count", Op("+", V("count"), N(1))), Ret(V("count"))))
		b := withImports(Prog(hashMarker(cl[1], 1), Def("first", ACall("d", "Inc")), Fn("B", nil, []Type{TInt}, Ret(Op("+", Op("*", V("first"), N(100)), ACall("d", "Inc"))))), Import{"d", "d.tsh"})
		return withImports(Prog(Pr(ACall("b", "B")), Pr(ACall("d", "Inc"), L(0))), Import{"b", "lib/b.tsh"}, Import{"d", "lib/d.tsh"}),
			map[string]*Program{"lib/b.tsh": b, "lib/d.tsh": d}
	}, false)
	add("same-file-two-aliases", 1, func(cl []string) (*Program, map[string]*Program) {
		return withImports(Prog(Pr(ACall("x", "Hello", L(0)), ACall("y", "Hello", L(1)))), Import{"x", "h.tsh"}, Import{"y", "h.tsh"}),
			map[string]*Program{"h.tsh": pubHello(cl[0], 0)}
	}, false)
	add("chain", 2, func(cl []string) (*Program, map[string]*Program) {
		b := Prog(hashMarker(cl[1], 1), Fn("G", []ParamDecl{Pm("v", TInt)}, []Type{TInt}, Ret(Op("-", V("v"), N(1)))))
		a := withImports(Prog(hashMarker(cl[0], 0), Fn("F", []ParamDecl{Pm("v", TInt)}, []Type{TInt}, Ret(Op("*", ACall("b", "G", V("v")), N(3))))), Import{"b", "b.tsh"})
		return withImports(Prog(Pr(ACall("a", "F", L(0)))), Import{"a", "a.tsh"}), map[string]*Program{"a.tsh": a, "b.tsh": b}
	}, false)
	add("chain-leaf-calls-private-functions", 2, func(cl []string) (*Program, map[string]*Program) {
		b := Prog(hashMarker(cl[1], 1), Fn("double", []ParamDecl{Pm("v", TInt)}, []Type{TInt}, Ret(Op("*", V("v"), N(2)))),
			Fn("inner", []ParamDecl{Pm("v", TInt)}, []Type{TInt}, Ret(Op("+", Call("double", V("v")), N(1)))),
			Fn("Quad", []ParamDecl{Pm("v", TInt)}, []Type{TInt}, Ret(Call("inner", Call("double", V("v"))))),
			Fn("Never", nil, []Type{TInt}, Ret(Call("inner", N(1)))))
		a := withImports(Prog(hashMarker(cl[0], 0), Fn("local", []ParamDecl{Pm("v", TInt)}, []Type{TInt}, Ret(Op("+", V("v"), N(1)))),
			Fn("Area", []ParamDecl{Pm("v", TInt)}, []Type{TInt}, Ret(Call("local", ACall("b", "Quad", V("v")))))), Import{"b", "b.tsh"})
		return withImports(Prog(Pr(ACall("a", "Area", L(0)))), Import{"a", "a.tsh"}), map[string]*Program{"a.tsh": a, "b.tsh": b}
	}, false)
	add("chain-through-standard-library", 1, func(cl []string) (*Program, map[string]*Program) {
		a := Prog(hashMarker(cl[0], 0),
			Fn("Has", []ParamDecl{Pm("s", TString)}, []Type{TBool}, Ret(RawExpr{Text: "strings.Contains(s, \"b\")", Val: BoolLit{Val: true}})),
			Fn("Parts", []ParamDecl{Pm("s", TString)}, []Type{TInt}, Ret(RawExpr{Text: "len(strings.Split(s, \",\"))", Val: IntLit{Marker: -1, Val: 3}})))
		a.Imports = []Import{{"", "strings"}}
		return withImports(Prog(Pr(ACall("a", "Has", S("abc")), ACall("a", "Parts", S("x,y,z")))), Import{"a", "a.tsh"}), map[string]*Program{"a.tsh": a}
	}, false)
	add("std-and-local", 1, func(cl []string) (*Program, map[string]*Program) {
		p := Prog(Pr(ACall("h", "Hello", L(0))), Def("u", RawExpr{Text: "strings.Contains(\"abc\", \"b\")", Val: BoolLit{Val: true}}), Pr(V("u")))
		p.Imports = []Import{{"", "strings"}, {"h", "h.tsh"}}
		return p, map[string]*Program{"h.tsh": pubHello(cl[0], 0)}
	}, false)
	add("imported-slice-and-string-functions", 1, func(cl []string) (*Program, map[string]*Program) {
		a := Prog(hashMarker(cl[0], 0), Def("Names", Strs(S("x"), S("y"))),
			Fn("Count", nil, []Type{TInt}, Ret(Len(V("Names")))),
			Fn("Add", []ParamDecl{Pm("n", TString)}, nil, SSet("Names", Len(V("Names")), V("n"))))
		return withImports(Prog(Do(ACall("a", "Add", S("z"))), Pr(ACall("a", "Count"))), Import{"a", "a.tsh"}), map[string]*Program{"a.tsh": a}
	}, false)
	// illegal programs
	add("private-function-via-alias", 1, func(cl []string) (*Program, map[string]*Program) {
		return withImports(Prog(Pr(ACall("h", "helper", N(1)))), Import{"h", "h.tsh"}), map[string]*Program{"h.tsh": pubHello(cl[0], 0)}
	}, true)
	add("undefined-function-via-alias", 1, func(cl []string) (*Program, map[string]*Program) {
		return withImports(Prog(Pr(ACall("h", "Nope", N(1)))), Import{"h", "h.tsh"}), map[string]*Program{"h.tsh": pubHello(cl[0], 0)}
	}, true)
	add("unknown-alias", 1, func(cl []string) (*Program, map[string]*Program) {
		return withImports(Prog(Pr(ACall("zz", "Hello", N(1)))), Import{"h", "h.tsh"}), map[string]*Program{"h.tsh": pubHello(cl[0], 0)}
	}, true)
	add("imported-function-without-alias", 1, func(cl []string) (*Program, map[string]*Program) {
		return withImports(Prog(Pr(Call("Hello", N(1)))), Import{"h", "h.tsh"}), map[string]*Program{"h.tsh": pubHello(cl[0], 0)}
	}, true)
	add("transitive-import-not-visible", 2, func(cl []string) (*Program, map[string]*Program) {
		b := Prog(hashMarker(cl[1], 1), Fn("G", nil, []Type{TInt}, Ret(N(1))))
		a := withImports(Prog(hashMarker(cl[0], 0), Fn("F", nil, []Type{TInt}, Ret(ACall("b", "G")))), Import{"b", "b.tsh"})
		return withImports(Prog(Pr(ACall("b", "G"))), Import{"a", "a.tsh"}), map[string]*Program{"a.tsh": a, "b.tsh": b}
	}, true)
	return sh
}

// genModuleShape builds a random acyclic import graph of 2..4 files (deterministic in seed): every file has globals,
// a private helper, public functions that use its globals and call the public functions of the files it imports, and
// top-level code; some files live in a sub-directory; hash-prefix classes are chosen per file.
func genModuleShape(seed int64) Shape {
	rng := rand.New(rand.NewSource(seed))
	n := 2 + rng.Intn(3) // number of imported files
	type modInfo struct {
		path    string
		imports []int
		class   string
	}
	mods := make([]modInfo, n)
	for i := range mods {
		dir := ""
		if rng.Intn(3) == 0 {
			dir = []string{"lib/", "pkg/sub/"}[rng.Intn(2)]
		}
		mods[i].path = fmt.Sprintf("%sm%d.tsh", dir, i)
		mods[i].class = []string{"letter", "digit"}[rng.Intn(2)]
		for j := i + 1; j < n; j++ {
			if rng.Intn(2) == 0 {
				mods[i].imports = append(mods[i].imports, j)
			}
		}
	}
	rel := func(from, to string) string {
		r, err := filepath.Rel(filepath.Dir(from), to)
		if err != nil {
			return to
		}
		return filepath.ToSlash(r)
	}
	build := func() (*Program, map[string]*Program) {
		rng := rand.New(rand.NewSource(seed*7 + 1))
		progs := map[string]*Program{}
		for i := n - 1; i >= 0; i-- {
			m := mods[i]
			g := fmt.Sprintf("g%d", i)
			body := []Stmt{hashMarker(m.class, i), Def(g, N(int64(10*(i+1)))), Def(fmt.Sprintf("Tag%d", i), S(fmt.Sprintf("t%d", i)))}
			body = append(body, Fn(fmt.Sprintf("h%d", i), []ParamDecl{Pm("a", TInt)}, []Type{TInt}, Ret(Op("+", V("a"), V(g)))))
			// public function: updates the global, calls imported publics
			var sum Expr = Call(fmt.Sprintf("h%d", i), V("a"))
			for _, j := range m.imports {
				if rng.Intn(3) > 0 {
					sum = Op("+", sum, ACall(fmt.Sprintf("x%d", j), fmt.Sprintf("F%d", j), Op("+", V("a"), N(int64(j)))))
				}
			}
			body = append(body, Fn(fmt.Sprintf("F%d", i), []ParamDecl{Pm("a", TInt)}, []Type{TInt}, Set(g, Op("+", V(g), N(1))), Ret(sum)))
			body = append(body, Fn(fmt.Sprintf("Unused%d", i), nil, []Type{TInt}, Ret(Call(fmt.Sprintf("h%d", i), N(0)))))
			// top-level code of the file
			if rng.Intn(2) == 0 {
				body = append(body, Pr(S(fmt.Sprintf("init %d", i)), V(g)))
			}
			if rng.Intn(2) == 0 {
				body = append(body, IfS(Op(">", V(g), N(0)), Set(g, Op("+", V(g), Call(fmt.Sprintf("h%d", i), N(1)))), Pr(S("block"), V(g))))
			}
			if len(m.imports) > 0 && rng.Intn(2) == 0 {
				j := m.imports[rng.Intn(len(m.imports))]
				body = append(body, Def(fmt.Sprintf("first%d", i), ACall(fmt.Sprintf("x%d", j), fmt.Sprintf("F%d", j), N(2))), Pr(S("first"), V(fmt.Sprintf("first%d", i))))
			}
			p := Prog(body...)
			for _, j := range m.imports {
				p.Imports = append(p.Imports, Import{fmt.Sprintf("x%d", j), rel(m.path, mods[j].path)})
			}
			progs[m.path] = p
		}
		var mainBody []Stmt
		main := Prog()
		for i := 0; i < n; i++ {
			if i == 0 || rng.Intn(2) == 0 {
				main.Imports = append(main.Imports, Import{fmt.Sprintf("x%d", i), mods[i].path})
				mainBody = append(mainBody, Pr(ACall(fmt.Sprintf("x%d", i), fmt.Sprintf("F%d", i), L(0))), Pr(ACall(fmt.Sprintf("x%d", i), fmt.Sprintf("F%d", i), N(int64(i)))))
			}
		}
		main.Body = append(mainBody, Pr(S("end")))
		return main, progs
	}
	return Shape{Name: "generated-import-graph", ExpectReject: false,
		Prog: func(c *gosym.Ctx) *Program { p, _ := build(); return p },
		Mods: func(c *gosym.Ctx) map[string]*Program { _, m := build(); return m },
		Init: func(c *gosym.Ctx) { c.FS.HashOverride = hashOverride },
	}
}

func CheckC09(r *Run) int {
	shapes := c09Shapes()
	ngen := 20
	if r.Tier != "quick" {
		ngen = 4000
	}
	for i := 0; i < ngen; i++ {
		shapes = append(shapes, genModuleShape(r.Seed*1000+int64(i)))
	}
	return checkShapes(r, shapes, eqOpts{Target: "bash", CheckHazards: true}, 3000,
		"import graphs: single, two files with top-level code, diamonds, chain, repeated alias, std + local, equal names, imported globals, files in several directories, plus 20 (quick) / 4000 (thorough) generated acyclic graphs of 2..4 files with globals, private helpers, cross-file calls and top-level code; every imported file once with a hash prefix starting with a letter and once with a digit (sha256 stubbed per class; counterexamples are replayed with a comment nonce that gives the real hash the same class); illegal uses (private, undefined, unknown alias, transitive) must be rejected",
		"the reference composes modules: a file's top-level code runs once when first imported, its functions see its own globals; integer arguments in the main file are symbolic")
}
