package checks

import (
	"fmt"
	"sort"
	"strings"
	"time"

	"verif/engine/gosym"
	"verif/engine/sym"
)

// One typed position of the grammar. The statement contains the hole "@@"; allowed lists the
// offered types the position accepts ("void" / "multi" for calls without / with two results).
type typedPos struct {
	name      string
	stmt      string // may span lines
	allowed   []string
	top       bool // statement only legal at top level (function definitions)
	onlyCalls bool
	varOnly   bool // the position needs a variable: no call is acceptable
}

var allTypes = []string{"int", "bool", "string", "[]int", "[]bool", "[]string"}

func typedPositions() []typedPos {
	anyVal := allTypes
	return []typedPos{
		{name: "arith-left", stmt: "x := @@ + vi\nprint(x)", allowed: []string{"int"}},
		{name: "arith-right", stmt: "x := vi * @@\nprint(x)", allowed: []string{"int"}},
		{name: "arith-right-minus", stmt: "x := vi - @@\nprint(x)", allowed: []string{"int"}},
		{name: "concat-right", stmt: "x := vs + @@\nprint(x)", allowed: []string{"string"}},
		{name: "concat-left", stmt: "x := @@ + vs\nprint(x)", allowed: []string{"string"}},
		{name: "modulo-left", stmt: "x := @@ % vi\nprint(x)", allowed: []string{"int"}},
		{name: "less-left", stmt: "x := @@ < vi\nprint(x)", allowed: []string{"int"}},
		{name: "equal-right-int", stmt: "x := vi == @@\nprint(x)", allowed: []string{"int"}},
		{name: "equal-right-bool", stmt: "x := vb == @@\nprint(x)", allowed: []string{"bool"}},
		{name: "notequal-right-string", stmt: "x := vs != @@\nprint(x)", allowed: []string{"string"}},
		{name: "comparison-chain-right", stmt: "x := vi < vi2 == @@\nprint(x)", allowed: []string{"bool"}},
		{name: "equality-chain-right", stmt: "x := vi == vi2 == @@\nprint(x)", allowed: []string{"bool"}},
		{name: "string-equality-chain-right", stmt: "x := vs == vs != @@\nprint(x)", allowed: []string{"bool"}},
		{name: "arith-chain-third", stmt: "x := vi + vi2 * @@\nprint(x)", allowed: []string{"int"}},
		{name: "concat-chain-third", stmt: "x := vs + vs + @@\nprint(x)", allowed: []string{"string"}},
		{name: "logic-chain-third", stmt: "x := vb || vb && @@\nprint(x)", allowed: []string{"bool"}},
		{name: "and-left", stmt: "x := @@ && vb\nprint(x)", allowed: []string{"bool"}},
		{name: "and-right", stmt: "x := vb && @@\nprint(x)", allowed: []string{"bool"}},
		{name: "or-right", stmt: "x := vb || @@\nprint(x)", allowed: []string{"bool"}},
		{name: "or-left", stmt: "x := @@ || vb\nprint(x)", allowed: []string{"bool"}},
		{name: "not-operand", stmt: "x := !@@\nprint(x)", allowed: []string{"bool"}},
		{name: "arg-int", stmt: "ti(@@)", allowed: []string{"int"}},
		{name: "arg-bool", stmt: "tb(@@)", allowed: []string{"bool"}},
		{name: "arg-string", stmt: "ts(@@)", allowed: []string{"string"}},
		{name: "arg-ints", stmt: "tis(@@)", allowed: []string{"[]int"}},
		{name: "arg-second", stmt: "t2(vi, @@)", allowed: []string{"string"}},
		{name: "arg-to-parameterless-function", stmt: "fv(@@)", allowed: []string{}},
		{name: "arg-to-parameterless-function-in-expression", stmt: "x := fi(@@)\nprint(x)", allowed: []string{}},
		{name: "arg-beyond-last-parameter", stmt: "ti(vi, @@)", allowed: []string{}},
		{name: "assign-int", stmt: "vi = @@", allowed: []string{"int"}},
		{name: "assign-bool", stmt: "vb = @@", allowed: []string{"bool"}},
		{name: "assign-string", stmt: "vs = @@", allowed: []string{"string"}},
		{name: "assign-ints", stmt: "vis = @@", allowed: []string{"[]int"}},
		{name: "assign-strings", stmt: "vss = @@", allowed: []string{"[]string"}},
		{name: "define-typed-int", stmt: "var t int = @@\nprint(t)", allowed: []string{"int"}},
		{name: "define-typed-strings", stmt: "var t []string = @@\nprint(len(t))", allowed: []string{"[]string"}},
		{name: "define-untyped", stmt: "t := @@\nu := t", allowed: anyVal},
		{name: "multi-assign-second", stmt: "vi, vs = 1, @@", allowed: []string{"string"}},
		{name: "short-definition-existing-first", stmt: "vs, nw := @@, 1\nprint(vs, nw)", allowed: []string{"string"}},
		{name: "short-definition-existing-second", stmt: "nw, vb := 1, @@\nprint(vb, nw)", allowed: []string{"bool"}},
		{name: "compound-int", stmt: "vi += @@", allowed: []string{"int"}},
		{name: "compound-string", stmt: "vs += @@", allowed: []string{"string"}},
		{name: "compound-minus-int", stmt: "vi -= @@", allowed: []string{"int"}},
		{name: "increment-operand", stmt: "@@++", allowed: []string{"int"}, varOnly: true},
		{name: "decrement-operand", stmt: "@@--", allowed: []string{"int"}, varOnly: true},
		{name: "for-increment-operand", stmt: "for k := 0; k < 1; @@++ {\n\tbreak\n}", allowed: []string{"int"}, varOnly: true},
		{name: "compound-plus-target", stmt: "@@ += vi", allowed: []string{"int"}, varOnly: true},
		{name: "compound-times-target", stmt: "@@ *= vi", allowed: []string{"int"}, varOnly: true},
		{name: "return-depth0", stmt: "func r() int {\n\treturn @@\n}\nprint(r())", allowed: []string{"int"}, top: true},
		{name: "return-depth1", stmt: "func r() int {\n\tif vb {\n\t\treturn @@\n\t}\n\treturn 1\n}\nprint(r())", allowed: []string{"int"}, top: true},
		{name: "return-depth2", stmt: "func r() string {\n\tfor vb {\n\t\tif vb {\n\t\t\treturn @@\n\t\t}\n\t}\n\treturn \"a\"\n}\nprint(r())", allowed: []string{"string"}, top: true},
		{name: "return-first-of-two", stmt: "func r() (int, string) {\n\treturn @@, \"b\"\n}\na, b := r()\nprint(a, b)", allowed: []string{"int"}, top: true},
		{name: "return-first-of-three", stmt: "func r() (string, int, bool) {\n\treturn @@, 1, true\n}\na, b, c := r()\nprint(a, b, c)", allowed: []string{"string"}, top: true},
		{name: "return-middle-of-three", stmt: "func r() (string, []int, bool) {\n\treturn \"s\", @@, true\n}\na, b, c := r()\nprint(a, len(b), c)", allowed: []string{"[]int"}, top: true},
		{name: "return-second", stmt: "func r() (int, bool) {\n\treturn 1, @@\n}\na, b := r()\nprint(a, b)", allowed: []string{"bool"}, top: true},
		{name: "if-condition", stmt: "if @@ {\n\tprint(1)\n}", allowed: []string{"bool"}},
		{name: "elseif-condition", stmt: "if vb {\n\tprint(1)\n} else if @@ {\n\tprint(2)\n}", allowed: []string{"bool"}},
		{name: "for-condition", stmt: "for @@ {\n\tbreak\n}", allowed: []string{"bool"}},
		{name: "for3-condition", stmt: "for i := 0; @@; i++ {\n\tbreak\n}", allowed: []string{"bool"}},
		{name: "case-int", stmt: "switch vi {\ncase @@:\n\tprint(1)\n}", allowed: []string{"int"}},
		{name: "case-string", stmt: "switch vs {\ncase @@:\n\tprint(1)\n}", allowed: []string{"string"}},
		{name: "case-notag", stmt: "switch {\ncase @@:\n\tprint(1)\n}", allowed: []string{"bool"}},
		{name: "slice-index-read", stmt: "x := vis[@@]\nprint(x)", allowed: []string{"int"}},
		{name: "slice-index-write", stmt: "vis[@@] = 1", allowed: []string{"int"}},
		{name: "string-index", stmt: "x := vs[@@]\nprint(x)", allowed: []string{"int"}},
		{name: "substring-low", stmt: "x := vs[@@:1]\nprint(x)", allowed: []string{"int"}},
		{name: "substring-high", stmt: "x := vs[0:@@]\nprint(x)", allowed: []string{"int"}},
		{name: "slice-literal-element", stmt: "x := []int{1, @@}\nprint(len(x))", allowed: []string{"int"}},
		{name: "string-slice-literal-element", stmt: "x := []string{@@}\nprint(len(x))", allowed: []string{"string"}},
		{name: "slice-element-assign", stmt: "vis[0] = @@", allowed: []string{"int"}},
		{name: "bool-slice-element-assign", stmt: "vbs[0] = @@", allowed: []string{"bool"}},
		{name: "print-argument", stmt: "print(@@)", allowed: append(append([]string{}, anyVal...), "multi")},
		{name: "len-argument", stmt: "x := len(@@)\nprint(x)", allowed: []string{"string", "[]int", "[]bool", "[]string"}},
		{name: "itoa-argument", stmt: "x := itoa(@@)\nprint(x)", allowed: []string{"int"}},
		{name: "input-prompt", stmt: "x := input(@@)\nprint(x)", allowed: []string{"string"}},
		{name: "read-path", stmt: "x := read(@@)\nprint(x)", allowed: []string{"string"}},
		{name: "exists-path", stmt: "x := exists(@@)\nprint(x)", allowed: []string{"string"}},
		{name: "write-path", stmt: "write(@@, vs)", allowed: []string{"string"}},
		{name: "write-data", stmt: "write(vs, @@)", allowed: []string{"string"}},
		{name: "write-append", stmt: "write(vs, vs, @@)", allowed: []string{"bool"}},
		{name: "copy-destination", stmt: "x := copy(@@, vis)\nprint(x)", allowed: []string{"[]int"}, varOnly: true},
		{name: "copy-source", stmt: "x := copy(vis, @@)\nprint(x)", allowed: []string{"[]int"}},
		{name: "range-operand", stmt: "for i, e := range @@ {\n\tprint(i, e)\n}", allowed: []string{"string", "[]int", "[]bool", "[]string"}},
		// arity and value-count positions
		{name: "define-two-second-from-call", stmt: "p, q := 1, @@\nprint(p, q)", allowed: []string{"int", "bool", "string", "[]int", "[]bool", "[]string"}},
		{name: "arg-first-of-two", stmt: "t2(@@, vs)", allowed: []string{"int"}},
		{name: "slice-literal-first-element", stmt: "x := []bool{@@, true}\nprint(len(x))", allowed: []string{"bool"}},
		{name: "define-two-from-call", stmt: "p, q := @@\nprint(p, q)", allowed: []string{"multi"}},
		{name: "assign-two-from-call", stmt: "vi, vi2 = @@", allowed: []string{"multi"}},
		{name: "call-statement", stmt: "@@", allowed: []string{"void", "multi", "int", "[]int", "bool", "string"}, onlyCalls: true},
	}
}

const c06Prelude = "vi := 1\nvi2 := 2\nvb := true\nvs := \"s\"\nvis := []int{1}\nvbs := []bool{true}\nvss := []string{\"a\"}\n" +
	"func ti(a int) {\n\tprint(a)\n}\nfunc tb(a bool) {\n\tprint(a)\n}\nfunc ts(a string) {\n\tprint(a)\n}\nfunc tis(a []int) {\n\tprint(len(a))\n}\nfunc t2(a int, b string) {\n\tprint(a, b)\n}\n" +
	"func fv() {\n\tprint(0)\n}\nfunc fm() (int, int) {\n\treturn 1, 2\n}\nfunc fi() int {\n\treturn 1\n}\nfunc fs() []int {\n\treturn []int{1}\n}\nfunc fb() bool {\n\treturn true\n}\nfunc ft() string {\n\treturn \"t\"\n}\n"

type typOutcome struct {
	ExpectAccept bool // probes only
	Kind         string
	What         string
	Class        string
	Pos          string
	Ctx          string
	Offered      string
	Src          string
}

var typeSpellings = map[string]string{
	"int": "  int   ", "bool": "  bool  ", "string": "  string", "error": "  error ",
	"[]int": "[]int   ", "[]bool": "[]bool  ", "[]string": "[]string", "[]error": "[]error ",
}

func typeOfSpelling(sp string) string {
	t := strings.ReplaceAll(strings.TrimSpace(sp), "error", "string")
	return t
}

func CheckC06(r *Run) int {
	nat, err := BuildNative()
	if err != nil {
		fmt.Println("cannot build the repository natively:", err)
		return 2
	}
	r.Native = nat
	positions := typedPositions()
	contexts := []string{"top", "function", "if-body", "for-body", "switch-body"}
	var bads, probes []typOutcome
	verdicts, accepted := 0, 0
	st := r.Eng.Explore(func(c *gosym.Ctx) interface{} {
		B := c.B
		p := positions[c.Choose("position", 0, len(positions)-1)]
		ctx := "top"
		if !p.top {
			ctx = contexts[c.Choose("context", 0, len(contexts)-1)]
		}
		// the offered expression: variable v whose declared type is 8 symbolic bytes, or a call f?()
		var offer gosym.Str
		var decl gosym.Str
		var expected *sym.Term
		offeredDesc := ""
		var typeField gosym.Str
		if !p.onlyCalls && c.Fork() {
			typeField = SymStr(c, "ty", 8, "[]intbolsrge ")
			var alts []*sym.Term
			for _, sp := range typeSpellings {
				alts = append(alts, c.StrEq(typeField, gosym.Conc(sp)))
			}
			c.Assume(B.Or(alts...))
			decl = gosym.Concat(gosym.Conc("var v "), typeField, gosym.Conc("\n"))
			offer = gosym.Conc("v")
			expected = B.False
			for sp := range typeSpellings {
				t := typeOfSpelling(sp)
				for _, a := range p.allowed {
					if a == t {
						expected = B.Or(expected, c.StrEq(typeField, gosym.Conc(typeSpellings[sp])))
					}
				}
			}
			offeredDesc = "variable of symbolic type"
		} else {
			fb := c.B.ByteVar("fn", "vmisbt")
			c.S.Declare(fb)
			offer = gosym.Concat(gosym.Conc("f"), gosym.ByteStr(fb), gosym.Conc("()"))
			expected = B.False
			for _, a := range p.allowed {
				if p.varOnly {
					break // the position needs a variable: no call is acceptable
				}
				switch a {
				case "void":
					expected = B.Or(expected, B.Eq(fb, B.BV('v', 8)))
				case "multi":
					expected = B.Or(expected, B.Eq(fb, B.BV('m', 8)))
				case "int":
					expected = B.Or(expected, B.Eq(fb, B.BV('i', 8)))
				case "[]int":
					if !p.varOnly {
						expected = B.Or(expected, B.Eq(fb, B.BV('s', 8)))
					}
				case "bool":
					expected = B.Or(expected, B.Eq(fb, B.BV('b', 8)))
				case "string":
					expected = B.Or(expected, B.Eq(fb, B.BV('t', 8)))
				}
			}
			offeredDesc = "call f?() with symbolic function letter (void, two results, int, []int, bool, string)"
		}
		stmt := gosym.Concat(splitHole(p.stmt, offer)...)
		var body gosym.Str
		switch ctx {
		case "top":
			body = gosym.Concat(stmt, gosym.Conc("\n"))
		case "function":
			body = gosym.Concat(gosym.Conc("func wrap() {\n"), stmt, gosym.Conc("\n}\nwrap()\n"))
		case "if-body":
			body = gosym.Concat(gosym.Conc("if vb {\n"), stmt, gosym.Conc("\n}\n"))
		case "for-body":
			body = gosym.Concat(gosym.Conc("for i0 := 0; i0 < 1; i0++ {\n"), stmt, gosym.Conc("\n}\n"))
		case "switch-body":
			body = gosym.Concat(gosym.Conc("switch vi {\ncase 1:\n"), stmt, gosym.Conc("\n}\n"))
		}
		src := gosym.Concat(gosym.Conc(c06Prelude), decl, body)
		c.FS.AddFile("/work/main.tsh", src)
		c.ProbeFn = func(m map[string]uint64) interface{} {
			return typOutcome{Kind: "probe", Pos: p.name, Ctx: ctx, Src: ModelStr(src, m), ExpectAccept: sym.Eval(expected, m) == 1,
				Offered: strings.TrimSpace(ModelStr(gosym.Concat(typeField, offer), m))}
		}
		var errs [2]bool
		for ti, target := range []string{"bash", "batch"} {
			var script gosym.Str
			var hasErr bool
			gp := c.Try(func() { script, _, hasErr = c.Transpile("/work/main.tsh", target) })
			if gp != nil {
				_, m := c.Sat()
				return typOutcome{Kind: "bad", What: "panic: " + gp.Msg, Pos: p.name, Ctx: ctx, Offered: offeredDesc, Src: ModelStr(src, m)}
			}
			if hasErr && script.MinLen() > 0 {
				_, m := c.Sat()
				return typOutcome{Kind: "bad", What: "error and script", Pos: p.name, Ctx: ctx, Src: ModelStr(src, m)}
			}
			errs[ti] = hasErr
		}
		if errs[0] != errs[1] {
			_, m := c.Sat()
			return typOutcome{Kind: "bad", What: fmt.Sprintf("targets disagree: bash rejects=%v, batch rejects=%v", errs[0], errs[1]), Pos: p.name, Ctx: ctx, Src: ModelStr(src, m)}
		}
		// accepted must equal expected, for every type spelling on this path
		acc := B.Bool(!errs[0])
		if res, m := c.Sat(B.Not(B.Eq(acc, expected))); res == sym.Sat {
			what := "ill-typed program accepted"
			if errs[0] {
				what = "well-typed program rejected"
			}
			return typOutcome{Kind: "bad", What: what, Pos: p.name, Ctx: ctx, Src: ModelStr(src, m), Offered: strings.TrimSpace(ModelStr(gosym.Concat(typeField, offer), m))}
		} else if res == sym.Unknown {
			c.Unsupported("solver unknown on final assertion")
		}
		if errs[0] {
			return typOutcome{Kind: "rejected"}
		}
		return typOutcome{Kind: "accepted"}
	}, gosym.ExploreOpts{Workers: r.Workers, TimeoutMS: 10000, Budget: gosym.Budget{MaxPaths: 500000, Steps: 30_000_000}, OnPath: func(pr *gosym.PathResult) {
		if pb, ok := pr.Probe.(typOutcome); ok && len(probes) < 400 {
			probes = append(probes, pb)
		}
		o, ok := pr.Ret.(typOutcome)
		if !ok {
			return
		}
		verdicts++
		switch o.Kind {
		case "accepted":
			accepted++
		case "bad":
			bads = append(bads, o)
		}
	}})
	r.Absorb("H_C06_position_table", st, fmt.Sprintf("%d typed positions x %d contexts x offered expression: a variable whose declared type is 8 symbolic bytes (constrained to the 8 type spellings) or a call f?() with a symbolic function letter (void / two results / int)", len(positions), len(contexts)))
	// paths the engine could not interpret: one concrete instance each is decided on the native build
	sort.SliceStable(probes, func(i, j int) bool { return probes[i].Pos+probes[i].Src < probes[j].Pos+probes[j].Src })
	for i, pb := range probes {
		if i >= 120 {
			break
		}
		res, err := nat.RunDrv([]DrvReq{{Op: "transpile", Files: map[string]string{"main.tsh": pb.Src}, Main: "main.tsh", Target: "bash"}}, 30*time.Second)
		if err != nil {
			continue
		}
		acc := !res[0].HasErr && res[0].Panic == ""
		if res[0].Panic != "" {
			pb.What = "panic: " + res[0].Panic
			bads = append(bads, pb)
		} else if acc != pb.ExpectAccept {
			pb.What = map[bool]string{true: "ill-typed program accepted", false: "well-typed program rejected"}[acc]
			bads = append(bads, pb)
		}
	}
	r.Cov("paths_decided_by_native_probe_only", min(len(probes), 120))
	seen := map[string]bool{}
	validated := 0
	for _, b := range bads {
		dir := "other"
		if strings.Contains(b.What, "accepted") {
			dir = "accepts-ill-typed"
		} else if strings.Contains(b.What, "rejected") {
			dir = "rejects-well-typed"
		}
		b.Class = "C06." + b.Pos + "." + dir
		if seen[b.Class] {
			continue
		}
		seen[b.Class] = true
		// native confirmation
		res, err := nat.RunDrv([]DrvReq{
			{Op: "transpile", Files: map[string]string{"main.tsh": b.Src}, Main: "main.tsh", Target: "bash"},
			{Op: "transpile", Files: map[string]string{"main.tsh": b.Src}, Main: "main.tsh", Target: "batch"},
		}, 30*time.Second)
		validated++
		what := b.What
		if err != nil {
			what += "; native run failed: " + err.Error()
		} else {
			nativeAccepts := !res[0].HasErr && res[0].Panic == ""
			switch {
			case strings.Contains(b.What, "accepted") && !nativeAccepts, strings.Contains(b.What, "rejected") && nativeAccepts:
				r.Spurious("typing candidate did not reproduce natively: " + b.Pos + " " + b.What)
				continue
			}
			what += fmt.Sprintf(" (native: bash error=%q panic=%q, batch error=%q)", res[0].Err, res[0].Panic, res[1].Err)
		}
		if r.IsKnown(b.Class) {
			r.HitKnown(b.Class, b.Offered+" in "+b.Ctx)
			continue
		}
		rdir := r.WriteReplay(b.Class, map[string]string{"main.tsh": b.Src, "finding.txt": fmt.Sprintf("property C06\nposition %s context %s offered %s\n%s\n", b.Pos, b.Ctx, b.Offered, what)})
		r.AddViolation(Violation{Class: b.Class, What: fmt.Sprintf("position %s, context %s, offered %q: %s", b.Pos, b.Ctx, b.Offered, what), Replay: rdir})
	}
	r.Cov("states", verdicts)
	r.Cov("accepted_verdicts", accepted)
	r.Cov("traces_validated_against_impl", validated)
	r.AddSample(map[string]interface{}{"position": "and-right", "statement": "x := vb && @@", "offered": "var v <8 symbolic bytes>", "expected": "accepted iff the bytes spell bool"})
	r.AddSample(map[string]interface{}{"position": "return-depth2", "offered": "f?() with ? in {v,m,i}"})
	r.Assume("not in the table because unspecified: the argument types of print and of @program calls, a bare variable as a statement")
	r.Assume("expected verdicts come from the position table (Go's typing rules for the shared syntax, README signatures for builtins); error is string; excluded as unspecified: ordering comparison of strings, argument type of panic, equality of slices")
	r.Assume("one corrupted position per program; the rest of the program is well typed by construction")
	return r.Finish("model_checking")
}

func splitHole(tmpl string, fill gosym.Str) []gosym.Str {
	parts := strings.Split(tmpl, "@@")
	var out []gosym.Str
	for i, p := range parts {
		if i > 0 {
			out = append(out, fill)
		}
		out = append(out, gosym.Conc(p))
	}
	return out
}
