package checks

import (
	"fmt"
	"sort"
	"strings"
	"time"

	"verif/engine/gosym"
	"verif/engine/sym"
)

// Block-structure template. "#k" marks slot k. Slots are filled with a definition, a use,
// a placement statement, or nothing.
const scopeTemplate = `#0
if true {
	#1
	if true {
		#2
	}
	#3
}
#4
for i := 0; i < 1; i++ {
	#5
}
#6
func f(p int) int {
	#7
	return 1
}
#8
switch 1 {
case 1:
	#9
default:
	#10
}
#11
for k, e := range []int{1} {
	#12
}
#13
`

const nSlots = 14

// block of each slot and the parent relation (top = 0)
var slotBlock = []int{0, 1, 2, 1, 0, 3, 0, 4, 0, 5, 6, 0, 7, 0}
var blockParent = map[int]int{1: 0, 2: 1, 3: 0, 5: 0, 6: 0, 7: 0} // block 4 (function) has no lexical parent: it sees globals only

// implicit definitions: name -> block in which it is visible
var implicitDefs = map[byte][]int{'i': {3}, 'p': {4}, 'k': {7}, 'e': {7}}

func blockEncloses(outer, inner int) bool {
	for b := inner; ; {
		if b == outer {
			return true
		}
		p, ok := blockParent[b]
		if !ok {
			return false
		}
		b = p
	}
}

// visible: a definition placed in slot d is usable in slot u
func visible(d, u int) bool {
	if d >= u {
		return false
	}
	bd, bu := slotBlock[d], slotBlock[u]
	if bu == 4 || blockEncloses(4, bu) {
		// function body: own locals, and globals defined before the function
		if bd == 4 {
			return true
		}
		return bd == 0 && d < 7
	}
	return blockEncloses(bd, bu)
}

func implicitVisible(name byte, slot int) bool {
	for _, b := range implicitDefs[name] {
		if blockEncloses(b, slotBlock[slot]) {
			return true
		}
	}
	return false
}

type scopeOutcome struct {
	Kind  string
	What  string
	Class string
	Src   string
	Desc  string
	Extra map[string]string // further files of the program (import harness)
	Legal bool              // probes only: the expected verdict for the concrete instance
}

func fillSlots(fill map[int]gosym.Str) gosym.Str {
	var parts []gosym.Str
	rest := scopeTemplate
	for {
		i := strings.Index(rest, "#")
		if i < 0 {
			parts = append(parts, gosym.Conc(rest))
			break
		}
		parts = append(parts, gosym.Conc(rest[:i]))
		j := i + 1
		for j < len(rest) && rest[j] >= '0' && rest[j] <= '9' {
			j++
		}
		var k int
		fmt.Sscan(rest[i+1:j], &k)
		if f, ok := fill[k]; ok {
			parts = append(parts, f)
		} else {
			parts = append(parts, gosym.Conc("print(0)"))
		}
		rest = rest[j:]
	}
	return gosym.Concat(parts...)
}

const nameAlphabet = "abipke"

func CheckC07(r *Run) int {
	nat, err := BuildNative()
	if err != nil {
		fmt.Println("cannot build the repository natively:", err)
		return 2
	}
	r.Native = nat
	var bads []scopeOutcome
	total, acceptedN := 0, 0
	run := func(c *gosym.Ctx, src gosym.Str, expected *sym.Term, desc string) scopeOutcome {
		c.FS.AddFile("/work/main.tsh", src)
		var hasErr bool
		gp := c.Try(func() { _, _, hasErr = c.Transpile("/work/main.tsh", "bash") })
		if gp != nil {
			_, m := c.Sat()
			return scopeOutcome{Kind: "bad", What: "panic: " + gp.Msg, Src: ModelStr(src, m), Desc: desc}
		}
		acc := c.B.Bool(!hasErr)
		res, m := c.Sat(c.B.Not(c.B.Eq(acc, expected)))
		if res == sym.Unknown {
			c.Unsupported("solver unknown on final assertion")
		}
		if res == sym.Sat {
			what := "program with a scope error accepted"
			if hasErr {
				what = "legal program rejected"
			}
			return scopeOutcome{Kind: "bad", What: what, Src: ModelStr(src, m), Desc: desc}
		}
		if hasErr {
			return scopeOutcome{Kind: "rejected"}
		}
		return scopeOutcome{Kind: "accepted"}
	}
	opts := gosym.ExploreOpts{Workers: r.Workers, TimeoutMS: 10000, Budget: gosym.Budget{MaxPaths: 500000, Steps: 30_000_000}, OnPath: func(pr *gosym.PathResult) {
		o, ok := pr.Ret.(scopeOutcome)
		if !ok {
			return
		}
		total++
		switch o.Kind {
		case "accepted":
			acceptedN++
		case "bad":
			bads = append(bads, o)
		}
	}}
	deep := true // two-byte names (one can be a prefix of the other) are explored in both tiers since the fourth round
	// twoNames: names of one symbolic byte, in the thorough tier optionally followed by a second symbolic byte over "xy"
	// (so that one name can be a proper prefix of the other). It returns the name ropes and a function that turns a
	// legality predicate over concrete names into the expected-verdict term.
	twoNames := func(c *gosym.Ctx, alpha1, alpha2 string) (gosym.Str, gosym.Str, func(legal func(a, b string) bool) *sym.Term) {
		B := c.B
		n1 := B.ByteVar("n1", alpha1)
		n2 := B.ByteVar("n2", alpha2)
		c.S.Declare(n1)
		c.S.Declare(n2)
		s1, s2 := gosym.ByteStr(n1), gosym.ByteStr(n2)
		var m1, m2 *sym.Term
		if deep && c.Fork() {
			m1 = B.ByteVar("m1", "xy")
			c.S.Declare(m1)
			s1 = gosym.Concat(s1, gosym.ByteStr(m1))
		}
		if deep && c.Fork() {
			m2 = B.ByteVar("m2", "xy")
			c.S.Declare(m2)
			s2 = gosym.Concat(s2, gosym.ByteStr(m2))
		}
		sufs := func(m *sym.Term) []string {
			if m == nil {
				return []string{""}
			}
			return []string{"x", "y"}
		}
		return s1, s2, func(legal func(a, b string) bool) *sym.Term {
			acc := B.False
			for _, a := range []byte(alpha1) {
				for _, as := range sufs(m1) {
					for _, b := range []byte(alpha2) {
						for _, bs := range sufs(m2) {
							if !legal(string(a)+as, string(b)+bs) {
								continue
							}
							t := B.And(B.Eq(n1, B.BV(uint64(a), 8)), B.Eq(n2, B.BV(uint64(b), 8)))
							if as != "" {
								t = B.And(t, B.Eq(m1, B.BV(uint64(as[0]), 8)))
							}
							if bs != "" {
								t = B.And(t, B.Eq(m2, B.BV(uint64(bs[0]), 8)))
							}
							acc = B.Or(acc, t)
						}
					}
				}
			}
			return acc
		}
	}
	implicitName := func(name string, slot int) bool { return len(name) == 1 && implicitVisible(name[0], slot) }
	// Harness A: definition site x use site, two symbolic names
	st := r.Eng.Explore(func(c *gosym.Ctx) interface{} {
		d := c.Choose("def", 0, nSlots-1)
		u := c.Choose("use", 0, nSlots-1)
		if u == d {
			u = (d + 1) % nSlots
		}
		// definitions never use the names of header variables (those rules are fixed programs below)
		s1, s2, expect := twoNames(c, "ab", nameAlphabet)
		fill := map[int]gosym.Str{
			d: gosym.Concat(s1, gosym.Conc(" := 5")),
			u: gosym.Concat(gosym.Conc("print("), s2, gosym.Conc(")")),
		}
		legal := func(a, b string) bool {
			if implicitName(a, d) {
				return false // redefinition of a header variable / parameter
			}
			if a == b && visible(d, u) {
				return true
			}
			return implicitName(b, u)
		}
		return run(c, fillSlots(fill), expect(legal), fmt.Sprintf("def@%d use@%d", d, u))
	}, opts)
	r.Absorb("H_C07_def_use", st, fmt.Sprintf("every (definition slot, use slot) pair of a %d-slot block template (nested ifs, for header, function, switch cases, range); both names are one symbolic byte over %q, in the thorough tier optionally followed by a second symbolic byte over \"xy\"", nSlots, nameAlphabet))
	// Harness B: two definitions
	st = r.Eng.Explore(func(c *gosym.Ctx) interface{} {
		d := c.Choose("def1", 0, nSlots-2)
		e := c.Choose("def2", d+1, nSlots-1)
		s1, s2, expect := twoNames(c, "ab", "ab")
		fill := map[int]gosym.Str{
			d: gosym.Concat(s1, gosym.Conc(" := 5")),
			e: gosym.Concat(gosym.Conc("var "), s2, gosym.Conc(" int = 6")),
		}
		legal := func(a, b string) bool {
			if implicitName(a, d) || implicitName(b, e) {
				return false
			}
			return !(a == b && visible(d, e))
		}
		return run(c, fillSlots(fill), expect(legal), fmt.Sprintf("def@%d def@%d", d, e))
	}, opts)
	r.Absorb("H_C07_def_def", st, "every ordered pair of definition slots, two symbolic names: redefinition in a visible scope must be rejected, anything else accepted")
	// Harness C: placement of break / continue / return / func / a second function or parameter of the same name
	type placement struct {
		stmt  string
		legal func(slot int) (bool, bool) // (legal, specified)
	}
	inLoop := func(s int) bool { return slotBlock[s] == 3 || slotBlock[s] == 7 }
	placements := []placement{
		{"break", func(s int) (bool, bool) {
			if slotBlock[s] == 5 || slotBlock[s] == 6 {
				return false, false // break inside a switch: unspecified
			}
			return inLoop(s), true
		}},
		{"continue", func(s int) (bool, bool) { return inLoop(s), true }},
		{"return 2", func(s int) (bool, bool) { return slotBlock[s] == 4, true }},
		{"func g() {\n\tprint(1)\n}", func(s int) (bool, bool) { return slotBlock[s] == 0, true }},
		{"func f() {\n\tprint(1)\n}", func(s int) (bool, bool) { return false, true }}, // a second function named f, wherever it stands
		{"print(f(1))", func(s int) (bool, bool) { return s > 7, true }},
		{"print(p)", func(s int) (bool, bool) { return slotBlock[s] == 4, true }},
		{"print(i)", func(s int) (bool, bool) { return slotBlock[s] == 3, true }},
		{"print(k, e)", func(s int) (bool, bool) { return slotBlock[s] == 7, true }},
	}
	st = r.Eng.Explore(func(c *gosym.Ctx) interface{} {
		p := placements[c.Choose("stmt", 0, len(placements)-1)]
		s := c.Choose("slot", 0, nSlots-1)
		legal, specified := p.legal(s)
		if !specified {
			return scopeOutcome{Kind: "unspecified"}
		}
		return run(c, fillSlots(map[int]gosym.Str{s: gosym.Conc(p.stmt)}), c.B.Bool(legal), fmt.Sprintf("%q@%d", p.stmt, s))
	}, opts)
	r.Absorb("H_C07_placement", st, "break / continue / return / function definitions / calls before definition / parameter, loop and range variables at every slot")
	// Harness D: fixed programs around function rules
	fixed := []struct {
		name, src string
		legal     bool
	}{
		{"duplicate-parameter", "func f(a int, a int) int {\n\treturn a\n}\nprint(f(1, 2))\n", false},
		{"duplicate-parameter-other-type", "func f(a int, a string) int {\n\treturn 1\n}\nprint(f(1, \"s\"))\n", false},
		{"duplicate-parameter-slice-type", "func f(v string, n int, v []string) int {\n\treturn n\n}\nprint(f(\"s\", 1, []string{}))\n", false},
		{"call-through-alias-never-imported", "func helper() int {\n\treturn 1\n}\nprint(util.helper())\n", false},
		{"call-through-alias-never-imported-in-function", "func Shout() int {\n\treturn 1\n}\nfunc w() int {\n\treturn lib.Shout()\n}\nprint(w())\n", false},
		{"variable-through-alias-never-imported", "v := 1\nprint(m.v)\n", false},
		{"duplicate-function", "func f() int {\n\treturn 1\n}\nfunc f() int {\n\treturn 2\n}\nprint(f())\n", false},
		{"falls-off-end", "func f(a int) int {\n\tif a > 1 {\n\t\treturn 1\n\t}\n}\nprint(f(1))\n", false},
		{"falls-off-end-empty", "func f() int {\n}\nprint(f())\n", false},
		{"param-shadows-global", "g := 1\nfunc f(g int) int {\n\treturn g\n}\nprint(f(2), g)\n", false},
		{"caller-local-invisible", "func f() int {\n\treturn y\n}\nif true {\n\ty := 1\n\tprint(f(), y)\n}\n", false},
		{"global-after-function-invisible", "func f() int {\n\treturn z\n}\nz := 1\nprint(f())\n", false},
		{"global-before-function-visible", "z := 1\nfunc f() int {\n\treturn z\n}\nprint(f())\n", true},
		{"sibling-functions-same-local", "func f() int {\n\tv := 1\n\treturn v\n}\nfunc g() int {\n\tv := 2\n\treturn v\n}\nprint(f(), g())\n", true},
		{"function-calls-earlier-function", "func f() int {\n\treturn 1\n}\nfunc g() int {\n\treturn f()\n}\nprint(g())\n", true},
		{"function-calls-later-function", "func g() int {\n\treturn f()\n}\nfunc f() int {\n\treturn 1\n}\nprint(g())\n", false},
		{"global-named-like-later-loop-variable", "q := 5\nfor q := 0; q < 1; q++ {\n\tprint(q)\n}\n", false},
		{"redefine-loop-variable-in-body", "for q := 0; q < 1; q++ {\n\tq := 2\n\tprint(q)\n}\n", false},
		{"redefine-parameter-in-body", "func f(a int) int {\n\ta := 2\n\treturn a\n}\nprint(f(1))\n", false},
		{"redefine-range-variable-in-body", "for k, e := range []int{1} {\n\te := 2\n\tprint(k, e)\n}\n", false},
		{"global-named-like-later-range-value-variable", "v := \"o\"\nfor i, v := range []int{1, 2} {\n\tprint(i, v)\n}\nprint(v)\n", false},
		{"global-named-like-later-range-index-variable", "i := 5\nfor i, v := range []int{1, 2} {\n\tprint(i, v)\n}\nprint(i)\n", false},
		{"global-named-like-later-range-only-index", "k := 5\nfor k := range []int{1, 2} {\n\tprint(k)\n}\n", false},
		{"parameter-named-like-range-value-variable", "func f(v string) string {\n\tfor i, v := range []int{1} {\n\t\tprint(i, v)\n\t}\n\treturn v\n}\nprint(f(\"a\"))\n", false},
		{"local-named-like-range-value-variable", "func f() int {\n\te := 1\n\tfor k, e := range \"ab\" {\n\t\tprint(k, e)\n\t}\n\treturn e\n}\nprint(f())\n", false},
		{"range-variables-equal", "for e, e := range []int{1} {\n\tprint(e)\n}\n", false},
		{"range-value-variable-free-name", "v := \"o\"\nfor i, w := range []int{1, 2} {\n\tprint(i, w)\n}\nprint(v)\n", true},
		{"function-in-top-level-if", "if true {\n\tfunc h() {\n\t\tprint(1)\n\t}\n\th()\n}\n", false},
		{"function-in-top-level-for", "for i := 0; i < 1; i++ {\n\tfunc h() {\n\t\tprint(1)\n\t}\n\th()\n}\n", false},
		{"function-in-top-level-switch-clause", "x := 1\nswitch x {\ncase 1:\n\tfunc h() {\n\t\tprint(1)\n\t}\n\th()\n}\n", false},
		{"function-in-top-level-range", "for i, e := range []int{1} {\n\tfunc h() {\n\t\tprint(1)\n\t}\n\tprint(i, e)\n}\n", false},
		{"for-header-var-after-loop", "for q := 0; q < 1; q++ {\n\tprint(q)\n}\nprint(q)\n", false},
		{"same-var-in-sibling-loops", "for q := 0; q < 1; q++ {\n\tprint(q)\n}\nfor q := 0; q < 1; q++ {\n\tprint(q)\n}\n", true},
		{"assign-undefined", "u = 1\n", false},
		{"no-new-variables", "a, b := 1, 2\na, b := 3, 4\nprint(a, b)\n", false},
		{"partial-redeclaration", "a := 1\na, b := 3, 4\nprint(a, b)\n", true},
	}
	st = r.Eng.Explore(func(c *gosym.Ctx) interface{} {
		f := fixed[c.Choose("program", 0, len(fixed)-1)]
		o := run(c, gosym.Conc(f.src), c.B.Bool(f.legal), f.name)
		return o
	}, opts)
	r.Absorb("H_C07_function_rules", st, fmt.Sprintf("%d fixed programs around parameters, function order, fall-off-end and header variables", len(fixed)))

	// Harness E: the import boundary. An imported file defines a function whose name is three symbolic bytes; the main
	// file calls it through the alias at top level or inside a function: legal iff the name starts with an upper-case letter.
	var probes []scopeOutcome
	optsE := opts
	optsE.OnPath = func(pr *gosym.PathResult) {
		if pb, ok := pr.Probe.(scopeOutcome); ok && len(probes) < 400 {
			probes = append(probes, pb)
		}
		opts.OnPath(pr)
	}
	st = r.Eng.Explore(func(c *gosym.Ctx) interface{} {
		B := c.B
		b0 := B.ByteVar("f0", "aAmMzZ_")
		b1 := B.ByteVar("f1", "aZ_9")
		b2 := B.ByteVar("f2", "bQ_0")
		for _, v := range []*sym.Term{b0, b1, b2} {
			c.S.Declare(v)
		}
		n := c.Choose("name-length", 1, 3)
		name := gosym.Concat([]gosym.Str{gosym.ByteStr(b0), gosym.ByteStr(b1), gosym.ByteStr(b2)}[:n]...)
		inFunc := c.Fork()
		lib := gosym.Concat(gosym.Conc("func other() int {\n\treturn 1\n}\nfunc "), name, gosym.Conc("(a int) int {\n\treturn a + other()\n}\nfunc Public() int {\n\treturn 2\n}\n"))
		use := gosym.Concat(gosym.Conc("l."), name, gosym.Conc("(1)"))
		var main gosym.Str
		if inFunc {
			main = gosym.Concat(gosym.Conc("import l \"lib.tsh\"\nfunc w() int {\n\treturn "), use, gosym.Conc(" + l.Public()\n}\nprint(w())\n"))
		} else {
			main = gosym.Concat(gosym.Conc("import l \"lib.tsh\"\nprint("), use, gosym.Conc(", l.Public())\n"))
		}
		c.FS.SymHash = "c0ffee" + strings.Repeat("ab", 29)
		c.FS.AddFile("/work/lib.tsh", lib)
		upper := B.And(B.Cmp(sym.OpULe, B.BV('A', 8), b0), B.Cmp(sym.OpULe, b0, B.BV('Z', 8)))
		desc := fmt.Sprintf("imported function with a %d-byte name called through the alias (in function: %v)", n, inFunc)
		c.ProbeFn = func(m map[string]uint64) interface{} {
			f0 := byte(m["f0"])
			return scopeOutcome{Kind: "probe", Src: ModelStr(main, m), Extra: map[string]string{"lib.tsh": ModelStr(lib, m)}, Desc: desc, Legal: f0 >= 'A' && f0 <= 'Z'}
		}
		o := run(c, main, upper, desc)
		if o.Kind == "bad" {
			_, m := c.Sat()
			// the witness of run() was produced under the negated assertion; recompute both files from one model
			res, m2 := c.Sat(B.Not(B.Eq(B.Bool(o.What != "legal program rejected"), upper)))
			if res == sym.Sat {
				m = m2
			}
			o.Src = ModelStr(main, m)
			o.Extra = map[string]string{"lib.tsh": ModelStr(lib, m)}
		}
		return o
	}, optsE)
	r.Absorb("H_C07_import_boundary", st, "an imported file defines a function whose name is 1..3 symbolic bytes (first over \"aAmMzZ_\"); the main file calls it through the alias at top level / inside a function: accepted iff the first byte is an upper-case letter (sha256 of the symbolic file is stubbed by a constant)")
	// paths of harness E that the engine cannot interpret are decided by one native run each
	sort.SliceStable(probes, func(i, j int) bool {
		return probes[i].Src+probes[i].Extra["lib.tsh"] < probes[j].Src+probes[j].Extra["lib.tsh"]
	})
	probed := 0
	for _, pb := range probes {
		if probed >= 60 {
			break
		}
		probed++
		files := map[string]string{"main.tsh": pb.Src}
		for k, v := range pb.Extra {
			files[k] = v
		}
		res, err := nat.RunDrv([]DrvReq{{Op: "transpile", Files: files, Main: "main.tsh", Target: "bash"}}, 30*time.Second)
		if err != nil {
			continue
		}
		nativeAccepts := !res[0].HasErr && res[0].Panic == ""
		if nativeAccepts != pb.Legal {
			pb.Kind = "bad"
			pb.What = "program with a scope error accepted"
			if pb.Legal {
				pb.What = "legal program rejected"
			}
			bads = append(bads, pb)
		}
	}
	r.Cov("paths_decided_by_native_probe_only", probed)

	seen := map[string]bool{}
	validated := 0
	for _, b := range bads {
		dir := "accepts-illegal"
		if strings.Contains(b.What, "rejected") {
			dir = "rejects-legal"
		}
		b.Class = "C07." + strings.NewReplacer(" ", "", "\"", "", "\n", "", "\t", "").Replace(b.Desc) + "." + dir
		if seen[b.Class] {
			continue
		}
		seen[b.Class] = true
		nfiles := map[string]string{"main.tsh": b.Src}
		for k, v := range b.Extra {
			nfiles[k] = v
		}
		res, err := nat.RunDrv([]DrvReq{{Op: "transpile", Files: nfiles, Main: "main.tsh", Target: "bash"}}, 30*time.Second)
		validated++
		if err == nil {
			nativeAccepts := !res[0].HasErr && res[0].Panic == ""
			if (dir == "accepts-illegal") != nativeAccepts {
				r.Spurious("scope candidate did not reproduce natively: " + b.Desc)
				continue
			}
		}
		if r.IsKnown(b.Class) {
			r.HitKnown(b.Class, b.Desc)
			continue
		}
		rfiles := map[string]string{"main.tsh": b.Src, "finding.txt": "property C07\n" + b.Desc + "\n" + b.What + "\n"}
		for k, v := range b.Extra {
			rfiles[k] = v
		}
		rd := r.WriteReplay(b.Class, rfiles)
		r.AddViolation(Violation{Class: b.Class, What: fmt.Sprintf("%s: %s; program %q", b.Desc, b.What, b.Src), Replay: rd})
	}
	r.Cov("states", total)
	r.Cov("accepted_verdicts", acceptedN)
	r.Cov("traces_validated_against_impl", validated)
	r.AddSample(map[string]interface{}{"harness": "H_C07_def_use", "definition_slot": 1, "use_slot": 3, "names": "two symbolic bytes", "expected": "accepted iff the bytes are equal (or the use names the visible loop variable/parameter)"})
	r.Assume("expected verdicts come from the block model of the template (lexical scoping as in Go; a function body sees globals defined before it); ':=' of a name visible from an outer scope counts as redefinition (the property's wording)")
	r.Assume("break inside a switch is unspecified and not checked")
	return r.Finish("model_checking")
}
