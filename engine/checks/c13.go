package checks

import (
	"encoding/json"
	"fmt"
	"math/rand"
	"regexp"
	"sort"
	"strings"
	"time"

	"verif/engine/gosym"
	"verif/engine/sym"
)

type totOutcome struct {
	Kind   string // ok-script | ok-error | bad
	What   string
	Class  string
	Files  map[string]string
	Main   string
	Target string
}

// totalityPath transpiles main for both targets on this path and checks the result shape.
func totalityPath(c *gosym.Ctx, files map[string]gosym.Str, main string) totOutcome {
	for p, s := range files {
		c.FS.AddFile("/work/"+p, s)
	}
	mountStd(c)
	// concrete files are remembered so that a path ending in a budget/depth overrun can be replayed natively
	conc := map[string]string{}
	allConc := true
	for p, s := range files {
		g, ok := s.Go()
		if !ok {
			allConc = false
			break
		}
		conc[p] = g
	}
	if allConc {
		if b, err := json.Marshal(conc); err == nil {
			c.Note("files:" + string(b))
		}
	}
	c.ProbeFn = func(m map[string]uint64) interface{} {
		out := totOutcome{Kind: "probe", What: "the engine cannot interpret the real code on this path", Class: "C13.native-probe", Main: main, Target: "bash", Files: map[string]string{}}
		for p, s := range files {
			out.Files[p] = ModelStr(s, m)
		}
		return out
	}
	res := totOutcome{Kind: "ok-error", Main: main}
	for _, target := range []string{"bash", "batch"} {
		var script, errText gosym.Str
		var hasErr bool
		gp := c.Try(func() { script, errText, hasErr = c.Transpile("/work/"+main, target) })
		bad := ""
		class := ""
		switch {
		case gp != nil:
			bad = "Go panic: " + gp.Msg
			top := "?"
			if n := len(gp.Stack); n > 0 {
				top = gp.Stack[n-1]
				top = top[strings.LastIndex(top, "/")+1:]
			}
			class = "panic@" + top
		case hasErr && script.MinLen() > 0:
			bad, class = "error returned together with a script", "script-and-error"
		case hasErr && errText.MinLen() == 0:
			bad, class = "empty error", "empty-error"
		case !hasErr && script.MinLen() == 0:
			bad, class = "neither script nor error", "no-result"
		}
		if bad != "" {
			_, m := c.Sat()
			out := totOutcome{Kind: "bad", What: bad, Class: "C13." + class, Main: main, Target: target, Files: map[string]string{}}
			for p, s := range files {
				out.Files[p] = ModelStr(s, m)
			}
			return out
		}
		if !hasErr {
			res.Kind = "ok-script"
		}
	}
	return res
}

var roughTok = regexp.MustCompile("[A-Za-z_][A-Za-z0-9_]*|-?[0-9]+|\"[^\"\\n]*\"|`[^`]*`|==|!=|<=|>=|&&|\\|\\||:=|\\+=|-=|\\*=|/=|%=|\\+\\+|--|\\S")

var lexemeMenu = []string{"import", "var", "func", "return", "if", "else", "switch", "case", "default", "for", "range", "break", "continue", "nil",
	"len", "print", "input", "copy", "itoa", "exists", "read", "write", "panic", "bool", "int", "string", "error", "true", "false",
	"x", "f", "7", `"s"`, "(", ")", "[", "]", "{", "}", "==", "<", "&&", "||", "+=", "=", ":=", "++", "--", "!", "+", "-", "*", "/", "%", ",", ":", ";", ".", "@", "|", "\n", ""}

// confirmTotality replays on the native build under a watchdog and a memory limit.
func confirmTotality(r *Run, o totOutcome) (bool, string) {
	t0 := time.Now()
	res, err := r.Native.RunDrv([]DrvReq{{Op: "transpile", Files: o.Files, Main: o.Main, Target: o.Target}}, 15*time.Second)
	if err != nil {
		return true, fmt.Sprintf("native transpilation crashed, ran out of memory or hung (%.1fs): %v", time.Since(t0).Seconds(), err)
	}
	n := res[0]
	switch {
	case n.Panic != "":
		return true, "native Transpile panicked: " + n.Panic
	case n.HasErr && n.Script != "":
		return true, "native Transpile returned an error and a script"
	case n.HasErr && n.Err == "":
		return true, "native Transpile returned an empty error"
	case !n.HasErr && n.Script == "":
		return true, "native Transpile returned neither script nor error"
	}
	return false, ""
}

func (r *Run) handleTot(o totOutcome) {
	confirmed, what := confirmTotality(r, o)
	if !confirmed {
		r.Spurious(fmt.Sprintf("totality candidate (%s, target %s) did not reproduce natively: files %q", o.What, o.Target, o.Files))
		return
	}
	witness := o.Files[o.Main]
	if r.IsKnown(o.Class) {
		r.HitKnown(o.Class, witness)
		return
	}
	files := map[string]string{"finding.txt": fmt.Sprintf("property C13\nclass %s\nmain %s target %s\nengine: %s\nnative: %s\n", o.Class, o.Main, o.Target, o.What, what)}
	for p, s := range o.Files {
		files[p] = s
	}
	dir := r.WriteReplay(o.Class, files)
	r.AddViolation(Violation{Class: o.Class, What: fmt.Sprintf("%s (target %s); main file %q", what, o.Target, witness), Replay: dir})
}

func CheckC13(r *Run) int {
	nat, err := BuildNative()
	if err != nil {
		fmt.Println("cannot build the repository natively:", err)
		return 2
	}
	r.Native = nat
	quick := r.Tier == "quick"
	rng := rand.New(rand.NewSource(r.Seed))
	okScript, okErr := 0, 0
	var bads, hangs, probeTot []totOutcome
	onPath := func(pr *gosym.PathResult) {
		switch pr.End {
		case "budget", "depth":
			for _, n := range pr.Notes {
				if strings.HasPrefix(n, "files:") && len(hangs) < 6 {
					files := map[string]string{}
					if json.Unmarshal([]byte(n[6:]), &files) == nil {
						hangs = append(hangs, totOutcome{Kind: "bad", Class: "C13.does-not-terminate", Main: "main.tsh", Target: "bash", Files: files, What: "instruction/call-depth budget exceeded (" + pr.End + ")"})
					}
				}
			}
		}
		if pb, ok := pr.Probe.(totOutcome); ok && len(probeTot) < 300 {
			probeTot = append(probeTot, pb)
		}
		o, ok := pr.Ret.(totOutcome)
		if !ok {
			return
		}
		switch o.Kind {
		case "ok-script":
			okScript++
		case "ok-error":
			okErr++
		case "bad":
			bads = append(bads, o)
		}
	}
	flush := func() {
		seen := map[string]bool{}
		for _, b := range bads {
			if seen[b.Class+b.Target] {
				continue
			}
			seen[b.Class+b.Target] = true
			r.handleTot(b)
		}
		bads = nil
	}
	opts := func(maxPaths int) gosym.ExploreOpts {
		return gosym.ExploreOpts{Workers: r.Workers, OnPath: onPath, TimeoutMS: 10000, Budget: gosym.Budget{MaxPaths: maxPaths, Steps: 5_000_000, Depth: 2000}}
	}
	// (a) main file = n fully symbolic bytes
	nRaw := 2
	if !quick {
		nRaw = 3
	}
	for n := 0; n <= nRaw; n++ {
		n := n
		st := r.Eng.Explore(func(c *gosym.Ctx) interface{} {
			var segs []gosym.Seg
			for i := 0; i < n; i++ {
				b := c.B.Var(fmt.Sprintf("b%d", i), 8)
				c.S.Declare(b)
				segs = append(segs, gosym.Seg{B: b})
			}
			return totalityPath(c, map[string]gosym.Str{"main.tsh": {Segs: segs}}, "main.tsh")
		}, opts(400000))
		r.Absorb(fmt.Sprintf("H_C13_bytes(n=%d)", n), st, fmt.Sprintf("main file = %d fully symbolic bytes, both targets", n))
		flush()
	}
	// (b) single-byte holes and lexeme substitutions in the repository's own test programs
	seeds := RepoSeeds()
	type edit struct {
		seed  int
		start int
		end   int
	}
	var edits []edit
	for si, s := range seeds {
		if quick && len(s.Src) > 260 {
			continue // quick: short programs only (interpretation cost grows with source length)
		}
		for _, loc := range roughTok.FindAllStringIndex(s.Src, -1) {
			edits = append(edits, edit{si, loc[0], loc[1]})
		}
	}
	rng.Shuffle(len(edits), func(i, j int) { edits[i], edits[j] = edits[j], edits[i] })
	nHole, nLex := len(edits), len(edits)
	if quick {
		nHole, nLex = min(nHole, 100), min(nLex, 24)
	} else {
		nHole, nLex = min(nHole, 2000), min(nLex, 400)
	}
	holeEdits, lexEdits := edits[:nHole], edits[len(edits)-nLex:]
	edits = holeEdits
	st := r.Eng.Explore(func(c *gosym.Ctx) interface{} {
		var e edit
		var repl gosym.Str
		if c.Fork() {
			// the token is replaced by one symbolic byte (all 256 values)
			e = holeEdits[c.Choose("edit", 0, len(holeEdits)-1)]
			b := c.B.Var("hole", 8)
			c.S.Declare(b)
			repl = gosym.ByteStr(b)
		} else {
			e = lexEdits[c.Choose("edit", 0, len(lexEdits)-1)]
			lx := lexemeMenu[c.Choose("lexeme", 0, len(lexemeMenu)-1)]
			if c.Fork() {
				repl = gosym.Conc(lx) // replacement
			} else {
				repl = gosym.Conc(lx + " " + seeds[e.seed].Src[e.start:e.end]) // insertion in front
			}
		}
		src := seeds[e.seed].Src
		text := gosym.Concat(gosym.Conc(src[:e.start]), repl, gosym.Conc(src[e.end:]))
		return totalityPath(c, map[string]gosym.Str{"main.tsh": text}, "main.tsh")
	}, opts(2_000_000))
	r.Absorb("H_C13_token_edits", st, fmt.Sprintf("tokens of the %d programs embedded in /repo/tests (sampled by VERIF_SEED): %d positions replaced by one symbolic byte (all 256 values); %d positions x %d menu lexemes as replacement and as insertion", len(seeds), len(holeEdits), len(lexEdits), len(lexemeMenu)))
	flush()
	// (c) import graphs over three files, including cycles, self-imports and missing files
	st = r.Eng.Explore(func(c *gosym.Ctx) interface{} {
		names := []string{"main.tsh", "a.tsh", "b.tsh"}
		files := map[string]gosym.Str{}
		for i, n := range names {
			var imps []string
			cands := names
			if i == 0 {
				cands = append(append([]string{}, names...), "missing.tsh")
			}
			for j, m := range cands {
				if c.Fork() {
					imps = append(imps, fmt.Sprintf("\tm%d %q\n", j, m))
				}
			}
			body := fmt.Sprintf("func F%d() int {\n\treturn %d\n}\nprint(F%d())\n", i, i, i)
			if len(imps) > 0 {
				body = "import (\n" + strings.Join(imps, "") + ")\n" + body
			}
			files[n] = gosym.Conc(body)
		}
		o := totalityPath(c, files, "main.tsh")
		return o
	}, gosym.ExploreOpts{Workers: r.Workers, OnPath: onPath, TimeoutMS: 10000, Budget: gosym.Budget{MaxPaths: 100000, Steps: 1_000_000, Depth: 120}})
	r.Absorb("H_C13_import_graphs", st, "3 files, every file's import list is any subset of {main, a, b} (main also: a missing file): all 1024 graphs including cycles and self-imports")
	flush()
	// (d) statements in contexts: jump statements, bare expressions and value-less calls at every kind of position
	ctxMenu := []string{
		"%S%\n",
		"if gv == 1 {\n\t%S%\n}\n",
		"for i := 0; i < 2; i++ {\n\t%S%\n}\n",
		"switch gv {\ncase 1:\n\t%S%\ndefault:\n\t%S%\n}\n",
		"for gv < 3 {\n\tswitch gv {\n\tcase 1:\n\t\t%S%\n\t}\n\tgv++\n}\n",
		"func h() {\n\t%S%\n}\nh()\n",
		"func h() int {\n\tswitch gv {\n\tcase 1:\n\t\t%S%\n\t}\n\treturn 1\n}\nprint(h())\n",
		"func h() int {\n\tfor {\n\t\tif gv == 1 {\n\t\t\t%S%\n\t\t}\n\t\tbreak\n\t}\n\treturn 2\n}\nprint(h())\n",
		"for _, e := range gsl {\n\tswitch {\n\tcase e == 1:\n\t\t%S%\n\t}\n}\n",
		"if gv == 1 {\n} else if gv == 2 {\n\t%S%\n} else {\n\t%S%\n}\n",
	}
	stmtMenu := []string{"break", "continue", "return", "return 1", "return 1, 2", "gv", "1", "\"s\"", "(gv)", "void()", "print(void())", "panic(void())", "x := void()", "gv = void()",
		"@ls(void())", "switch void() {\n}", "len(gsl)", "gsl[0]", "gs[0]", "gs[0:1]", "copy(gsl, gsl)", "itoa(gv)", "exists(gs)", "read(gs)", "input()", "two()", "x := two()", "gv, gs = two()",
		"var y int", "y := []int{}", "func inner() {\n}", "import \"strings\"", "gv++", "gv += void()", "for {\n}", "if void() {\n}", "gsl[void()] = 1", "gsl[0] = void()", "write(gs, void())", "{", "}",
		"print(\"hello\"[1])", "x := \"abc\"[0:2]", "print(`raw`[1:])", "return \"xyz\"[2]", "gs = \"s\"[0]", "print([]int{1}[0])", "print(len(\"abc\"[1:]))", "print((gs)[0])", "print(itoa(1)[0])", "print(void()[0])",
		"Pa, Pb := two()", "Pc := 1", "var Pd string", "Pe, pf := 1, \"s\"", "var Pg, ph = two()", "Pi := []int{1}", "Pj := void()", "pk, Pl := gv, gs"}
	st = r.Eng.Explore(func(c *gosym.Ctx) interface{} {
		ctx := ctxMenu[c.Choose("context", 0, len(ctxMenu)-1)]
		stm := stmtMenu[c.Choose("statement", 0, len(stmtMenu)-1)]
		src := "gv := 1\ngs := \"g\"\ngsl := []int{1}\nfunc void() {\n\tprint(0)\n}\nfunc two() (int, string) {\n\treturn 1, \"t\"\n}\n" + strings.ReplaceAll(ctx, "%S%", stm)
		if c.Fork() {
			// the same text as an imported file: its statements pass through the import merge of the importing parser
			return totalityPath(c, map[string]gosym.Str{"main.tsh": gosym.Conc("import l \"lib.tsh\"\nprint(1)\n"), "lib.tsh": gosym.Conc(src)}, "main.tsh")
		}
		return totalityPath(c, map[string]gosym.Str{"main.tsh": gosym.Conc(src)}, "main.tsh")
	}, opts(100000))
	r.Absorb("H_C13_statements_in_contexts", st, fmt.Sprintf("%d statement forms (jumps, bare expressions, value-less calls as operands, declarations incl. public names) x %d contexts (top level, if/else, for, switch, switch in for, function, switch/for in function, range) x {main file, imported file}, both targets", len(stmtMenu), len(ctxMenu)))
	flush()
	// (e) call graphs whose number of call paths grows exponentially with their depth
	depths := []int{8, 24, 48}
	st = r.Eng.Explore(func(c *gosym.Ctx) interface{} {
		n := depths[c.Choose("depth", 0, len(depths)-1)]
		fan := c.Choose("fan", 1, 3)
		var sb strings.Builder
		for k := 0; k < n; k++ {
			sb.WriteString(fmt.Sprintf("func f%d() int {\n\treturn 1", k))
			for j := 1; j <= fan && k-j >= 0; j++ {
				sb.WriteString(fmt.Sprintf(" + f%d()", k-j))
			}
			sb.WriteString("\n}\n")
		}
		sb.WriteString(fmt.Sprintf("print(f%d())\n", n-1))
		return totalityPath(c, map[string]gosym.Str{"main.tsh": gosym.Conc(sb.String())}, "main.tsh")
	}, gosym.ExploreOpts{Workers: r.Workers, OnPath: onPath, TimeoutMS: 10000, Budget: gosym.Budget{MaxPaths: 1000, Steps: 60_000_000, Depth: 2000}})
	r.Absorb("H_C13_call_graph_depth", st, "chains of 8/24/48 functions where each calls its 1..3 predecessors (number of call paths up to 3^48), both targets; instruction budget 6e7 per path")
	flush()
	// paths that ran out of the instruction/depth budget are hang candidates: reproduce them natively
	hang := 0
	for _, s := range r.Stats {
		hang += s.Inconclusive["budget"] + s.Inconclusive["depth"]
	}
	sort.SliceStable(probeTot, func(i, j int) bool { return fmt.Sprint(probeTot[i].Files) < fmt.Sprint(probeTot[j].Files) })
	for i, pb := range probeTot {
		if i >= 80 {
			break
		}
		if confirmed, what := confirmTotality(r, pb); confirmed {
			pb.What = what
			pb.Class = "C13.native-probe:" + firstWords(what, 6)
			bads = append(bads, pb)
		}
	}
	flush()
	r.Cov("paths_decided_by_native_probe_only", min(len(probeTot), 80))
	sort.SliceStable(hangs, func(i, j int) bool { return len(fmt.Sprint(hangs[i].Files)) < len(fmt.Sprint(hangs[j].Files)) })
	for i, h := range hangs {
		if i >= 3 {
			break
		}
		r.handleTot(h)
	}
	r.Cov("states", okScript+okErr)
	r.Cov("accepted_paths", okScript)
	r.Cov("rejected_paths", okErr)
	r.Cov("hang_candidates", hang)
	keys := []string{}
	for _, e := range edits[:min(3, len(edits))] {
		keys = append(keys, fmt.Sprintf("%s: token %q", seeds[e.seed].Name, seeds[e.seed].Src[e.start:e.end]))
	}
	sort.Strings(keys)
	r.AddSample(map[string]interface{}{"harness": "H_C13_token_edits", "positions": keys})
	r.AddSample(map[string]interface{}{"harness": "H_C13_bytes", "input": "main.tsh = b0 b1 (two unconstrained symbolic bytes)"})
	r.Assume("termination is an instruction budget (5e6 interpreted SSA instructions, call depth 2000) per path; paths over budget are reproduced natively under a 15 s watchdog and a 4 GB memory limit")
	r.Assume("os/filepath/sha256 are modelled by a virtual file system; read errors other than 'file missing' are not injected")
	_ = sym.Sat
	return r.Finish("model_checking")
}

func firstWords(s string, n int) string {
	f := strings.Fields(s)
	if len(f) > n {
		f = f[:n]
	}
	return strings.Join(f, "_")
}
