package checks

import (
	"strings"

	"verif/engine/gosym"
	. "verif/engine/oracle"
	"verif/engine/sym"
)

const printableNoBackquote = " !\"#$%&'()*+,-./0123456789:;<=>?@ABCDEFGHIJKLMNOPQRSTUVWXYZ[\\]^_abcdefghijklmnopqrstuvwxyz{|}~"

// dataPaths: programs in which the string variable s (holding the value under test) travels along one path.
func dataPaths() []struct {
	name string
	body func(n int, d Expr) []Stmt
} {
	return []struct {
		name string
		body func(n int, d Expr) []Stmt
	}{
		{"print", func(n int, d Expr) []Stmt { return []Stmt{Pr(V("s"))} }},
		{"print-among-others", func(n int, d Expr) []Stmt { return []Stmt{Pr(S("a"), V("s"), N(1))} }},
		{"assign", func(n int, d Expr) []Stmt {
			return []Stmt{Def("t", V("s")), VarT("u", TString), Set("u", V("t")), Pr(V("u"))}
		}},
		{"concat", func(n int, d Expr) []Stmt { return []Stmt{Pr(Op("+", Op("+", S("<"), V("s")), S(">")))} }},
		{"compare", func(n int, d Expr) []Stmt {
			return []Stmt{Def("t", V("s")), Pr(Op("==", V("s"), V("t")), Op("!=", V("s"), S("a")), Op("==", V("s"), S("")))}
		}},
		{"argument", func(n int, d Expr) []Stmt {
			return []Stmt{Fn("f", []ParamDecl{Pm("p", TString), Pm("q", TInt)}, nil, Pr(V("p"), V("q"))), Do(Call("f", V("s"), N(7)))}
		}},
		{"return", func(n int, d Expr) []Stmt {
			return []Stmt{Fn("g", []ParamDecl{Pm("p", TString)}, []Type{TString, TInt}, Ret(V("p"), N(7))), DefN([]string{"a", "b"}, Call("g", V("s"))), Pr(V("a"), V("b"))}
		}},
		{"slice-literal", func(n int, d Expr) []Stmt {
			return []Stmt{Def("a", Strs(V("s"), S("z"))), Pr(Idx("a", N(0))), Pr(Len(V("a")))}
		}},
		{"slice-store", func(n int, d Expr) []Stmt {
			return []Stmt{Def("a", Strs()), SSet("a", N(1), V("s")), Pr(Idx("a", N(1))), Pr(Len(V("a")), Idx("a", N(0)))}
		}},
		{"slice-copy", func(n int, d Expr) []Stmt {
			return []Stmt{Def("a", Strs(V("s"))), Def("b", Strs()), Pr(CopyE{Dst: "b", Src: V("a")}), Pr(Idx("b", N(0)))}
		}},
		{"range", func(n int, d Expr) []Stmt {
			return []Stmt{ForRange{I: "i", V: "ch", X: V("s"), Body: []Stmt{Pr(V("i"), V("ch"))}}}
		}},
		{"subscript", func(n int, d Expr) []Stmt {
			return []Stmt{Pr(StrIdx{S: V("s"), I: N(0)}), Pr(Substr{S: V("s"), Lo: N(0), Hi: N(int64(n))}), Pr(Substr{S: V("s"), Lo: N(int64(n - 1))})}
		}},
		{"len", func(n int, d Expr) []Stmt { return []Stmt{Pr(Len(V("s")))} }},
		{"switch", func(n int, d Expr) []Stmt {
			return []Stmt{Switch{Tag: V("s"), Cases: []Case{{Val: S("a"), Body: []Stmt{Pr(S("A"))}}}, HasDef: true, DefPos: 1, Default: []Stmt{Pr(S("D"))}}}
		}},
		{"panic", func(n int, d Expr) []Stmt { return []Stmt{PanicS{X: V("s")}} }},
		{"write-read", func(n int, d Expr) []Stmt {
			return []Stmt{WriteS{Path: S("o.txt"), Data: V("s")}, Pr(ReadE{Path: S("o.txt")}), Pr(ExistsE{Path: S("o.txt")})}
		}},
		{"direct-argument", func(n int, d Expr) []Stmt {
			return []Stmt{Fn("f", []ParamDecl{Pm("p", TString), Pm("q", TString)}, nil, Pr(S("<"), V("p"), S("|"), V("q"), S(">"))), Do(Call("f", d, S("k"))), Do(Call("f", S("k"), d))}
		}},
		{"direct-print-and-concat", func(n int, d Expr) []Stmt { return []Stmt{Pr(d), Pr(Op("+", S("<"), d)), Pr(S("x"), d, S("y"))} }},
		{"direct-return-and-slice", func(n int, d Expr) []Stmt {
			return []Stmt{Fn("g", nil, []Type{TString}, Ret(d)), Pr(Call("g")), Def("a", Strs(S("z"), d)), Pr(Idx("a", N(1)))}
		}},
		{"direct-compare-and-switch", func(n int, d Expr) []Stmt {
			return []Stmt{Pr(Op("==", V("s"), d), Op("!=", d, S("q"))), Switch{Tag: V("s"), Cases: []Case{{Val: d, Body: []Stmt{Pr(S("same"))}}}, HasDef: true, DefPos: 1, Default: []Stmt{Pr(S("other"))}}}
		}},
		{"argument-beyond-ninth", func(n int, d Expr) []Stmt {
			// eleven string parameters: the value travels through the tenth and the eleventh positional parameter
			var ps []ParamDecl
			for i := 1; i <= 11; i++ {
				ps = append(ps, Pm("p"+string(rune('a'+i-1)), TString))
			}
			args := func(at int) []Expr {
				var as []Expr
				for i := 1; i <= 11; i++ {
					if i == at {
						as = append(as, V("s"))
					} else {
						as = append(as, S("a"+string(rune('a'+i-1))))
					}
				}
				return as
			}
			return []Stmt{Fn("w", ps, nil, Pr(S("<"), V("pa"), V("pj"), S("|"), V("pk"), S(">"))), Do(Call("w", args(10)...)), Do(Call("w", args(11)...)), Do(Call("w", args(1)...))}
		}},
		{"in-function-local", func(n int, d Expr) []Stmt {
			return []Stmt{Fn("h", []ParamDecl{Pm("p", TString)}, []Type{TString}, Def("l", Op("+", V("p"), S("!"))), Def("a", Strs(V("l"))), Ret(Idx("a", N(0)))), Pr(Call("h", V("s")))}
		}},
	}
}

func c08Shapes(quick bool) []Shape {
	var sh []Shape
	maxN := 2
	if !quick {
		maxN = 4
	}
	for _, dp := range dataPaths() {
		dp := dp
		// origin 1: literal in the source (raw string literal, every printable character except the backquote, newline, tab)
		sh = append(sh, Shape{Name: dp.name + ".literal", Prog: func(c *gosym.Ctx) *Program {
			n := c.Choose("len", 1, maxN)
			v := SymStr(c, "v", n, printableNoBackquote+"\n\t")
			dexpr := Expr(StrLit{Val: v, Raw: true})
			return Prog(append([]Stmt{Def("s", StrLit{Val: v, Raw: true})}, dp.body(n, dexpr)...)...)
		}})
		// origin 2: read from a file at run time
		sh = append(sh, Shape{Name: dp.name + ".from-file",
			Prog: func(c *gosym.Ctx) *Program {
				n := c.Choose("len", 1, maxN)
				v := SymStr(c, "v", n, printableNoBackquote+"`\t")
				c.Data["v"] = v
				c.Data["n"] = n
				dexpr := V("s")
				return Prog(append([]Stmt{Def("s", ReadE{Path: S("in.txt")})}, dp.body(n, dexpr)...)...)
			},
			Setup: func(c *gosym.Ctx, in *Interp, shl *Shell) {
				v := c.Data["v"].(gosym.Str)
				in.Files["in.txt"] = gosym.Concat(v, gosym.Conc("\n"))
				shl.Files["in.txt"] = gosym.Concat(v, gosym.Conc("\n"))
			},
			Concretize: func(o *eqOutcome, m map[string]uint64) {
				o.Pre = map[string]string{"in.txt": o.Data + "\n"}
				if o.ExpFiles != nil {
					if _, ok := o.ExpFiles["in.txt"]; !ok {
						o.ExpFiles["in.txt"] = o.Data + "\n"
					}
				}
			},
		})
	}
	// origin 3: standard input
	for _, dp := range dataPaths()[:6] {
		dp := dp
		sh = append(sh, Shape{Name: dp.name + ".from-stdin",
			Prog: func(c *gosym.Ctx) *Program {
				n := c.Choose("len", 1, maxN)
				v := SymStr(c, "v", n, printableNoBackquote+"`\t")
				c.Data["v"] = v
				dexpr := V("s")
				return Prog(append([]Stmt{Def("s", InputE{})}, dp.body(n, dexpr)...)...)
			},
			Setup: func(c *gosym.Ctx, in *Interp, shl *Shell) {
				v := c.Data["v"].(gosym.Str)
				in.Stdin = []gosym.Str{v}
				shl.Stdin = []gosym.Str{v}
			},
			Concretize: func(o *eqOutcome, m map[string]uint64) { o.Stdin = o.Data + "\n" },
		})
	}
	// origin 4: the standard output of a command (captured by a program call)
	const emitScript = "#!/bin/bash\ncat emit.dat\n"
	for _, dp := range dataPaths()[:8] {
		dp := dp
		sh = append(sh, Shape{Name: dp.name + ".from-command",
			Prog: func(c *gosym.Ctx) *Program {
				n := c.Choose("len", 1, maxN)
				v := SymStr(c, "v", n, printableNoBackquote+"`\t")
				c.Data["v"] = v
				dexpr := V("s")
				return Prog(append([]Stmt{DefN([]string{"s", "se", "sc"}, AppCallE{Calls: []AppOne{{Name: "./emit"}}})}, dp.body(n, dexpr)...)...)
			},
			Pre: map[string]string{"emit": emitScript},
			Setup: func(c *gosym.Ctx, in *Interp, shl *Shell) {
				v := c.Data["v"].(gosym.Str)
				line := gosym.Concat(v, gosym.Conc("\n"))
				in.Files["emit.dat"] = line
				shl.Files["emit.dat"] = line
				shl.Stub = func(sh *Shell, argv []gosym.Str, stdin gosym.Str) (gosym.Str, gosym.Value) { return line, int64(0) }
				in.AppStub = func(in *Interp, name string, args []gosym.Str, stdin gosym.Str) (gosym.Str, *sym.Term) {
					return line, c.B.Int(0, 64)
				}
			},
			Concretize: func(o *eqOutcome, m map[string]uint64) {
				o.Pre = map[string]string{"emit": emitScript, "emit.dat": o.Data + "\n"}
				if o.ExpFiles != nil {
					o.ExpFiles["emit.dat"] = o.Data + "\n"
					o.ExpFiles["emit"] = emitScript
				}
			},
		})
	}
	return sh
}

func CheckC08(r *Run) int {
	quick := r.Tier == "quick"
	rc := checkShapesOpt(r, c08Shapes(quick), eqOpts{Target: "bash", CheckHazards: true, CompareFiles: true, ByCharClass: true}, 4000,
		"string value = 1..2 (quick) / 1..4 (thorough) symbolic bytes over printable ASCII + newline/tab (the backquote only for run-time origins, since literals are rendered as raw strings); counterexamples are enumerated per character class of the value and each is confirmed on the real bash",
		"known findings are keyed by (data path, origin, character class); a class not listed is a violation")
	return rc
}

func checkShapesOpt(r *Run, shapes []Shape, o eqOpts, maxPaths int, assumptions ...string) int {
	return checkShapes(r, shapes, o, maxPaths, assumptions...)
}

var _ = strings.Contains
