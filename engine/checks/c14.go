package checks

import (
	"fmt"
	"os"
	"strings"
	"time"

	"verif/engine/gosym"
	"verif/engine/sym"
)

type pureProg struct {
	name  string
	files map[string]string // relative path -> source (markers allowed)
	main  string
	dir   string // directory name below the base (default: name); two programs with the same dir model an edit in place
}

func c14Pool() []pureProg {
	m := func(k int) string { return fmt.Sprint(gosym.MarkerBase + k) }
	return []pureProg{
		{name: "scalar", main: "main.tsh", files: map[string]string{"main.tsh": "x := " + m(0) + "\ny := 2\nx, y = y, x\nfor i := 0; i < 2; i++ {\n\tif x < " + m(1) + " {\n\t\tprint(x + i)\n\t} else if x == 3 {\n\t\tcontinue\n\t} else {\n\t\tbreak\n\t}\n}\ns := []int{" + m(2) + "}\ns[2] = x\nprint(len(s), \"v\")\n" +
			"switch x {\ncase 1:\n\tprint(\"one\")\ndefault:\n\tprint(\"other\")\n}\nfor k, v := range s {\n\tprint(k, v)\n}\nfor x > 100 {\n\tx--\n}\nt := \"ab\" + itoa(x)\nt += \"c\"\nprint(t[0], t[1:2], len(t), t == \"q\")\nvar u bool\nu = !u && (x >= y || x != y)\n" +
			"write(\"f.txt\", t)\nwrite(\"f.txt\", t, true)\nprint(exists(\"f.txt\"), read(\"f.txt\"), u)\nin := input(\"p \")\n@ls(\"-l\")\no, e, c := @ls(in) | @grep(\"x\")\nprint(o, e, c)\n" +
			"func swap(a int, b int) (int, int) {\n\ta, b = b, a\n\treturn a, b\n}\nx, y = swap(x, y)\np, q := swap(y, x)\nprint(p, q)\nif x == 12345 {\n\tpanic(\"boom\")\n}\n"}},
		{name: "two-imports", main: "main.tsh", files: map[string]string{
			"main.tsh":  "import (\n\th \"lib/h.tsh\"\n\tk \"lib/k.tsh\"\n)\nprint(h.Hello(" + m(0) + "), k.Twice(" + m(1) + "))\n",
			"lib/h.tsh": "func helper(a int) int {\n\treturn a + 1\n}\nfunc Hello(a int) int {\n\treturn helper(a)\n}\nfunc Other() int {\n\treturn 3\n}\nprint(\"lib h loaded\", helper(1))\n",
			"lib/k.tsh": "func Twice(a int) int {\n\treturn a * 2\n}\nfunc Thrice(a int) int {\n\treturn a * 3\n}\n",
		}},
		// the same tree as two-imports after an edit of one library in place (same paths, other bytes)
		{name: "two-imports-edited", dir: "two-imports", main: "main.tsh", files: map[string]string{
			"main.tsh":  "import (\n\th \"lib/h.tsh\"\n\tk \"lib/k.tsh\"\n)\nprint(h.Hello(" + m(0) + "), k.Twice(" + m(1) + "))\n",
			"lib/h.tsh": "func helper(a int) int {\n\treturn a + 100\n}\nfunc Hello(a int) int {\n\treturn helper(a) - 1\n}\nprint(\"lib h edited\", helper(2))\n",
			"lib/k.tsh": "func Twice(a int) int {\n\treturn a * 2\n}\nfunc Thrice(a int) int {\n\treturn a * 3\n}\n",
		}},
		{name: "helpers", main: "main.tsh", files: map[string]string{"main.tsh": "a := []int{" + m(0) + "}\na[2] = 5\nb := []int{}\nn := copy(b, a)\ns := \"hello\"\nprint(n, len(a), s[1:3], s[0])\nfunc unused() int {\n\treturn 1\n}\nfunc a2(p int) int {\n\treturn p\n}\nprint(a2(" + m(1) + "))\n"}},
		{name: "same-names", main: "main.tsh", files: map[string]string{"main.tsh": "func a(p int) int {\n\treturn p + 1\n}\nfunc unused() int {\n\treturn a(1)\n}\nfunc a2(p int) int {\n\treturn p\n}\nprint(unused(), " + m(0) + ")\n"}},
		// transpilations that fail at different stages (after the converter has already emitted code / in the parser): a
		// failed call must leave nothing behind that a later call on the same object can see
		{name: "fails-in-converter", main: "main.tsh", files: map[string]string{"main.tsh": "a := \"x\"\nb := \"y\"\nc := " + m(0) + " + 2\nd := c * 3 > 4 && true\nfunc f(p int) int {\n\treturn p - 1\n}\nprint(f(c), d)\nif a < b {\n\tprint(a)\n}\nprint(c)\n"}},
		{name: "fails-in-parser", main: "main.tsh", files: map[string]string{"main.tsh": "c := " + m(0) + " + 2\nfunc g(p int) int {\n\treturn p * 2\n}\nfor i := 0; i < 2; i++ {\n\tif i == 1 {\n\t\tprint(g(undefinedName))\n\t}\n}\n"}},
		{name: "std-and-local", main: "main.tsh", files: map[string]string{
			"main.tsh": "import (\n\t\"strings\"\n\tu \"u.tsh\"\n)\nprint(strings.Contains(\"abc\", \"b\"), u.Id(" + m(0) + "))\n",
			"u.tsh":    "print(\"u loaded\")\nfunc Id(a int) int {\n\treturn a\n}\n",
		}},
	}
}

type pureOutcome struct {
	Kind    string
	What    string
	History []string
	Dir     string
	Perm    string
	Lits    map[string]int64
}

func permutations(n int) [][]int {
	if n == 1 {
		return [][]int{{0}}
	}
	var out [][]int
	for _, p := range permutations(n - 1) {
		for i := 0; i <= len(p); i++ {
			q := append(append(append([]int{}, p[:i]...), n-1), p[i:]...)
			out = append(out, q)
		}
	}
	return out
}

func CheckC14(r *Run) int {
	nat, err := BuildNative()
	if err != nil {
		fmt.Println("cannot build the repository natively:", err)
		return 2
	}
	r.Native = nat
	pool := c14Pool()
	quick := r.Tier == "quick"
	maxK := 2
	if !quick {
		maxK = 3
	}
	dirs := []string{"/work", "/srv/my project/v1.2", "rel/sub"}
	if quick {
		dirs = dirs[1:]
	}
	targets := []string{"bash", "batch"}
	mount := func(c *gosym.Ctx, dir string, p pureProg) string {
		sub := p.name
		if p.dir != "" {
			sub = p.dir
		}
		for f, src := range p.files {
			c.FS.AddFile(dir+"/"+sub+"/"+f, gosym.Conc(src))
		}
		return dir + "/" + sub + "/" + p.main
	}
	var bads []pureOutcome
	okPaths := 0
	calls := 0
	st := r.Eng.Explore(func(c *gosym.Ctx) interface{} {
		mountStd(c)
		dir := dirs[c.Choose("dir", 0, len(dirs)-1)]
		k := c.Choose("k", 1, maxK)
		type call struct {
			p      int
			target string
		}
		var hist []call
		var hs []string
		for i := 0; i < k; i++ {
			np := len(pool)
			if k >= 3 {
				np = 3 // histories of three calls: the first three programs (all statement forms, a tree with imports, the same tree edited in place)
			}
			cl := call{c.Choose("prog", 0, np-1), targets[c.Choose("target", 0, 1)]}
			hist = append(hist, cl)
			hs = append(hs, pool[cl.p].name+"->"+cl.target)
		}
		// the map-iteration order of every range over a map is a nondeterministic permutation
		permDesc := []string{}
		permute := c.Fork()
		if permute {
			c.MapPerm = func(c *gosym.Ctx, n int) []int {
				var ps [][]int
				if n <= 3 {
					ps = permutations(n)
				} else {
					id := make([]int, n)
					rev := make([]int, n)
					rot := make([]int, n)
					for i := range id {
						id[i], rev[i], rot[i] = i, n-1-i, (i+1)%n
					}
					ps = [][]int{id, rev, rot}
				}
				p := ps[c.Choose("perm", 0, len(ps)-1)]
				permDesc = append(permDesc, fmt.Sprint(p))
				return p
			}
		}
		// how the process was started and where: nothing of it may show in the output
		// (paired with the directory choice instead of multiplied with it)
		argv0, cwd := "tsh", "/"
		switch dir {
		case "/work":
			argv0, cwd = c.FS.Exe, "/work"
		case "rel/sub":
			argv0, cwd = "./bin/tsh", "/work"
		}
		c.Args = []gosym.Str{gosym.Conc(argv0), gosym.Conc("-x")}
		c.FS.Cwd = cwd
		// history on one transpiler object, fresh converter per call
		tp := c.NewTranspiler()
		type res struct {
			script gosym.Str
			err    bool
			panic  string
		}
		var got []res
		for _, cl := range hist {
			path := mount(c, dir, pool[cl.p])
			var rr res
			gp := c.Try(func() {
				s, _, he := c.TranspileWith(tp, path, c.NewConverter(cl.target))
				rr = res{script: s, err: he}
			})
			if gp != nil {
				rr.panic = gp.Msg
			}
			got = append(got, rr)
		}
		// the same calls alone: fresh transpiler, canonical map order, canonical location and start
		c.MapPerm = nil
		c.Args = []gosym.Str{gosym.Conc(c.FS.Exe)}
		c.FS.Cwd = "/work"
		B := c.B
		for i, cl := range hist {
			c.ResetPackageState() // the reference call runs as in a fresh process
			path := mount(c, "/canon", pool[cl.p])
			var want res
			gp := c.Try(func() {
				s, _, he := c.Transpile(path, cl.target)
				want = res{script: s, err: he}
			})
			if gp != nil {
				want.panic = gp.Msg
			}
			what := ""
			var cond *sym.Term
			switch {
			case got[i].panic != want.panic:
				what = fmt.Sprintf("call %d panics differently: %q vs alone %q", i, got[i].panic, want.panic)
			case got[i].err != want.err:
				what = fmt.Sprintf("call %d: error=%v, alone error=%v", i, got[i].err, want.err)
			default:
				eq := c.StrEq(got[i].script, want.script)
				if !eq.IsTrue() {
					cond = B.Not(eq)
					what = fmt.Sprintf("call %d returns different text than the same call alone", i)
				}
			}
			if what != "" {
				var res sym.Result
				var m map[string]uint64
				if cond == nil {
					res, m = c.Sat()
				} else {
					res, m = c.Sat(cond)
				}
				if res == sym.Sat {
					lits := map[string]int64{}
					for k, v := range m {
						if strings.HasPrefix(k, "lit") {
							lits[k] = int64(v)
						}
					}
					return pureOutcome{Kind: "bad", What: what, History: hs, Dir: dir, Perm: strings.Join(permDesc, " "), Lits: lits}
				}
			}
		}
		return pureOutcome{Kind: "ok", History: hs}
	}, gosym.ExploreOpts{Workers: r.Workers, TimeoutMS: 10000, Budget: gosym.Budget{MaxPaths: 300000, Steps: 60_000_000}, OnPath: func(pr *gosym.PathResult) {
		o, ok := pr.Ret.(pureOutcome)
		if !ok {
			return
		}
		calls += len(o.History)
		if o.Kind == "ok" {
			okPaths++
		} else if len(bads) < 20 {
			bads = append(bads, o)
		}
	}})
	r.Absorb("H_C14_histories", st, fmt.Sprintf("histories of 1..%d Transpile calls on one transpiler object over %d programs x 2 targets (histories of three calls: the first 3 programs), 3 directory spellings, every permutation of every map range (<=3 entries; identity/reverse/rotation above), integer literals symbolic", maxK, len(pool)))
	// native confirmation: repetition, relocation and fresh processes on the real build
	validated := 0
	for _, p := range pool {
		files := map[string]string{}
		for f, src := range p.files {
			files[f] = concretizeMarkers(src)
		}
		var reqs []DrvReq
		for _, dir := range []string{"", nat.Dir + "/reloc one/x.y"} {
			reqs = append(reqs, DrvReq{Op: "history", Files: files, Dir: dir, Calls: []DrvCall{{p.main, "bash"}, {p.main, "batch"}, {p.main, "bash"}, {p.main, "batch"}}})
		}
		var outs [][]DrvRes
		// fresh processes (different map seeds) under different environments: search path with another bash first,
		// no search path at all, other home directory, locale and time zone
		fake := nat.Dir + "/fakebin"
		os.MkdirAll(fake, 0o777)
		os.WriteFile(fake+"/bash", []byte("#!/bin/sh\nexit 0\n"), 0o777)
		os.WriteFile(fake+"/cmd", []byte("#!/bin/sh\nexit 0\n"), 0o777)
		envs := [][]string{nil, {"PATH=" + fake + ":/usr/local/bin:/usr/bin:/bin", "HOME=/nonexistent", "LANG=tr_TR.UTF-8", "LC_ALL=tr_TR.UTF-8", "TZ=Asia/Tokyo", "USER=other", "SHELL=/bin/sh", "TMPDIR=" + nat.Dir},
			{"PATH=", "HOME=/", "LANG=C"}}
		for rep := 0; rep < len(envs); rep++ {
			res, err := nat.RunDrvEnv(reqs, 30*time.Second, envs[rep])
			if err != nil {
				fmt.Println("native history run failed:", err)
				continue
			}
			for _, x := range res {
				outs = append(outs, x.Scripts)
			}
		}
		for _, o := range outs {
			validated++
			if len(o) != 4 || len(outs[0]) != 4 {
				continue
			}
			for i := range o {
				if o[i].Script != outs[0][i%2].Script || o[i].HasErr != outs[0][i%2].HasErr {
					bads = append(bads, pureOutcome{Kind: "bad", What: "native: repeated / relocated / fresh-process / other-environment run of program " + p.name + " returned different text", History: []string{p.name}})
				}
			}
		}
	}
	seen := map[string]bool{}
	for _, b := range bads {
		class := "C14." + strings.Join(b.History, ",")
		if len(class) > 80 {
			class = class[:80]
		}
		if seen[class] {
			continue
		}
		seen[class] = true
		if r.IsKnown(class) {
			r.HitKnown(class, b.What)
			continue
		}
		dir := r.WriteReplay(class, map[string]string{"finding.txt": fmt.Sprintf("property C14\nhistory %v\ndirectory %s\nmap permutations %s\nliterals %v\n%s\n", b.History, b.Dir, b.Perm, b.Lits, b.What)})
		r.AddViolation(Violation{Class: class, What: fmt.Sprintf("%s; history %v dir %q perms %s", b.What, b.History, b.Dir, b.Perm), Replay: dir})
	}
	r.Cov("states", okPaths)
	r.Cov("transitions", calls)
	r.Cov("traces_validated_against_impl", validated)
	r.AddSample(map[string]interface{}{"history": []string{"two-imports->bash", "scalar->batch"}, "dir": "/srv/my project/v1.2", "map_order": "permuted"})
	r.Assume("the only process-level nondeterminism the code can observe is map iteration order (no time, environment or randomness intrinsic is reachable; reaching one would end the path as unsupported)")
	r.Assume("sha256 is computed concretely on file content; os/filepath are modelled by a virtual file system")
	return r.Finish("model_checking")
}

func concretizeMarkers(src string) string {
	for k := 0; k < 16; k++ {
		src = strings.ReplaceAll(src, fmt.Sprint(gosym.MarkerBase+k), fmt.Sprint(3+k))
	}
	return src
}
