package checks

import (
	"go/ast"
	"go/parser"
	"go/token"
	"path/filepath"
	"sort"
	"strconv"
	"strings"
)

type Seed struct {
	Name string
	Src  string
}

// RepoSeeds extracts the TypeShell programs embedded in /repo/tests/*.go (second
// argument of transpilerFunc(t, `...`, ...)).
func RepoSeeds() []Seed {
	files, _ := filepath.Glob(filepath.Join(RepoDir, "tests", "*.go"))
	sort.Strings(files)
	var out []Seed
	fset := token.NewFileSet()
	for _, f := range files {
		if strings.HasSuffix(f, "_test.go") {
			continue
		}
		af, err := parser.ParseFile(fset, f, nil, 0)
		if err != nil {
			continue
		}
		for _, d := range af.Decls {
			fd, ok := d.(*ast.FuncDecl)
			if !ok || fd.Body == nil {
				continue
			}
			n := 0
			ast.Inspect(fd.Body, func(x ast.Node) bool {
				ce, ok := x.(*ast.CallExpr)
				if !ok || len(ce.Args) < 2 {
					return true
				}
				id, ok := ce.Fun.(*ast.Ident)
				if !ok || id.Name != "transpilerFunc" {
					return true
				}
				bl, ok := ce.Args[1].(*ast.BasicLit)
				if !ok || bl.Kind != token.STRING {
					return true
				}
				s, err := strconv.Unquote(bl.Value)
				if err != nil {
					return true
				}
				name := fd.Name.Name
				if n > 0 {
					name += "#" + strconv.Itoa(n)
				}
				n++
				out = append(out, Seed{Name: name, Src: s})
				return true
			})
		}
	}
	return out
}
