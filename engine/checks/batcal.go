package checks

import (
	"fmt"
	"os"
	"path/filepath"
	"sort"
	"strings"
	"time"

	"verif/engine/gosym"
	"verif/engine/oracle"
)

// runBatSemConcrete runs a concrete batch script through BatSem (one path).
func runBatSemConcrete(eng *gosym.Engine, script string, stdin []string, files map[string]string) (out string, status int64, errOut string, unsupported string) {
	eng.Explore(func(c *gosym.Ctx) interface{} {
		defer func() {
			if r := recover(); r != nil {
				if u, ok := r.(oracle.BatUnsupported); ok {
					unsupported = u.Msg
					return
				}
				panic(r)
			}
		}()
		sh := oracle.NewBatShell(c)
		for _, l := range stdin {
			sh.Stdin = append(sh.Stdin, gosym.Conc(l))
		}
		for k, v := range files {
			sh.Files[k] = gosym.Conc(v)
		}
		o, st := sh.RunScript(gosym.Conc(script))
		out, _ = o.Go()
		if s, ok := st.(int64); ok {
			status = s
		}
		e, _ := gosym.Concat(sh.Err...).Go()
		errOut = e
		return nil
	}, gosym.ExploreOpts{Workers: 1})
	return
}

// CalibrateBat checks BatSem against the expected behaviour of the repository's own test
// programs. There is no cmd.exe here; the test programs have the same expected output
// on both targets, so the output and exit status of the Bash script under the real
// /bin/bash are the reference for the Batch script under BatSem.
// With BATCAL_DUMP=<dir> the scripts of both targets are written to <dir>.
func CalibrateBat(r *Run) (agree, disagree, skipped int, notes []string) {
	seeds := RepoSeeds()
	if extra := os.Getenv("BATCAL_EXTRA"); extra != "" {
		// additional programs (*.tsh in this directory) for experiments
		names, _ := filepath.Glob(filepath.Join(extra, "*.tsh"))
		sort.Strings(names)
		for _, n := range names {
			if b, err := os.ReadFile(n); err == nil {
				seeds = append(seeds, Seed{Name: "extra:" + filepath.Base(n), Src: string(b)})
			}
		}
	}
	verbose := os.Getenv("BATCAL_VERBOSE") != ""
	var reqs []DrvReq
	for _, s := range seeds {
		files := map[string]string{"main.tsh": s.Src}
		reqs = append(reqs, DrvReq{Op: "transpile", Files: files, Main: "main.tsh", Target: "bash"})
		reqs = append(reqs, DrvReq{Op: "transpile", Files: files, Main: "main.tsh", Target: "batch"})
	}
	res, err := r.Native.RunDrv(reqs, 120*time.Second)
	if err != nil {
		return 0, 0, len(seeds), []string{"driver failed: " + err.Error()}
	}
	dump := os.Getenv("BATCAL_DUMP")
	if dump != "" {
		os.MkdirAll(dump, 0o777)
	}
	newlineOnly, rejected := 0, 0
	for i, s := range seeds {
		sh, bat := res[2*i], res[2*i+1]
		if dump != "" {
			base := filepath.Join(dump, strings.ReplaceAll(s.Name, "#", "_"))
			os.WriteFile(base+".tsh", []byte(s.Src), 0o666)
			os.WriteFile(base+".sh", []byte(sh.Script), 0o666)
			os.WriteFile(base+".bat", []byte(bat.Script), 0o666)
		}
		if sh.HasErr || sh.Panic != "" || bat.HasErr || bat.Panic != "" {
			skipped++
			if sh.HasErr && bat.HasErr {
				rejected++
			}
			if sh.HasErr != bat.HasErr || (sh.Panic != "") != (bat.Panic != "") {
				notes = append(notes, fmt.Sprintf("%s: skipped, the targets disagree about transpilation (bash err=%q panic=%q, batch err=%q panic=%q)", s.Name, sh.Err, sh.Panic, bat.Err, bat.Panic))
			}
			continue
		}
		if strings.Contains(sh.Script, "\nread ") || strings.Contains(s.Src, "@") {
			skipped++
			notes = append(notes, fmt.Sprintf("%s: skipped, uses input() or a program call", s.Name))
			continue
		}
		real := RunBash(sh.Script, "", nil, 10*time.Second)
		if real.Timeout {
			skipped++
			notes = append(notes, fmt.Sprintf("%s: skipped, the Bash script timed out", s.Name))
			continue
		}
		out, st, _, un := runBatSemConcrete(r.Eng, bat.Script, nil, nil)
		if un != "" {
			skipped++
			notes = append(notes, fmt.Sprintf("%s: BatSem unsupported: %s", s.Name, un))
			continue
		}
		if verbose {
			notes = append(notes, fmt.Sprintf("%s: expected (%q,%d) BatSem (%q,%d)", s.Name, real.Stdout, real.Code, out, st))
		}
		switch {
		case out == real.Stdout && int(st) == real.Code:
			agree++
		case strings.TrimRight(out, "\n") == strings.TrimRight(real.Stdout, "\n") && int(st) == real.Code:
			// the repository's test helper trims the output, so this difference is invisible to its tests
			agree++
			newlineOnly++
			notes = append(notes, fmt.Sprintf("%s: trailing-newline difference only: expected %q, BatSem %q", s.Name, real.Stdout, out))
		default:
			disagree++
			notes = append(notes, fmt.Sprintf("%s: expected (%q,%d) vs BatSem (%q,%d)", s.Name, real.Stdout, real.Code, out, st))
		}
	}
	if rejected > 0 {
		notes = append(notes, fmt.Sprintf("%d seeds skipped because the transpiler rejects them for both targets (negative tests)", rejected))
	}
	if newlineOnly > 0 {
		notes = append(notes, fmt.Sprintf("%d of the agreeing seeds differ only in trailing newlines", newlineOnly))
	}
	return
}
