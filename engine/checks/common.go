// Package checks contains one driver per property: the harness run by the
// symbolic executor, the bounds, the known-finding classes, native replay and
// the evidence writer.
package checks

import (
	"bufio"
	"bytes"
	"encoding/json"
	"fmt"
	"os"
	"os/exec"
	"path/filepath"
	"regexp"
	"sort"
	"strconv"
	"strings"
	"sync"
	"time"

	"verif/engine/gosym"
	"verif/engine/sym"
)

const VerifDir = "/verif"

// RepoDir is the tree under check and OutDir the place of evidence and replays. The registered commands use the
// defaults; VERIF_REPO / VERIF_OUT exist for the developer tools that evaluate a seeded change in a scratch worktree.
var (
	RepoDir = envOr("VERIF_REPO", "/repo")
	OutDir  = envOr("VERIF_OUT", VerifDir)
)

func envOr(k, d string) string {
	if v := os.Getenv(k); v != "" {
		return v
	}
	return d
}

var GoEnv = append(os.Environ(), "GOFLAGS=-mod=mod", "GOPROXY=off", "GOSUMDB=off", "GOTOOLCHAIN=local")

// ---------------------------------------------------------------- run context

type Run struct {
	ID     string
	Tier   string
	Seed   int64
	Eng    *gosym.Engine
	Start  time.Time
	Native *Native

	mu         sync.Mutex
	Known      []KnownFinding
	knownHit   map[string]string // class -> witness
	violations []Violation
	Ev         Evidence
	Stats      []*gosym.ExploreStats
	spurious   int
	modelGaps  int
	Workers    int
	PostShapes func() // extra work of a shape-based check before the evidence is written
}

type Violation struct {
	Class   string
	What    string
	Replay  string
	Witness interface{}
}

type KnownFinding struct {
	Kind     string // "known" or "fixed"
	Property string
	Class    string
	What     string
	Raw      string
}

var kfRe = regexp.MustCompile(`^(known|fixed):\s+property=(C\d+)\s+(?:class=(\S+)\s+)?(.*)$`)

func LoadKnown() []KnownFinding {
	f, err := os.Open(filepath.Join(VerifDir, "KNOWN_FINDINGS.txt"))
	if err != nil {
		return nil
	}
	defer f.Close()
	var out []KnownFinding
	sc := bufio.NewScanner(f)
	sc.Buffer(make([]byte, 1<<20), 1<<20)
	for sc.Scan() {
		l := strings.TrimSpace(sc.Text())
		if l == "" || strings.HasPrefix(l, "#") {
			continue
		}
		m := kfRe.FindStringSubmatch(l)
		if m == nil {
			continue
		}
		out = append(out, KnownFinding{Kind: m[1], Property: m[2], Class: m[3], What: m[4], Raw: l})
	}
	return out
}

// IsKnown: is this class listed as a known (not fixed) finding of the property?
func (r *Run) IsKnown(class string) bool {
	for _, k := range r.Known {
		if k.Kind == "known" && k.Property == r.ID && k.Class == class {
			return true
		}
	}
	return false
}

// HitKnown records that a listed finding was observed (printed once per class at the end).
func (r *Run) HitKnown(class, witness string) {
	r.mu.Lock()
	defer r.mu.Unlock()
	if _, ok := r.knownHit[class]; !ok {
		r.knownHit[class] = witness
	}
}

func (r *Run) AddViolation(v Violation) {
	r.mu.Lock()
	defer r.mu.Unlock()
	for _, o := range r.violations {
		if o.Class == v.Class {
			return // one report per class
		}
	}
	r.violations = append(r.violations, v)
}

func (r *Run) Spurious(what string) {
	r.mu.Lock()
	r.spurious++
	n := r.spurious
	r.mu.Unlock()
	if n <= 10 {
		fmt.Printf("SPURIOUS: property=%s %s\n", r.ID, what)
	}
}

func (r *Run) ModelGap(what string) {
	r.mu.Lock()
	r.modelGaps++
	n := r.modelGaps
	r.mu.Unlock()
	if n <= 10 {
		fmt.Printf("MODEL-GAP: property=%s %s\n", r.ID, what)
	}
}

// WriteReplay stores a counterexample under /verif/replays/<id>/<n>/ and returns the path.
func (r *Run) WriteReplay(class string, files map[string]string) string {
	r.mu.Lock()
	defer r.mu.Unlock()
	safe := regexp.MustCompile(`[^A-Za-z0-9_.-]`).ReplaceAllString(class, "_")
	dir := filepath.Join(OutDir, "replays", r.ID, safe)
	os.MkdirAll(dir, 0o777)
	for n, c := range files {
		os.MkdirAll(filepath.Dir(filepath.Join(dir, n)), 0o777)
		os.WriteFile(filepath.Join(dir, n), []byte(c), 0o666)
	}
	return dir
}

// ---------------------------------------------------------------- evidence

type Evidence struct {
	PropertyID  string                 `json:"property_id"`
	Tier        string                 `json:"tier"`
	Seed        int64                  `json:"seed"`
	Level       string                 `json:"level"`
	Coverage    map[string]interface{} `json:"coverage"`
	Assumptions []string               `json:"assumptions"`
	WallS       float64                `json:"wall_s"`
	Violations  int                    `json:"violations"`
}

func (r *Run) Cov(k string, v interface{}) {
	r.mu.Lock()
	defer r.mu.Unlock()
	r.Ev.Coverage[k] = v
}

func (r *Run) AddCount(k string, n int) {
	r.mu.Lock()
	defer r.mu.Unlock()
	cur, _ := r.Ev.Coverage[k].(int)
	r.Ev.Coverage[k] = cur + n
}

func (r *Run) AddSample(s interface{}) {
	r.mu.Lock()
	defer r.mu.Unlock()
	l, _ := r.Ev.Coverage["samples"].([]interface{})
	if len(l) < 12 {
		r.Ev.Coverage["samples"] = append(l, s)
	}
}

func (r *Run) Assume(s string) {
	r.mu.Lock()
	defer r.mu.Unlock()
	for _, a := range r.Ev.Assumptions {
		if a == s {
			return
		}
	}
	r.Ev.Assumptions = append(r.Ev.Assumptions, s)
}

// Absorb merges exploration statistics into the evidence.
func (r *Run) Absorb(name string, st *gosym.ExploreStats, bounds string) {
	r.mu.Lock()
	defer r.mu.Unlock()
	r.Stats = append(r.Stats, st)
	if os.Getenv("VERIF_PROGRESS") != "" {
		fmt.Printf("[%6.1fs] %s: paths=%d completed=%d inconclusive=%v queries=%d wall=%.1fs\n", time.Since(r.Start).Seconds(), name, st.Paths, st.Completed, st.Inconclusive, st.Solver.Queries, st.Wall)
	}
	if n := st.Inconclusive["engine-error"]; n > 0 {
		// a defect of the checking machinery itself (never a verdict about the code under check): make it visible
		d := ""
		if len(st.Details) > 0 {
			d = st.Details[0]
		}
		fmt.Printf("note: harness %s: %d paths ended in an error of the executor or the harness (inconclusive): %s\n", name, n, firstLine(d))
	}
	if n := st.Inconclusive["unsupported"]; n > 0 {
		// the real code left what the executor can interpret: these paths are decided by native probes where the check
		// has them, and by nothing otherwise - say so instead of passing quietly
		d := ""
		for _, x := range st.Details {
			if strings.HasPrefix(x, "unsupported") {
				d = x
				break
			}
		}
		fmt.Printf("note: harness %s: %d of %d paths left the part of Go the executor interprets (%s); they count as not explored unless a native probe decided them\n", name, n, st.Paths, firstLine(d))
	}
	if st.Truncated {
		fmt.Printf("note: harness %s: exploration truncated at the path budget after %d paths\n", name, st.Paths)
	}
	h, _ := r.Ev.Coverage["harnesses"].([]interface{})
	inc := map[string]int{}
	for k, v := range st.Inconclusive {
		inc[k] = v
	}
	r.Ev.Coverage["harnesses"] = append(h, map[string]interface{}{
		"name": name, "bounds": bounds, "paths": st.Paths, "completed": st.Completed,
		"inconclusive": inc, "truncated": st.Truncated, "solver_queries": st.Solver.Queries,
		"solver_s": round3(st.Solver.Seconds), "wall_s": round3(st.Wall), "forks": st.Forks,
		"details": st.Details,
	})
}

func round3(f float64) float64 { return float64(int64(f*1000)) / 1000 }

func NewRun(id, tier string) (*Run, error) {
	seed := int64(1)
	if s := os.Getenv("VERIF_SEED"); s != "" {
		if v, err := strconv.ParseInt(s, 10, 64); err == nil {
			seed = v
		}
	}
	r := &Run{ID: id, Tier: tier, Seed: seed, Start: time.Now(), knownHit: map[string]string{}, Workers: 14}
	r.Ev = Evidence{PropertyID: id, Tier: tier, Seed: seed, Coverage: map[string]interface{}{}}
	r.Known = LoadKnown()
	eng, err := gosym.Load(RepoDir)
	if err != nil {
		return nil, err
	}
	r.Eng = eng
	return r, nil
}

// Finish writes the evidence file, prints the verdict lines and returns the exit code.
func (r *Run) Finish(level string) int {
	r.Ev.Level = level
	r.Ev.WallS = round3(time.Since(r.Start).Seconds())
	r.Ev.Violations = len(r.violations)
	// aggregate engine statistics
	var paths, completed, forks, steps int
	var sv sym.Stats
	funcs := map[string]int{}
	inc := map[string]int{}
	for _, st := range r.Stats {
		paths += st.Paths
		completed += st.Completed
		forks += st.Forks
		steps += st.Steps
		sv.Add(st.Solver)
		for k, v := range st.Funcs {
			funcs[k] += v
		}
		for k, v := range st.Inconclusive {
			inc[k] += v
		}
	}
	var mod []string
	for k := range funcs {
		if strings.Contains(k, gosym.ModulePath) {
			mod = append(mod, strings.ReplaceAll(k, gosym.ModulePath+"/", ""))
		}
	}
	sort.Strings(mod)
	cv := r.Ev.Coverage
	cv["functions_encoded"] = mod
	cv["ssa_instructions_executed"] = steps
	cv["paths_explored"] = paths
	cv["paths_completed"] = completed
	cv["paths_inconclusive"] = inc
	cv["solver"] = map[string]interface{}{
		"cmd":     "z3 -in (4.8.12), QF_BV terms, one process per worker",
		"queries": sv.Queries, "sat": sv.Sat, "unsat": sv.Unsat, "unknown": sv.Unknown,
		"errors": sv.Errors, "seconds": round3(sv.Seconds),
	}
	xmode := os.Getenv("VERIF_XCHECK")
	if xmode == "" {
		xmode = "final"
	}
	cv["solver_cross_check"] = map[string]interface{}{
		"cmd": "z3-new -in (5.1.0), standalone script of path condition + assertion per query", "mode": xmode,
		"queries": sv.XQueries, "agree": sv.XAgree, "disagree": sv.XDisagree, "unknown_second_solver": sv.XUnknown, "pruning_verdicts_seen": sv.XPruneSeen,
		"seconds": round3(sv.XSeconds),
	}
	if sv.XDisagree > 0 {
		fmt.Printf("note: %d verdicts of z3 4.8.12 were contradicted by z3 5.1.0; those paths are inconclusive\n", sv.XDisagree)
	}
	cv["spurious_candidates"] = r.spurious
	cv["model_gaps"] = r.modelGaps
	if level == "model_checking" {
		if _, ok := cv["states"]; !ok {
			cv["states"] = completed
		}
		if _, ok := cv["transitions"]; !ok {
			cv["transitions"] = forks
		}
		if _, ok := cv["traces_validated_against_impl"]; !ok {
			cv["traces_validated_against_impl"] = 0
		}
	}
	var kf []string
	classes := make([]string, 0, len(r.knownHit))
	for c := range r.knownHit {
		classes = append(classes, c)
	}
	sort.Strings(classes)
	for _, c := range classes {
		what := ""
		for _, k := range r.Known {
			if k.Property == r.ID && k.Class == c {
				what = k.What
			}
		}
		fmt.Printf("KNOWN-FINDING: property=%s class=%s %s witness=%s\n", r.ID, c, what, strconv.Quote(r.knownHit[c]))
		kf = append(kf, c)
	}
	cv["known_findings_observed"] = kf
	os.MkdirAll(filepath.Join(OutDir, "evidence"), 0o777)
	b, _ := json.MarshalIndent(r.Ev, "", " ")
	os.WriteFile(filepath.Join(OutDir, "evidence", r.ID+".json"), append(b, '\n'), 0o666)
	if r.Native != nil {
		r.Native.Close()
	}
	if os.Getenv("VERIF_EMIT_KNOWN") != "" {
		for _, v := range r.violations {
			what := strings.ReplaceAll(v.What, "\n", "\\n")
			if len(what) > 300 {
				what = what[:300] + "..."
			}
			fmt.Printf("known: property=%s class=%s %s\n", r.ID, v.Class, what)
		}
	}
	for i, v := range r.violations {
		fmt.Printf("VIOLATION property=%s replay=%s\n", r.ID, v.Replay)
		if i < 15 {
			what := v.What
			if len(what) > 600 {
				what = what[:600] + "..."
			}
			fmt.Printf("  class=%s %s\n", v.Class, what)
		}
	}
	fmt.Printf("%s %s: paths=%d completed=%d inconclusive=%v queries=%d solver_s=%.1f wall_s=%.1f violations=%d known=%d\n",
		r.ID, r.Tier, paths, completed, inc, sv.Queries, sv.Seconds, r.Ev.WallS, len(r.violations), len(kf))
	if len(r.violations) > 0 {
		return 1
	}
	return 0
}

// ---------------------------------------------------------------- native build

// Native is the repository built natively from the working tree: the replay
// driver (harness/drv overlaid as zzverifdrv) and the tsh command itself.
type Native struct {
	Dir string
	Drv string
	Tsh string
}

func scratchRoot() string {
	if d := os.Getenv("VERIF_SCRATCH"); d != "" {
		return d
	}
	return "/var/tmp"
}

func BuildNative() (*Native, error) {
	dir, err := os.MkdirTemp(scratchRoot(), "verif-native-")
	if err != nil {
		return nil, err
	}
	n := &Native{Dir: dir, Drv: filepath.Join(dir, "drv"), Tsh: filepath.Join(dir, "tsh")}
	ov := map[string]map[string]string{"Replace": {
		filepath.Join(RepoDir, "zzverifdrv", "main.go"): filepath.Join(VerifDir, "harness", "drv", "main.go"),
	}}
	ob, _ := json.Marshal(ov)
	ovf := filepath.Join(dir, "overlay.json")
	os.WriteFile(ovf, ob, 0o666)
	build := func(args ...string) error {
		cmd := exec.Command("go", args...)
		cmd.Dir = RepoDir
		cmd.Env = append(GoEnv, "GOCACHE="+filepath.Join(scratchRoot(), "verif-gocache"))
		out, err := cmd.CombinedOutput()
		if err != nil {
			return fmt.Errorf("go %s: %v\n%s", strings.Join(args, " "), err, out)
		}
		return nil
	}
	if err := build("build", "-tags", "verif", "-overlay", ovf, "-o", n.Drv, "./zzverifdrv"); err != nil {
		n.Close()
		return nil, err
	}
	if err := build("build", "-o", n.Tsh, "."); err != nil {
		n.Close()
		return nil, err
	}
	// the standard library of the language lives next to the executable
	exec.Command("cp", "-r", filepath.Join(RepoDir, "std"), filepath.Join(dir, "std")).Run()
	return n, nil
}

func (n *Native) Close() {
	if n != nil && n.Dir != "" {
		os.RemoveAll(n.Dir)
	}
}

// DrvReq / DrvRes mirror harness/drv.
type DrvCall struct {
	Main   string `json:"main"`
	Target string `json:"target"`
}

type DrvReq struct {
	Op     string            `json:"op"`
	Src    string            `json:"src,omitempty"`
	Files  map[string]string `json:"files,omitempty"`
	Main   string            `json:"main,omitempty"`
	Target string            `json:"target,omitempty"`
	Calls  []DrvCall         `json:"calls,omitempty"`
	Dir    string            `json:"dir,omitempty"`
}

type DrvTok struct {
	Type  int    `json:"type"`
	Value string `json:"value"`
	Row   int    `json:"row"`
	Col   int    `json:"col"`
}

type DrvRes struct {
	Tokens  []DrvTok `json:"tokens"`
	Script  string   `json:"script"`
	Err     string   `json:"err"`
	HasErr  bool     `json:"has_err"`
	Panic   string   `json:"panic"`
	Scripts []DrvRes `json:"scripts"`
	Millis  int64    `json:"millis"`
	Hung    bool     `json:"-"`
}

// RunDrv executes requests in one driver process under a watchdog and a memory limit.
func (n *Native) RunDrv(reqs []DrvReq, timeout time.Duration) ([]DrvRes, error) {
	return n.RunDrvEnv(reqs, timeout, nil)
}

// RunDrvEnv runs the driver with a replaced environment (nil: the environment of the check).
func (n *Native) RunDrvEnv(reqs []DrvReq, timeout time.Duration, env []string) ([]DrvRes, error) {
	in, _ := json.Marshal(reqs)
	cmd := exec.Command("/bin/bash", "-c", fmt.Sprintf("ulimit -v 4000000; exec /usr/bin/timeout %d %s", int(timeout.Seconds()), n.Drv))
	if env != nil {
		cmd.Env = env
	}
	cmd.Stdin = bytes.NewReader(in)
	var out, errb bytes.Buffer
	cmd.Stdout = &out
	cmd.Stderr = &errb
	err := cmd.Run()
	if err != nil {
		return nil, fmt.Errorf("driver: %v: %s", err, tail(errb.String(), 400))
	}
	var res []DrvRes
	if err := json.Unmarshal(out.Bytes(), &res); err != nil {
		return nil, err
	}
	return res, nil
}

func tail(s string, n int) string {
	if len(s) > n {
		return s[len(s)-n:]
	}
	return s
}

// RunBash runs a script with /bin/bash in an empty directory and environment.
type BashResult struct {
	Stdout  string
	Stderr  string
	Code    int
	Files   map[string]string
	Timeout bool
}

func RunBash(script string, stdin string, pre map[string]string, timeout time.Duration) BashResult {
	dir, err := os.MkdirTemp(scratchRoot(), "verif-bash-")
	if err != nil {
		return BashResult{Code: -1, Stderr: err.Error()}
	}
	defer os.RemoveAll(dir)
	work := filepath.Join(dir, "w")
	os.MkdirAll(work, 0o777)
	// canary files: an unquoted * ? [ in data becomes visible as a file name
	if pre == nil {
		pre = map[string]string{}
	} else {
		cp := map[string]string{}
		for k, v := range pre {
			cp[k] = v
		}
		pre = cp
	}
	pre["zzcanary"] = "canary\n"
	pre["q"] = "canary\n"
	for p, c := range pre {
		fp := filepath.Join(work, p)
		os.MkdirAll(filepath.Dir(fp), 0o777)
		os.WriteFile(fp, []byte(c), 0o777)
	}
	sp := filepath.Join(dir, "script.sh")
	os.WriteFile(sp, []byte(script), 0o777)
	cmd := exec.Command("timeout", strconv.Itoa(int(timeout.Seconds())), "/bin/bash", sp)
	cmd.Dir = work
	cmd.Env = []string{"PATH=/usr/bin:/bin", "HOME=" + work}
	cmd.Stdin = strings.NewReader(stdin)
	var out, errb bytes.Buffer
	cmd.Stdout = &out
	cmd.Stderr = &errb
	err = cmd.Run()
	res := BashResult{Stdout: out.String(), Stderr: errb.String(), Files: map[string]string{}}
	if ee, ok := err.(*exec.ExitError); ok {
		res.Code = ee.ExitCode()
		if res.Code == 124 {
			res.Timeout = true
		}
	} else if err != nil {
		res.Code = -1
	}
	filepath.Walk(work, func(p string, info os.FileInfo, err error) error {
		if err == nil && !info.IsDir() {
			b, _ := os.ReadFile(p)
			rel, _ := filepath.Rel(work, p)
			if _, was := pre[rel]; !was || string(b) != pre[rel] {
				res.Files[rel] = string(b)
			}
		}
		return nil
	})
	return res
}

// ModelStr evaluates a rope under a model.
func ModelStr(s gosym.Str, m map[string]uint64) string {
	var sb strings.Builder
	for _, g := range s.Segs {
		switch {
		case g.D != nil:
			sb.WriteString(strconv.FormatInt(int64(sym.Eval(g.D, m)), 10))
		case g.B != nil:
			sb.WriteByte(byte(sym.Eval(g.B, m)))
		default:
			sb.WriteString(g.S)
		}
	}
	return sb.String()
}

func ModelInt(v gosym.Value, m map[string]uint64) int64 {
	switch v := v.(type) {
	case int64:
		return v
	case *sym.Term:
		x := sym.Eval(v, m)
		if v.W < 64 && v.W > 0 {
			s := uint(64 - v.W)
			return int64(x<<s) >> s
		}
		return int64(x)
	case bool:
		if v {
			return 1
		}
		return 0
	}
	return 0
}

func firstLine(s string) string {
	if i := strings.IndexByte(s, '\n'); i >= 0 {
		return s[:i]
	}
	return s
}
