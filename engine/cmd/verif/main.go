package main

import (
	"fmt"
	"os"

	"verif/engine/checks"
)

var registry = map[string]func(*checks.Run) int{
	"C11": checks.CheckC11,
}

func main() {
	if len(os.Args) < 3 {
		fmt.Println("usage: verif check <Cxx> [--tier quick|thorough]")
		os.Exit(2)
	}
	switch os.Args[1] {
	case "check":
		id := os.Args[2]
		tier := os.Getenv("VERIF_TIER")
		for i := 3; i+1 < len(os.Args); i++ {
			if os.Args[i] == "--tier" {
				tier = os.Args[i+1]
			}
		}
		if tier != "thorough" {
			tier = "quick"
		}
		f, ok := registry[id]
		if !ok {
			fmt.Println("no check for", id)
			os.Exit(2)
		}
		run, err := checks.NewRun(id, tier)
		if err != nil {
			fmt.Println("cannot load the repository:", err)
			os.Exit(2)
		}
		os.Exit(f(run))
	default:
		fmt.Println("unknown command", os.Args[1])
		os.Exit(2)
	}
}
