package main

import (
	"fmt"
	"os"

	"verif/engine/checks"
)

var registry = map[string]func(*checks.Run) int{
	"C05": checks.CheckC05,
	"C06": checks.CheckC06,
	"C07": checks.CheckC07,
	"C08": checks.CheckC08,
	"C09": checks.CheckC09,
	"C10": checks.CheckC10,
	"C11": checks.CheckC11,
	"C01": checks.CheckC01,
	"C02": checks.CheckC02,
	"C03": checks.CheckC03,
	"C04": checks.CheckC04,
	"C12": checks.CheckC12,
	"C13": checks.CheckC13,
	"C14": checks.CheckC14,
	"C15": checks.CheckC15,
	"C16": checks.CheckC16,
	"C17": checks.CheckC17,
	"C18": checks.CheckC18,
	"C19": checks.CheckC19,
}

func main() {
	if len(os.Args) < 2 || (os.Args[1] == "check" && len(os.Args) < 3) {
		fmt.Println("usage: verif check <Cxx> [--tier quick|thorough]")
		os.Exit(2)
	}
	switch os.Args[1] {
	case "check":
		id := os.Args[2]
		tier := os.Getenv("VERIF_TIER")
		for i := 3; i+1 < len(os.Args); i++ {
			if os.Args[i] == "--tier" {
				tier = os.Args[i+1]
			}
		}
		if tier == "thorough" && os.Getenv("VERIF_XCHECK") == "" {
			// thorough: the second solver also re-decides every unsat verdict that prunes a branch
			os.Setenv("VERIF_XCHECK", "all")
		}
		if tier != "thorough" {
			tier = "quick"
		}
		f, ok := registry[id]
		if !ok {
			fmt.Println("no check for", id)
			os.Exit(2)
		}
		run, err := checks.NewRun(id, tier)
		if err != nil {
			fmt.Println("cannot load the repository:", err)
			os.Exit(2)
		}
		os.Exit(f(run))
	case "replay":
		if len(os.Args) < 4 {
			fmt.Println("usage: verif replay <Cxx> <path>")
			os.Exit(2)
		}
		os.Exit(checks.Replay(os.Args[2], os.Args[3]))
	case "selftest":
		run, err := checks.NewRun("SELFTEST", "quick")
		if err != nil {
			fmt.Println(err)
			os.Exit(2)
		}
		nat, err := checks.BuildNative()
		if err != nil {
			fmt.Println(err)
			os.Exit(2)
		}
		run.Native = nat
		defer nat.Close()
		a, d, sk, notes := checks.Calibrate(run)
		fmt.Printf("ShSem vs /bin/bash on the repository's test programs: agree=%d disagree=%d skipped=%d\n", a, d, sk)
		for _, n := range notes {
			fmt.Println(" ", n)
		}
		nat.Close()
		if d > 0 {
			os.Exit(1)
		}
		os.Exit(0)
	default:
		fmt.Println("unknown command", os.Args[1])
		os.Exit(2)
	}
}
