// Command batcal calibrates BatSem (the Batch semantics used as an oracle) against the
// expected output of the repository's own test programs.
package main

import (
	"fmt"
	"os"

	"verif/engine/checks"
)

func main() {
	run, err := checks.NewRun("SELFTEST", "quick")
	if err != nil {
		fmt.Println(err)
		os.Exit(2)
	}
	nat, err := checks.BuildNative()
	if err != nil {
		fmt.Println(err)
		os.Exit(2)
	}
	run.Native = nat
	a, d, sk, notes := checks.CalibrateBat(run)
	nat.Close()
	fmt.Printf("BatSem vs expected output: agree=%d disagree=%d skipped=%d\n", a, d, sk)
	for _, n := range notes {
		fmt.Println(" ", n)
	}
	if d > 0 {
		os.Exit(1)
	}
}
