package gosym

import (
	"regexp"
	"regexp/syntax"
	"sync"
	"unicode"

	"verif/engine/sym"
)

// HostRegexp models *regexp.Regexp. Concrete subjects go to the real
// implementation; ropes with symbolic bytes go through a leftmost-first
// backtracking matcher over the parsed pattern that enumerates the possible
// matches in priority order, each with the condition under which it is the
// path taken.
type HostRegexp struct {
	re  *regexp.Regexp
	ast *syntax.Regexp
	src string
}

func (r *HostRegexp) HostType() string { return "*regexp.Regexp" }
func (r *HostRegexp) Call(c *Ctx, m string, a []Value) Value {
	c.Unsupported("regexp method %s via interface", m)
	return nil
}

var reCache sync.Map // pattern -> *HostRegexp (immutable)

func newHostRegexp(c *Ctx, pat string) *HostRegexp {
	if v, ok := reCache.Load(pat); ok {
		return v.(*HostRegexp)
	}
	r := compileHostRegexp(c, pat)
	reCache.Store(pat, r)
	return r
}

func compileHostRegexp(c *Ctx, pat string) *HostRegexp {
	re, err := regexp.Compile(pat)
	if err != nil {
		c.goPanic("regexp: Compile("+pat+"): "+err.Error(), nil)
	}
	ast, _ := syntax.Parse(pat, syntax.Perl)
	return &HostRegexp{re: re, ast: ast.Simplify(), src: pat}
}

type reMatch struct {
	cond  *sym.Term
	start int
	end   int
	caps  []int // 2*ncap, -1 when unset
}

// enumerate lists candidate matches in priority order.
func (r *HostRegexp) enumerate(c *Ctx, units []Seg, limit int) []reMatch {
	ncap := r.ast.MaxCap()
	var out []reMatch
	n := len(units)
	anchored := false
	for start := 0; start <= n && !anchored; start++ {
		caps := make([]int, 2*(ncap+1))
		for i := range caps {
			caps[i] = -1
		}
		st := &reState{c: c, units: units, caps: caps, r: r}
		s0 := start
		st.match(r.ast, start, c.B.True, func(pos int, cond *sym.Term) bool {
			cp := append([]int(nil), st.caps...)
			cp[0], cp[1] = s0, pos
			out = append(out, reMatch{cond: cond, start: s0, end: pos, caps: cp})
			if cond.IsTrue() {
				return true // nothing of lower priority can win
			}
			if len(out) > limit {
				c.Unsupported("regexp %q: more than %d candidate matches", r.src, limit)
			}
			return false
		})
		if len(out) > 0 && out[len(out)-1].cond.IsTrue() {
			break
		}
		if startsAnchored(r.ast) {
			anchored = true
		}
	}
	return out
}

func startsAnchored(re *syntax.Regexp) bool {
	switch re.Op {
	case syntax.OpBeginText:
		return true
	case syntax.OpConcat:
		return len(re.Sub) > 0 && startsAnchored(re.Sub[0])
	case syntax.OpCapture:
		return startsAnchored(re.Sub[0])
	}
	return false
}

type reState struct {
	c     *Ctx
	units []Seg
	caps  []int
	r     *HostRegexp
}

// match tries re at pos under cond; k is the continuation and returns true to stop all search.
func (st *reState) match(re *syntax.Regexp, pos int, cond *sym.Term, k func(pos int, cond *sym.Term) bool) bool {
	B := st.c.B
	switch re.Op {
	case syntax.OpEmptyMatch:
		return k(pos, cond)
	case syntax.OpNoMatch:
		return false
	case syntax.OpLiteral:
		cur := cond
		p := pos
		for _, r := range re.Rune {
			if p >= len(st.units) {
				return false
			}
			fold := re.Flags&syntax.FoldCase != 0
			t := st.unitIs(st.units[p], func(b rune) bool {
				if fold {
					return unicode.SimpleFold(b) == r || b == r || unicode.SimpleFold(r) == b
				}
				return b == r
			})
			cur = B.And(cur, t)
			if cur.IsFalse() {
				return false
			}
			p++
		}
		return k(p, cur)
	case syntax.OpCharClass:
		if pos >= len(st.units) {
			return false
		}
		t := st.unitIs(st.units[pos], func(b rune) bool {
			for i := 0; i+1 < len(re.Rune); i += 2 {
				if re.Rune[i] <= b && b <= re.Rune[i+1] {
					return true
				}
			}
			// bytes >= 0x80 stand for some non-ASCII rune
			if b >= 0x80 {
				for i := 0; i+1 < len(re.Rune); i += 2 {
					if re.Rune[i+1] >= 0x80 {
						return true
					}
				}
			}
			return false
		})
		cur := B.And(cond, t)
		if cur.IsFalse() {
			return false
		}
		return k(pos+1, cur)
	case syntax.OpAnyCharNotNL:
		if pos >= len(st.units) {
			return false
		}
		t := st.unitIs(st.units[pos], func(b rune) bool { return b != '\n' })
		cur := B.And(cond, t)
		if cur.IsFalse() {
			return false
		}
		return k(pos+1, cur)
	case syntax.OpAnyChar:
		if pos >= len(st.units) {
			return false
		}
		if st.units[pos].D != nil {
			st.c.Unsupported("regexp over decimal atom")
		}
		return k(pos+1, cond)
	case syntax.OpBeginText:
		if pos != 0 {
			return false
		}
		return k(pos, cond)
	case syntax.OpEndText:
		if pos != len(st.units) {
			return false
		}
		return k(pos, cond)
	case syntax.OpWordBoundary, syntax.OpNoWordBoundary:
		isWord := func(p int) *sym.Term {
			if p < 0 || p >= len(st.units) {
				return B.False
			}
			return st.unitIs(st.units[p], func(b rune) bool {
				return b == '_' || (b >= '0' && b <= '9') || (b >= 'a' && b <= 'z') || (b >= 'A' && b <= 'Z')
			})
		}
		a, z := isWord(pos-1), isWord(pos)
		boundary := B.Not(B.Eq(a, z))
		if re.Op == syntax.OpNoWordBoundary {
			boundary = B.Not(boundary)
		}
		cur := B.And(cond, boundary)
		if cur.IsFalse() {
			return false
		}
		return k(pos, cur)
	case syntax.OpBeginLine, syntax.OpEndLine:
		st.c.Unsupported("regexp op %v with symbolic subject", re.Op)
	case syntax.OpCapture:
		old0, old1 := st.caps[2*re.Cap], st.caps[2*re.Cap+1]
		stop := st.match(re.Sub[0], pos, cond, func(p int, cd *sym.Term) bool {
			s0, s1 := st.caps[2*re.Cap], st.caps[2*re.Cap+1]
			st.caps[2*re.Cap], st.caps[2*re.Cap+1] = pos, p
			r := k(p, cd)
			st.caps[2*re.Cap], st.caps[2*re.Cap+1] = s0, s1
			return r
		})
		st.caps[2*re.Cap], st.caps[2*re.Cap+1] = old0, old1
		return stop
	case syntax.OpConcat:
		var seq func(i int, p int, cd *sym.Term) bool
		seq = func(i int, p int, cd *sym.Term) bool {
			if i == len(re.Sub) {
				return k(p, cd)
			}
			return st.match(re.Sub[i], p, cd, func(p2 int, cd2 *sym.Term) bool { return seq(i+1, p2, cd2) })
		}
		return seq(0, pos, cond)
	case syntax.OpAlternate:
		for _, s := range re.Sub {
			if st.match(s, pos, cond, k) {
				return true
			}
		}
		return false
	case syntax.OpQuest:
		greedy := re.Flags&syntax.NonGreedy == 0
		if greedy {
			if st.match(re.Sub[0], pos, cond, k) {
				return true
			}
			return k(pos, cond)
		}
		if k(pos, cond) {
			return true
		}
		return st.match(re.Sub[0], pos, cond, k)
	case syntax.OpStar, syntax.OpPlus:
		greedy := re.Flags&syntax.NonGreedy == 0
		var loop func(p int, cd *sym.Term, n int) bool
		loop = func(p int, cd *sym.Term, n int) bool {
			more := func() bool {
				return st.match(re.Sub[0], p, cd, func(p2 int, cd2 *sym.Term) bool {
					if p2 == p {
						return false // empty iteration
					}
					return loop(p2, cd2, n+1)
				})
			}
			done := func() bool {
				if re.Op == syntax.OpPlus && n == 0 {
					return false
				}
				return k(p, cd)
			}
			if greedy {
				if more() {
					return true
				}
				return done()
			}
			if done() {
				return true
			}
			return more()
		}
		return loop(pos, cond, 0)
	case syntax.OpRepeat:
		st.c.Unsupported("regexp repeat with symbolic subject")
	}
	st.c.Unsupported("regexp op %v", re.Op)
	return false
}

// unitIs returns the condition under which the unit is a byte satisfying pred.
func (st *reState) unitIs(u Seg, pred func(b rune) bool) *sym.Term {
	B := st.c.B
	switch {
	case u.D != nil:
		st.c.Unsupported("regexp over decimal atom")
	case u.B != nil:
		// build a disjunction of ranges of accepted byte values
		var parts []*sym.Term
		b := 0
		for b < 256 {
			if !pred(rune(b)) {
				b++
				continue
			}
			lo := b
			for b < 256 && pred(rune(b)) {
				b++
			}
			hi := b - 1
			if lo == hi {
				parts = append(parts, B.Eq(u.B, B.BV(uint64(lo), 8)))
			} else {
				parts = append(parts, B.And(B.Cmp(sym.OpULe, B.BV(uint64(lo), 8), u.B), B.Cmp(sym.OpULe, u.B, B.BV(uint64(hi), 8))))
			}
		}
		return B.Or(parts...)
	}
	return B.Bool(pred(rune(u.S[0])))
}

// ---- API used by the intrinsics

func (r *HostRegexp) findSubmatch(c *Ctx, s Str) (found bool, m reMatch, units []Seg) {
	units = s.Units()
	for _, cand := range r.enumerate(c, units, 4096) {
		if c.Branch(cand.cond) {
			return true, cand, units
		}
	}
	return false, reMatch{}, units
}

func unitsStr(u []Seg) Str { return normalize(append([]Seg(nil), u...)) }
