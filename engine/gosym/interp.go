package gosym

import (
	"fmt"
	"go/constant"
	"go/token"
	"go/types"
	"strings"
	"sync"

	"verif/engine/sym"

	"golang.org/x/tools/go/ssa"
)

// Trace names a function whose execution is printed (debugging aid).
var Trace string

type deferred struct {
	fn   Value
	args []Value
	site *ssa.Defer
}

type fnInfo struct {
	name     string
	intr     intrinsic
	index    map[ssa.Value]int
	n        int
	interp   bool
	skipInit bool
}

var fnInfos sync.Map // *ssa.Function -> *fnInfo

func infoOf(fn *ssa.Function) *fnInfo {
	if v, ok := fnInfos.Load(fn); ok {
		return v.(*fnInfo)
	}
	fi := &fnInfo{name: fn.String(), index: map[ssa.Value]int{}}
	fi.intr = intrinsics[fi.name]
	fi.interp = interpretable(fn)
	fi.skipInit = fn.Pkg != nil && !isModule(fn.Pkg) && fn.Name() == "init" && fn.Signature.Recv() == nil
	add := func(v ssa.Value) {
		if _, ok := fi.index[v]; !ok {
			fi.index[v] = fi.n
			fi.n++
		}
	}
	for _, p := range fn.Params {
		add(p)
	}
	for _, fv := range fn.FreeVars {
		add(fv)
	}
	for _, b := range fn.Blocks {
		for _, in := range b.Instrs {
			if v, ok := in.(ssa.Value); ok {
				add(v)
			}
		}
	}
	act, _ := fnInfos.LoadOrStore(fn, fi)
	return act.(*fnInfo)
}

type frame struct {
	fn     *ssa.Function
	info   *fnInfo
	env    []Value
	block  *ssa.BasicBlock
	prev   *ssa.BasicBlock
	defers []deferred
	result Value
	done   bool
}

func (c *Ctx) goPanic(msg string, v Value) {
	st := append([]string(nil), c.stack...)
	runtime := v == nil
	if v == nil {
		v = Iface{T: types.Typ[types.String], V: Conc(msg)}
	}
	panic(&GoPanic{Val: v, Msg: msg, Stack: st, Runtime: runtime})
}

func (c *Ctx) get(fr *frame, v ssa.Value) Value {
	switch v := v.(type) {
	case *ssa.Const:
		return c.constVal(v)
	case *ssa.Global:
		return c.global(v)
	case *ssa.Function:
		return v
	case *ssa.Builtin:
		return v
	}
	if i, ok := fr.info.index[v]; ok {
		return fr.env[i]
	}
	panic(fmt.Sprintf("get: no value for %T %s in %s", v, v.Name(), fr.fn))
}

func (c *Ctx) constVal(k *ssa.Const) Value {
	if k.Value == nil {
		return zero(k.Type())
	}
	t := k.Type().Underlying()
	if tp, ok := t.(*types.TypeParam); ok {
		t = tp.Underlying()
	}
	b, ok := t.(*types.Basic)
	if !ok {
		if _, isIface := t.(*types.Interface); isIface {
			return Iface{}
		}
		panic(fmt.Sprintf("constVal: %v", k))
	}
	switch {
	case b.Info()&types.IsBoolean != 0:
		return constant.BoolVal(k.Value)
	case b.Info()&types.IsInteger != 0:
		if i, ok := constant.Int64Val(constant.ToInt(k.Value)); ok {
			return i
		}
		u, _ := constant.Uint64Val(constant.ToInt(k.Value))
		return int64(u)
	case b.Info()&types.IsString != 0:
		return Conc(constant.StringVal(k.Value))
	case b.Info()&types.IsFloat != 0:
		f, _ := constant.Float64Val(k.Value)
		return f
	}
	panic(fmt.Sprintf("constVal: %v", k))
}

func (c *Ctx) global(g *ssa.Global) Value {
	if p, ok := c.globals[g]; ok {
		return p
	}
	if g.Pkg != nil && !isModule(g.Pkg) && !(g.Pkg.Pkg.Path() == "os" && g.Name() == "Args") {
		// initialisers of packages outside the module are not run, so their variables have no meaningful value
		c.Unsupported("package variable %s.%s of a package outside the module", g.Pkg.Pkg.Path(), g.Name())
	}
	p := new(Value)
	elem := g.Type().(*types.Pointer).Elem()
	*p = zero(elem)
	if g.Pkg != nil && g.Pkg.Pkg.Path() == "os" && g.Name() == "Args" {
		var el []Value
		for _, a := range c.Args {
			el = append(el, a)
		}
		*p = Slice{Elems: el}
	}
	c.globals[g] = p
	return p
}

// ensureInit runs the initialiser of a module package once per path.
func (c *Ctx) ensureInit(p *ssa.Package) {
	if p == nil || c.inited[p] || !isModule(p) {
		return
	}
	c.inited[p] = true
	if init := p.Func("init"); init != nil {
		c.interpret(init, nil)
	}
}

// Call invokes a function value with arguments (host-side entry point too).
func (c *Ctx) Call(fn Value, args ...Value) Value {
	return c.call(fn, args, token.NoPos)
}

func (c *Ctx) call(fn Value, args []Value, pos token.Pos) Value {
	switch f := fn.(type) {
	case *ssa.Function:
		return c.callSSA(f, args, nil)
	case *Closure:
		return c.callSSA(f.Fn, args, f.Env)
	case *ssa.Builtin:
		return c.builtin(f, args)
	case *HostFunc:
		return f.Fn(c, args)
	case nil:
		c.goPanic("runtime error: invalid memory address or nil pointer dereference (nil func)", nil)
	}
	panic(fmt.Sprintf("call: %T", fn))
}

func (c *Ctx) callSSA(fn *ssa.Function, args []Value, env []Value) Value {
	fi := infoOf(fn)
	if fi.skipInit {
		return nil // initialisers of packages outside the module are not run
	}
	if fi.intr != nil {
		return fi.intr(c, args)
	}
	if fn.Pkg != nil {
		c.ensureInit(fn.Pkg)
	}
	if fn.Blocks == nil {
		// generic instance bodies live with their origin; external functions have none
		c.Unsupported("no body and no model for %s", fi.name)
	}
	if !fi.interp {
		c.Unsupported("no model for %s", fi.name)
	}
	return c.interpretEnv(fn, args, env)
}

// interpretable: module code, generic helpers of slices/maps, small pure stdlib.
func interpretable(fn *ssa.Function) bool {
	p := fn.Pkg
	if p == nil {
		if o := fn.Origin(); o != nil {
			p = o.Pkg
		} else if fn.Parent() != nil {
			return interpretable(fn.Parent())
		} else {
			// wrappers, bound methods, thunks
			return true
		}
	}
	if p == nil || isModule(p) {
		return true
	}
	switch p.Pkg.Path() {
	case "slices", "maps", "errors", "cmp", "iter":
		return true
	case "strings", "unicode", "unicode/utf8", "sort", "bytes", "path", "strconv", "io/fs", "time", "path/filepath", "math/bits", "regexp/syntax", "fmt", "os", "io":
		// pure Go library code without a model (for instance introduced by a refactoring of the code under check) is
		// interpreted from its SSA form like the repository's own code; what it needs beyond the executor's reach
		// (assembly, unsafe) ends the path as unsupported as before
		return fn.Blocks != nil
	}
	return false
}

func (c *Ctx) interpret(fn *ssa.Function, args []Value) Value {
	return c.interpretEnv(fn, args, nil)
}

func (c *Ctx) interpretEnv(fn *ssa.Function, args []Value, env []Value) (result Value) {
	c.depth++
	if c.depth > c.maxDepth {
		c.maxDepth = c.depth
	}
	if c.depth > c.budget.Depth {
		panic(pathEnd{Reason: "depth", Detail: infoOf(fn).name})
	}
	fi := infoOf(fn)
	c.stack = append(c.stack, fi.name)
	fr := &frame{fn: fn, info: fi, env: make([]Value, fi.n)}
	for i, p := range fn.Params {
		fr.env[fi.index[p]] = args[i]
	}
	for i, fv := range fn.FreeVars {
		fr.env[fi.index[fv]] = env[i]
	}
	fr.block = fn.Blocks[0]
	myDepth, myStack := c.depth, len(c.stack)
	func() {
		defer func() {
			r := recover()
			if r == nil {
				return
			}
			gp, isGo := r.(*GoPanic)
			if !isGo || gp.Exit || len(fr.defers) == 0 {
				panic(r)
			}
			// a Go panic unwinds through this frame: its deferred calls run, one of them may recover
			c.depth, c.stack = myDepth, c.stack[:myStack]
			ps := &panicState{gp: gp}
			c.panics = append(c.panics, ps)
			n := len(c.panics)
			c.runDefers(fr)
			c.panics = c.panics[:n-1]
			if !ps.recovered {
				panic(gp)
			}
			fr.done = false
			if fn.Recover != nil {
				fr.prev, fr.block = nil, fn.Recover
				for !fr.done {
					c.runBlock(fr)
				}
			} else {
				fr.result = zeroResults(fn)
			}
		}()
		for !fr.done {
			c.runBlock(fr)
		}
	}()
	c.stack = c.stack[:myStack-1]
	c.depth = myDepth - 1
	return fr.result
}

// zeroResults is what a function without named results returns after a recovered panic.
func zeroResults(fn *ssa.Function) Value {
	res := fn.Signature.Results()
	switch res.Len() {
	case 0:
		return nil
	case 1:
		return zero(res.At(0).Type())
	}
	t := make(Tuple, res.Len())
	for i := range t {
		t[i] = zero(res.At(i).Type())
	}
	return t
}

func (c *Ctx) runBlock(fr *frame) {
	b := fr.block
	n := len(b.Instrs)
	c.Steps += n
	c.Funcs[fr.fn] += n
	if c.Steps > c.budget.Steps {
		panic(pathEnd{Reason: "budget", Detail: fmt.Sprintf("%d steps in %s", c.Steps, fr.fn)})
	}
	if c.WallExceeded() {
		panic(pathEnd{Reason: "budget", Detail: fmt.Sprintf("wall-clock limit of the path exceeded in %s", fr.fn)})
	}
	// phis are evaluated simultaneously
	if _, ok := b.Instrs[0].(*ssa.Phi); ok {
		pi := 0
		for i, p := range b.Preds {
			if p == fr.prev {
				pi = i
				break
			}
		}
		var vals []Value
		for _, in := range b.Instrs {
			ph, ok := in.(*ssa.Phi)
			if !ok {
				break
			}
			vals = append(vals, c.get(fr, ph.Edges[pi]))
		}
		for i, v := range vals {
			fr.env[fr.info.index[b.Instrs[i].(*ssa.Phi)]] = v
		}
	}
	for _, in := range b.Instrs {
		if Trace != "" && fr.fn.Name() == Trace {
			if v, ok := in.(ssa.Value); ok {
				defer func(v ssa.Value, in ssa.Instruction) {
					fmt.Printf("  %s: %s = %s   => %s\n", b, v.Name(), in, describe(fr.env[fr.info.index[v]]))
				}(v, in)
			} else {
				fmt.Printf("  %s: %s\n", b, in)
			}
		}
		switch in := in.(type) {
		case *ssa.DebugRef:
		case *ssa.Phi:
		case *ssa.UnOp:
			fr.env[fr.info.index[in]] = c.unop(fr, in)
		case *ssa.BinOp:
			fr.env[fr.info.index[in]] = c.binop(in.Op, in.X.Type(), c.get(fr, in.X), c.get(fr, in.Y), in.Y.Type())
		case *ssa.Call:
			fr.env[fr.info.index[in]] = c.doCall(fr, &in.Call, in.Pos())
		case *ssa.ChangeInterface:
			fr.env[fr.info.index[in]] = c.get(fr, in.X)
		case *ssa.ChangeType:
			fr.env[fr.info.index[in]] = c.get(fr, in.X)
		case *ssa.Convert:
			fr.env[fr.info.index[in]] = c.convert(in.X.Type(), in.Type(), c.get(fr, in.X))
		case *ssa.MultiConvert:
			fr.env[fr.info.index[in]] = c.convert(in.X.Type(), in.Type(), c.get(fr, in.X))
		case *ssa.SliceToArrayPointer:
			c.Unsupported("SliceToArrayPointer")
		case *ssa.MakeInterface:
			fr.env[fr.info.index[in]] = Iface{T: in.X.Type(), V: copyVal(c.get(fr, in.X))}
		case *ssa.Extract:
			fr.env[fr.info.index[in]] = c.get(fr, in.Tuple).(Tuple)[in.Index]
		case *ssa.Slice:
			fr.env[fr.info.index[in]] = c.sliceOp(fr, in)
		case *ssa.Return:
			switch len(in.Results) {
			case 0:
			case 1:
				fr.result = c.get(fr, in.Results[0])
			default:
				t := make(Tuple, len(in.Results))
				for i, r := range in.Results {
					t[i] = c.get(fr, r)
				}
				fr.result = t
			}
			fr.done = true
			return
		case *ssa.RunDefers:
			c.runDefers(fr)
		case *ssa.Panic:
			v := c.get(fr, in.X)
			c.goPanic("panic: "+c.panicText(v), v)
		case *ssa.Store:
			p := c.get(fr, in.Addr)
			if p == nil {
				c.goPanic("runtime error: invalid memory address or nil pointer dereference", nil)
			}
			storeInto(p.(*Value), c.get(fr, in.Val))
		case *ssa.If:
			succ := 1
			if c.truth(c.get(fr, in.Cond)) {
				succ = 0
			}
			fr.prev, fr.block = b, b.Succs[succ]
			return
		case *ssa.Jump:
			fr.prev, fr.block = b, b.Succs[0]
			return
		case *ssa.Defer:
			fn, args := c.prepareCall(fr, &in.Call)
			fr.defers = append(fr.defers, deferred{fn, args, in})
		case *ssa.Go, *ssa.Send, *ssa.Select:
			c.Unsupported("concurrency instruction %T", in)
		case *ssa.MakeChan:
			c.Unsupported("MakeChan")
		case *ssa.Alloc:
			p := new(Value)
			*p = zero(in.Type().(*types.Pointer).Elem())
			fr.env[fr.info.index[in]] = p
		case *ssa.MakeSlice:
			n := c.concInt(c.get(fr, in.Len), "MakeSlice len")
			cp := c.concInt(c.get(fr, in.Cap), "MakeSlice cap")
			el := make([]Value, n, cp)
			et := in.Type().Underlying().(*types.Slice).Elem()
			for i := range el {
				el[i] = zero(et)
			}
			fr.env[fr.info.index[in]] = Slice{Elems: el}
		case *ssa.MakeMap:
			fr.env[fr.info.index[in]] = NewMap(in.Type().Underlying().(*types.Map).Key())
		case *ssa.Range:
			fr.env[fr.info.index[in]] = c.rangeIter(c.get(fr, in.X), in.X.Type())
		case *ssa.Next:
			fr.env[fr.info.index[in]] = c.get(fr, in.Iter).(*iter).next(c)
		case *ssa.FieldAddr:
			p := c.get(fr, in.X)
			if p == nil {
				c.goPanic("runtime error: invalid memory address or nil pointer dereference", nil)
			}
			fr.env[fr.info.index[in]] = &(*(p.(*Value))).(Struct)[in.Field]
		case *ssa.Field:
			fr.env[fr.info.index[in]] = c.get(fr, in.X).(Struct)[in.Field]
		case *ssa.IndexAddr:
			fr.env[fr.info.index[in]] = c.indexAddr(fr, in)
		case *ssa.Index:
			fr.env[fr.info.index[in]] = c.index(fr, in)
		case *ssa.Lookup:
			fr.env[fr.info.index[in]] = c.lookup(fr, in)
		case *ssa.MapUpdate:
			m := c.get(fr, in.Map).(*Map)
			if m == nil {
				c.goPanic("assignment to entry in nil map", nil)
			}
			m.Set(c, c.get(fr, in.Key), copyVal(c.get(fr, in.Value)))
		case *ssa.TypeAssert:
			fr.env[fr.info.index[in]] = c.typeAssert(in, c.get(fr, in.X))
		case *ssa.MakeClosure:
			cl := &Closure{Fn: in.Fn.(*ssa.Function)}
			for _, b := range in.Bindings {
				cl.Env = append(cl.Env, c.get(fr, b))
			}
			fr.env[fr.info.index[in]] = cl
		default:
			c.Unsupported("instruction %T in %s", in, fr.fn)
		}
	}
	panic("runBlock: fell off block")
}

func (c *Ctx) runDefers(fr *frame) {
	for i := len(fr.defers) - 1; i >= 0; i-- {
		d := fr.defers[i]
		c.call(d.fn, d.args, d.site.Pos())
	}
	fr.defers = nil
}

func (c *Ctx) panicText(v Value) string {
	if i, ok := v.(Iface); ok {
		switch x := i.V.(type) {
		case Str:
			return x.String()
		case *HostErr:
			return x.Msg.String()
		case int64:
			return fmt.Sprint(x)
		}
		if i.T != nil {
			if m := c.E.Method(i.T, "Error"); m != nil {
				if s, ok := c.Call(m, i.V).(Str); ok {
					return s.String()
				}
			}
		}
	}
	return fmt.Sprintf("%v", v)
}

func (c *Ctx) concInt(v Value, what string) int {
	switch v := v.(type) {
	case int64:
		return int(v)
	case *sym.Term:
		if m, ok := c.lenInfo[v]; ok {
			_ = m
		}
		c.Unsupported("symbolic integer where a concrete one is required (%s)", what)
	}
	panic(fmt.Sprintf("concInt: %T (%s)", v, what))
}

func (c *Ctx) prepareCall(fr *frame, call *ssa.CallCommon) (Value, []Value) {
	var args []Value
	var fn Value
	if call.IsInvoke() {
		recv := c.get(fr, call.Value)
		ifc, _ := recv.(Iface)
		if ifc.T == nil {
			c.goPanic("runtime error: invalid memory address or nil pointer dereference (nil interface method call)", nil)
		}
		if ho, ok := ifc.V.(HostObj); ok {
			name := call.Method.Name()
			fn = &HostFunc{Name: ho.HostType() + "." + name, Fn: func(c *Ctx, a []Value) Value { return ho.Call(c, name, a) }}
		} else {
			m := c.E.Prog.LookupMethod(ifc.T, call.Method.Pkg(), call.Method.Name())
			if m == nil {
				c.Unsupported("method %s not found on %v", call.Method.Name(), ifc.T)
			}
			fn = m
			args = append(args, ifc.V)
		}
	} else {
		fn = c.get(fr, call.Value)
	}
	for _, a := range call.Args {
		args = append(args, c.get(fr, a))
	}
	return fn, args
}

func (c *Ctx) doCall(fr *frame, call *ssa.CallCommon, pos token.Pos) Value {
	fn, args := c.prepareCall(fr, call)
	return c.call(fn, args, pos)
}

// ---------------------------------------------------------------- iteration

type iter struct {
	kind int // 0 map, 1 string
	m    *Map
	keys []Value
	vals []Value
	s    Str
	pos  int
}

func (c *Ctx) rangeIter(x Value, t types.Type) *iter {
	switch x := x.(type) {
	case *Map:
		it := &iter{kind: 0, m: x}
		if x != nil {
			order := make([]int, len(x.Keys))
			for i := range order {
				order[i] = i
			}
			if c.MapPerm != nil && len(order) > 1 {
				order = c.MapPerm(c, len(order))
			}
			for _, i := range order {
				it.keys = append(it.keys, x.Keys[i])
				it.vals = append(it.vals, x.Vals[i])
			}
		}
		return it
	case Str:
		return &iter{kind: 1, s: x}
	}
	panic(fmt.Sprintf("rangeIter: %T", x))
}

func (it *iter) next(c *Ctx) Value {
	if it.kind == 0 {
		for it.pos < len(it.keys) {
			k, v := it.keys[it.pos], it.vals[it.pos]
			it.pos++
			// entries deleted during iteration are skipped, as in Go
			if cur, ok := it.m.Get(c, k); ok {
				_ = v
				return Tuple{true, k, cur}
			}
		}
		return Tuple{false, nil, nil}
	}
	g, ok := it.s.Go()
	if !ok {
		// symbolic bytes: one rune per byte under the assumption that they are ASCII (as for []rune conversions)
		units := it.s.Units()
		if it.pos >= len(units) {
			return Tuple{false, int64(0), int64(0)}
		}
		u := units[it.pos]
		idx := it.pos
		switch {
		case u.D != nil:
			c.Unsupported("range over a string with decimal atoms")
		case u.B != nil:
			if !asciiOnly(u.B) {
				c.Assume(c.B.Cmp(sym.OpULt, u.B, c.B.BV(0x80, 8)))
			}
			it.pos++
			return Tuple{true, int64(idx), c.B.ZExt(u.B, 32)}
		default:
			if u.S[0] >= 0x80 {
				c.Unsupported("range over a mixed symbolic/non-ASCII string")
			}
			it.pos++
			return Tuple{true, int64(idx), int64(u.S[0])}
		}
	}
	if it.pos >= len(g) {
		return Tuple{false, int64(0), int64(0)}
	}
	for i, r := range g[it.pos:] {
		_ = i
		idx := it.pos
		it.pos += len(string(r))
		if r == 0xFFFD && g[idx] != 0xEF {
			it.pos = idx + 1
		}
		return Tuple{true, int64(idx), int64(r)}
	}
	return Tuple{false, int64(0), int64(0)}
}

// ---------------------------------------------------------------- indexing

func (c *Ctx) indexAddr(fr *frame, in *ssa.IndexAddr) Value {
	x := c.get(fr, in.X)
	idx := c.get(fr, in.Index)
	switch x := x.(type) {
	case Slice:
		i := c.concIndex(idx, len(x.Elems))
		return &x.Elems[i]
	case *Value:
		a := (*x).(Array)
		i := c.concIndex(idx, len(a))
		return &a[i]
	case nil:
		c.goPanic("runtime error: invalid memory address or nil pointer dereference", nil)
	}
	panic(fmt.Sprintf("indexAddr: %T", x))
}

// concIndex resolves an index to a concrete in-range int or raises the Go panic.
func (c *Ctx) concIndex(idx Value, n int) int {
	switch i := idx.(type) {
	case int64:
		if i < 0 || int(i) >= n {
			c.goPanic(fmt.Sprintf("runtime error: index out of range [%d] with length %d", i, n), nil)
		}
		return int(i)
	case *sym.Term:
		// case split over the small range
		for k := 0; k < n; k++ {
			if c.Branch(c.B.Eq(i, c.B.Int(int64(k), i.W))) {
				return k
			}
		}
		c.goPanic(fmt.Sprintf("runtime error: index out of range [symbolic] with length %d", n), nil)
	}
	panic(fmt.Sprintf("concIndex: %T", idx))
}

func (c *Ctx) index(fr *frame, in *ssa.Index) Value {
	x := c.get(fr, in.X)
	idx := c.get(fr, in.Index)
	switch x := x.(type) {
	case Array:
		return x[c.concIndex(idx, len(x))]
	case Str:
		return c.strIndex(x, idx)
	}
	panic(fmt.Sprintf("index: %T", x))
}

func (c *Ctx) lookup(fr *frame, in *ssa.Lookup) Value {
	x := c.get(fr, in.X)
	k := c.get(fr, in.Index)
	switch x := x.(type) {
	case Str:
		return c.strIndex(x, k)
	case *Map:
		v, ok := x.Get(c, k)
		if !ok {
			v = zero(in.X.Type().Underlying().(*types.Map).Elem())
		} else {
			v = copyVal(v)
		}
		if in.CommaOk {
			return Tuple{v, ok}
		}
		return v
	}
	panic(fmt.Sprintf("lookup: %T", x))
}

// strIndex returns s[i] as a uint8 value.
func (c *Ctx) strIndex(s Str, idx Value) Value {
	if n, ok := s.Len(); ok {
		i := c.concIndex(idx, n)
		t, _ := s.ByteAt(c.B, i)
		return fromIntTerm(t, false)
	}
	// rope with decimal atoms
	switch i := idx.(type) {
	case int64:
		if t, ok := s.ByteAt(c.B, int(i)); ok {
			return fromIntTerm(t, false)
		}
		if i == 0 && len(s.Segs) > 0 && s.Segs[0].D != nil {
			return c.B.ByteVar(c.Fresh("decfirst"), "-0123456789")
		}
	case *sym.Term:
		if m, ok := c.lenInfo[i]; ok && sameStr(m.s, s) && m.off < 0 {
			// s[len(s)-k]
			k := int(-m.off)
			units := s.Units()
			if k <= len(units) {
				// all units after position len-k must be single bytes; the unit itself may be an atom only if k==1
				okTail := true
				for _, u := range units[len(units)-k+1:] {
					if u.D != nil {
						okTail = false
					}
				}
				u := units[len(units)-k]
				if okTail {
					switch {
					case u.D != nil:
						if k == 1 || true {
							return c.B.ByteVar(c.Fresh("declast"), "0123456789")
						}
					case u.B != nil:
						return fromIntTerm(u.B, false)
					default:
						return int64(u.S[0])
					}
				}
			}
		}
	}
	c.Unsupported("index into string with decimal atoms: %s", s.String())
	return nil
}

func sameStr(a, b Str) bool {
	if len(a.Segs) != len(b.Segs) {
		return false
	}
	for i := range a.Segs {
		if a.Segs[i] != b.Segs[i] {
			return false
		}
	}
	return true
}

func (c *Ctx) sliceOp(fr *frame, in *ssa.Slice) Value {
	x := c.get(fr, in.X)
	var lo, hi, mx Value
	if in.Low != nil {
		lo = c.get(fr, in.Low)
	}
	if in.High != nil {
		hi = c.get(fr, in.High)
	}
	if in.Max != nil {
		mx = c.get(fr, in.Max)
	}
	switch x := x.(type) {
	case Str:
		return c.strSlice(x, lo, hi)
	case Slice:
		l, h, m := 0, len(x.Elems), cap(x.Elems)
		if lo != nil {
			l = c.concInt(lo, "slice low")
		}
		if hi != nil {
			h = c.concInt(hi, "slice high")
		}
		if mx != nil {
			m = c.concInt(mx, "slice max")
		}
		if l < 0 || h < l || h > cap(x.Elems) || m < h || m > cap(x.Elems) {
			c.goPanic(fmt.Sprintf("runtime error: slice bounds out of range [%d:%d] with capacity %d", l, h, cap(x.Elems)), nil)
		}
		return Slice{Elems: x.Elems[l:h:m]}
	case *Value:
		a := (*x).(Array)
		l, h := 0, len(a)
		if lo != nil {
			l = c.concInt(lo, "slice low")
		}
		if hi != nil {
			h = c.concInt(hi, "slice high")
		}
		if l < 0 || h < l || h > len(a) {
			c.goPanic("runtime error: slice bounds out of range", nil)
		}
		return Slice{Elems: []Value(a)[l:h]}
	case nil:
		c.goPanic("runtime error: invalid memory address or nil pointer dereference", nil)
	}
	panic(fmt.Sprintf("sliceOp: %T", x))
}

func (c *Ctx) strSlice(s Str, lo, hi Value) Value {
	n, ok := s.Len()
	if ok {
		l, h := 0, n
		if lo != nil {
			l = c.concBound(lo, n)
		}
		if hi != nil {
			h = c.concBound(hi, n)
		}
		if l < 0 || h < l || h > n {
			c.goPanic(fmt.Sprintf("runtime error: slice bounds out of range [%d:%d] with length %d", l, h, n), nil)
		}
		r, _ := s.Sub(l, h)
		return r
	}
	// atoms: only s[k:] with no atom before k, or s[0:k]
	if hi == nil {
		if l, ok := lo.(int64); ok {
			if r, ok := s.SubFrom(int(l)); ok {
				return r
			}
		}
	} else if h, ok := hi.(int64); ok {
		l := 0
		if lo != nil {
			l = c.concInt(lo, "slice low")
		}
		if r, ok := s.Sub(l, int(h)); ok {
			return r
		}
	}
	c.Unsupported("slice of string with decimal atoms: %s", s.String())
	return nil
}

func (c *Ctx) concBound(v Value, n int) int {
	switch v := v.(type) {
	case int64:
		return int(v)
	case *sym.Term:
		for k := 0; k <= n; k++ {
			if c.Branch(c.B.Eq(v, c.B.Int(int64(k), v.W))) {
				return k
			}
		}
		return n + 1
	}
	panic("concBound")
}

// ---------------------------------------------------------------- type assertions

func (c *Ctx) implements(t types.Type, it *types.Interface) bool {
	if it.NumMethods() == 0 {
		return true
	}
	return types.Implements(t, it)
}

func (c *Ctx) typeAssert(in *ssa.TypeAssert, x Value) Value {
	ifc := x.(Iface)
	ok := false
	var v Value
	if ifc.T != nil {
		if it, isI := in.AssertedType.Underlying().(*types.Interface); isI {
			if _, host := ifc.V.(HostObj); host {
				ok = true // modelled objects implement what the code asks of them
			} else {
				ok = c.implements(ifc.T, it)
			}
			v = ifc
		} else {
			ok = types.Identical(ifc.T, in.AssertedType)
			v = ifc.V
		}
	}
	if in.CommaOk {
		if !ok {
			v = zero(in.AssertedType)
		}
		return Tuple{v, ok}
	}
	if !ok {
		have := "nil"
		if ifc.T != nil {
			have = ifc.T.String()
		}
		c.goPanic(fmt.Sprintf("interface conversion: interface is %s, not %s", have, in.AssertedType), nil)
	}
	return v
}

// ---------------------------------------------------------------- builtins

func (c *Ctx) builtin(b *ssa.Builtin, args []Value) Value {
	switch b.Name() {
	case "len":
		switch x := args[0].(type) {
		case Str:
			return c.strLen(x)
		case Slice:
			return int64(len(x.Elems))
		case *Map:
			if x == nil {
				return int64(0)
			}
			return int64(len(x.Keys))
		case Array:
			return int64(len(x))
		case *Value:
			return int64(len((*x).(Array)))
		}
	case "cap":
		switch x := args[0].(type) {
		case Slice:
			return int64(cap(x.Elems))
		case Array:
			return int64(len(x))
		}
	case "append":
		s := args[0].(Slice)
		switch t := args[1].(type) {
		case Slice:
			if len(t.Elems) == 0 {
				return s
			}
			n := make([]Value, 0, len(t.Elems))
			for _, e := range t.Elems {
				n = append(n, copyVal(e))
			}
			return Slice{Elems: append(s.Elems, n...)}
		case Str:
			g := t.MustGo()
			el := s.Elems
			for i := 0; i < len(g); i++ {
				el = append(el, int64(g[i]))
			}
			return Slice{Elems: el}
		}
	case "copy":
		d := args[0].(Slice)
		switch s := args[1].(type) {
		case Slice:
			n := min(len(d.Elems), len(s.Elems))
			tmp := make([]Value, n)
			for i := 0; i < n; i++ {
				tmp[i] = copyVal(s.Elems[i])
			}
			copy(d.Elems, tmp)
			return int64(n)
		case Str:
			g := s.MustGo()
			n := min(len(d.Elems), len(g))
			for i := 0; i < n; i++ {
				d.Elems[i] = int64(g[i])
			}
			return int64(n)
		}
	case "delete":
		args[0].(*Map).Delete(c, args[1])
		return nil
	case "clear":
		switch x := args[0].(type) {
		case Slice:
			for i := range x.Elems {
				x.Elems[i] = zeroLike(x.Elems[i])
			}
		case *Map:
			if x != nil {
				x.Keys, x.Vals = nil, nil
				x.reindex()
			}
		}
		return nil
	case "print", "println":
		return nil
	case "ssa:wrapnilchk":
		if args[0] == nil {
			c.goPanic("runtime error: nil pointer dereference in method wrapper", nil)
		}
		return args[0]
	case "recover":
		if n := len(c.panics); n > 0 && !c.panics[n-1].recovered {
			ps := c.panics[n-1]
			if ps.gp.Runtime {
				c.Unsupported("recover() of a run-time error (runtime.Error values are not modelled)")
			}
			ps.recovered = true
			return ps.gp.Val
		}
		return Iface{}
	case "min", "max":
		r := args[0]
		for _, a := range args[1:] {
			x, y := r.(int64), a.(int64)
			if (b.Name() == "min" && y < x) || (b.Name() == "max" && y > x) {
				r = a
			}
		}
		return r
	}
	c.Unsupported("builtin %s(%T)", b.Name(), args[0])
	return nil
}

func zeroLike(v Value) Value {
	switch v := v.(type) {
	case bool, *sym.Term:
		if t, ok := v.(*sym.Term); ok && t.W > 0 {
			return int64(0)
		}
		return false
	case int64:
		return int64(0)
	case Str:
		return Str{}
	case Struct:
		n := make(Struct, len(v))
		for i := range v {
			n[i] = zeroLike(v[i])
		}
		return n
	case Iface:
		return Iface{}
	case Slice:
		return Slice{}
	}
	return nil
}

// strLen returns len(s); symbolic (with recorded provenance) when s has decimal atoms.
func (c *Ctx) strLen(s Str) Value {
	if n, ok := s.Len(); ok {
		return int64(n)
	}
	v := c.B.Var(c.Fresh("len"), 64)
	c.S.Declare(v)
	minl := int64(s.MinLen())
	atoms := 0
	for _, g := range s.Segs {
		if g.D != nil {
			atoms++
		}
	}
	c.AssumeUnchecked(c.B.And(
		c.B.Cmp(sym.OpSLe, c.B.Int(minl, 64), v),
		c.B.Cmp(sym.OpSLe, v, c.B.Int(minl+int64(atoms)*19, 64))))
	c.lenInfo[v] = lenMeta{s: s, off: 0}
	return v
}

func describe(v Value) string {
	switch v := v.(type) {
	case Str:
		return fmt.Sprintf("%q", v.String())
	case Struct:
		var p []string
		for _, x := range v {
			p = append(p, describe(x))
		}
		return "{" + strings.Join(p, " ") + "}"
	case Iface:
		if v.T == nil {
			return "<nil>"
		}
		return describe(v.V)
	case *sym.Term:
		return termName(v)
	}
	return fmt.Sprintf("%v", v)
}

// storeInto writes v into *p; aggregates are written field by field so that
// previously taken field/element addresses stay valid (as in Go).
func storeInto(p *Value, v Value) {
	switch v := v.(type) {
	case Struct:
		if dst, ok := (*p).(Struct); ok && len(dst) == len(v) {
			for i := range v {
				storeInto(&dst[i], v[i])
			}
			return
		}
	case Array:
		if dst, ok := (*p).(Array); ok && len(dst) == len(v) {
			for i := range v {
				storeInto(&dst[i], v[i])
			}
			return
		}
	}
	*p = copyVal(v)
}
