package gosym

import (
	"fmt"
	"go/types"
	"os"
	"os/exec"
	"runtime/debug"
	"sort"
	"strconv"
	"strings"
	"sync"
	"time"

	"verif/engine/sym"

	"golang.org/x/tools/go/ssa"
)

// pathEnd aborts the current path (not a Go panic of the program under test).
type pathEnd struct {
	Reason string // "infeasible", "budget", "unsupported", "solver-unknown", "assume-false", "done"
	Detail string
}

// GoPanic is a run-time panic of the interpreted program.
type GoPanic struct {
	Val     Value
	Msg     string
	Stack   []string
	Runtime bool // raised by the run time (index out of range, nil dereference, failed assertion), not by panic(v)
	Exit    bool // os.Exit: ends the process, deferred calls do not run
}

// panicState is a Go panic that is unwinding through frames with deferred calls.
type panicState struct {
	gp        *GoPanic
	recovered bool
}

func (p *GoPanic) Error() string { return p.Msg }

type Budget struct {
	Steps    int // interpreted instructions per path
	Depth    int // call depth
	MaxPaths int
	Wall     time.Duration // wall-clock time per path (0: 90 s)
}

// Ctx is the state of one path.
type Ctx struct {
	E *Engine
	B *sym.Builder
	S *sym.Solver

	PC       []*sym.Term
	pcSet    map[*sym.Term]bool
	prefix   []bool
	pos      int
	trace    []bool   // decisions taken so far (including forced ones)
	spawn    [][]bool // alternatives discovered on this path
	Forks    int      // solver-decided branch decisions on this path
	Steps    int
	depth    int
	maxDepth int
	budget   Budget
	stack    []string

	panics     []*panicState
	started    time.Time     // wall-clock start of the path
	wall       time.Duration // wall-clock limit of the path
	globals    map[*ssa.Global]*Value
	inited     map[*ssa.Package]bool
	FS         *VFS
	Args       []Str // os.Args
	MapPerm    func(c *Ctx, n int) []int
	Funcs      map[*ssa.Function]int // executed functions -> instruction count
	fresh      int
	lenInfo    map[*sym.Term]lenMeta
	dom        map[*sym.Term]*[4]uint64 // current value set of 8-bit variables (refined by single-variable PC atoms)
	rel        map[*sym.Term]bool       // variable occurs in a multi-variable PC constraint
	tvars      map[*sym.Term][]*sym.Term
	DomDecided int  // branch decisions settled by exhaustive evaluation over byte domains
	XAll       bool // cross-check also the unsat verdicts that prune a branch

	// ProbeFn, when set by a harness, turns a model of the path condition into a concrete instance of the path;
	// it is called when the path ends because the engine cannot interpret something (see PathResult.Probe).
	ProbeFn func(m map[string]uint64) interface{}
	// Notes collected by host-side code for reporting.
	Notes []string
	// User data for host-side oracles.
	Data map[string]interface{}
}

type lenMeta struct {
	s   Str
	off int64
}

func (c *Ctx) Fresh(prefix string) string {
	c.fresh++
	return fmt.Sprintf("%s!%d", prefix, c.fresh)
}

// Assume adds t to the path condition; ends the path if it becomes infeasible.
func (c *Ctx) Assume(t *sym.Term) {
	if t.IsTrue() {
		return
	}
	if t.IsFalse() {
		panic(pathEnd{Reason: "assume-false"})
	}
	c.addPC(t)
	switch c.S.Check() {
	case sym.Unsat:
		panic(pathEnd{Reason: "assume-false"})
	case sym.Unknown:
		panic(pathEnd{Reason: "solver-unknown", Detail: "assume"})
	}
}

// AssumeUnchecked adds t without a feasibility query (caller knows it is satisfiable).
func (c *Ctx) AssumeUnchecked(t *sym.Term) {
	if t.IsTrue() {
		return
	}
	c.addPC(t)
}

func (c *Ctx) addPC(t *sym.Term) {
	if c.pcSet[t] {
		return
	}
	c.PC = append(c.PC, t)
	c.pcSet[t] = true
	if t.Op == sym.OpAnd {
		for _, a := range t.Args {
			c.pcSet[a] = true
		}
	}
	c.S.Assert(t)
	c.refine(t)
}

// byteVars lists the variables of t if they are all 8-bit (nil otherwise or when there are more than 3).
func (c *Ctx) byteVars(t *sym.Term) []*sym.Term {
	if v, ok := c.tvars[t]; ok {
		return v
	}
	seen := map[*sym.Term]bool{}
	var vs []*sym.Term
	bad := false
	var walk func(t *sym.Term)
	walk = func(t *sym.Term) {
		if bad || seen[t] {
			return
		}
		seen[t] = true
		if t.Op == sym.OpVar {
			if t.W != 8 {
				bad = true
				return
			}
			vs = append(vs, t)
			if len(vs) > 3 {
				bad = true
			}
			return
		}
		for _, a := range t.Args {
			walk(a)
		}
	}
	walk(t)
	if bad {
		vs = nil
	}
	c.tvars[t] = vs
	return vs
}

func (c *Ctx) domOf(v *sym.Term) *[4]uint64 {
	if d, ok := c.dom[v]; ok {
		return d
	}
	d := new([4]uint64)
	if v.Dom != nil {
		*d = *v.Dom
	} else {
		*d = [4]uint64{^uint64(0), ^uint64(0), ^uint64(0), ^uint64(0)}
	}
	c.dom[v] = d
	return d
}

func domValues(d *[4]uint64) []uint64 {
	var out []uint64
	for x := uint64(0); x < 256; x++ {
		if d[x>>6]&(1<<(x&63)) != 0 {
			out = append(out, x)
		}
	}
	return out
}

// domDecide settles a condition over at most three independent byte variables by
// evaluating it on every combination of their current domains (<= 4096 combinations).
// It returns (true side feasible, false side feasible, decided).
func (c *Ctx) domDecide(cond *sym.Term) (ft, ff, ok bool) {
	vs := c.byteVars(cond)
	if len(vs) == 0 {
		return false, false, false
	}
	doms := make([][]uint64, len(vs))
	n := 1
	for i, v := range vs {
		if c.rel[v] {
			return false, false, false
		}
		doms[i] = domValues(c.domOf(v))
		n *= len(doms[i])
		if n > 4096 {
			return false, false, false
		}
	}
	if n == 0 {
		return false, false, false
	}
	m := map[string]uint64{}
	idx := make([]int, len(vs))
	for {
		for i, v := range vs {
			m[v.Name] = doms[i][idx[i]]
		}
		if sym.Eval(cond, m) == 1 {
			ft = true
		} else {
			ff = true
		}
		if ft && ff {
			return true, true, true
		}
		k := 0
		for k < len(vs) {
			idx[k]++
			if idx[k] < len(doms[k]) {
				break
			}
			idx[k] = 0
			k++
		}
		if k == len(vs) {
			break
		}
	}
	return ft, ff, true
}

// refine narrows byte domains with a newly asserted constraint.
func (c *Ctx) refine(t *sym.Term) {
	vs := c.byteVars(t)
	switch {
	case len(vs) == 1 && !c.rel[vs[0]]:
		v := vs[0]
		d := c.domOf(v)
		m := map[string]uint64{}
		for _, x := range domValues(d) {
			m[v.Name] = x
			if sym.Eval(t, m) != 1 {
				d[x>>6] &^= 1 << (x & 63)
			}
		}
	case len(vs) > 1:
		for _, v := range vs {
			c.rel[v] = true
		}
	default:
		// mixed or wide constraint: every byte variable in it becomes relational
		seen := map[*sym.Term]bool{}
		var walk func(t *sym.Term)
		walk = func(t *sym.Term) {
			if seen[t] {
				return
			}
			seen[t] = true
			if t.Op == sym.OpVar && t.W == 8 {
				c.rel[t] = true
			}
			for _, a := range t.Args {
				walk(a)
			}
		}
		walk(t)
	}
}

// Fork is free binary nondeterminism (no condition): both outcomes are explored.
func (c *Ctx) Fork() bool {
	if c.pos < len(c.prefix) {
		d := c.prefix[c.pos]
		c.pos++
		c.trace = append(c.trace, d)
		return d
	}
	c.pos++
	c.Forks++
	alt := append(append([]bool(nil), c.trace...), false)
	c.spawn = append(c.spawn, alt)
	c.trace = append(c.trace, true)
	return true
}

// Branch decides a symbolic condition on this path, forking if both sides are feasible.
func (c *Ctx) Branch(cond *sym.Term) bool {
	if cond.IsConst() {
		return cond.Val == 1
	}
	if c.pcSet[cond] {
		return true
	}
	neg := c.B.Not(cond)
	if c.pcSet[neg] {
		return false
	}
	if c.pos < len(c.prefix) {
		d := c.prefix[c.pos]
		c.pos++
		c.trace = append(c.trace, d)
		if d {
			c.addPC(cond)
		} else {
			c.addPC(neg)
		}
		return d
	}
	c.pos++
	c.Forks++
	if ft, ff, ok := c.domDecide(cond); ok {
		c.DomDecided++
		switch {
		case ft && ff:
			alt := append(append([]bool(nil), c.trace...), false)
			c.spawn = append(c.spawn, alt)
			c.trace = append(c.trace, true)
			c.addPC(cond)
			return true
		case ft:
			c.trace = append(c.trace, true)
			c.addPC(cond)
			return true
		default:
			c.trace = append(c.trace, false)
			c.addPC(neg)
			return false
		}
	}
	rt := c.S.Check(cond)
	if rt == sym.Unknown {
		panic(pathEnd{Reason: "solver-unknown", Detail: "branch"})
	}
	if rt == sym.Unsat {
		if c.XAll && c.xSample() {
			c.crossCheck(rt, []*sym.Term{cond})
		}
		c.trace = append(c.trace, false)
		c.addPC(neg)
		return false
	}
	rf := c.S.Check(neg)
	if rf == sym.Unknown {
		panic(pathEnd{Reason: "solver-unknown", Detail: "branch"})
	}
	if rf == sym.Unsat {
		if c.XAll && c.xSample() {
			c.crossCheck(rf, []*sym.Term{neg})
		}
		c.trace = append(c.trace, true)
		c.addPC(cond)
		return true
	}
	alt := append(append([]bool(nil), c.trace...), false)
	c.spawn = append(c.spawn, alt)
	c.trace = append(c.trace, true)
	c.addPC(cond)
	return true
}

// Choose returns an int in [lo,hi]; every value is explored (a chain of free forks).
func (c *Ctx) Choose(name string, lo, hi int) int {
	for i := lo; i < hi; i++ {
		if c.Fork() {
			return i
		}
	}
	return hi
}

// Sat asks whether PC ∧ extra is satisfiable and returns a model for all variables if so.
func (c *Ctx) Sat(extra ...*sym.Term) (sym.Result, map[string]uint64) {
	// a nil term stands for "no further condition"
	kept := extra[:0:0]
	for _, t := range extra {
		if t != nil {
			kept = append(kept, t)
		}
	}
	extra = kept
	r := c.S.Check(extra...)
	c.crossCheck(r, extra)
	if r == sym.Sat {
		for _, v := range c.B.Vars {
			c.S.Declare(v)
		}
		// re-check so that the model covers freshly declared variables
		r = c.S.Check(extra...)
		if r == sym.Sat {
			return r, c.S.Model(c.B.Vars)
		}
	}
	return r, nil
}

// xSample: of the unsat verdicts that prune a branch every xEvery-th (per solver process) is cross-checked.
func (c *Ctx) xSample() bool {
	c.S.Stats.XPruneSeen++
	return c.S.Stats.XPruneSeen%xEvery() == 0
}

var xEveryN int

func xEvery() int {
	if xEveryN == 0 {
		xEveryN = 4
		if v, err := strconv.Atoi(os.Getenv("VERIF_XCHECK_EVERY")); err == nil && v > 0 {
			xEveryN = v
		}
	}
	return xEveryN
}

// crossCheck hands the verdict of a final assertion (or, with XAll, of a branch that is about to be pruned) to
// the second solver; contradicting solvers make the path inconclusive.
func (c *Ctx) crossCheck(r sym.Result, extra []*sym.Term) {
	if c.S.X == nil || r == sym.Unknown {
		return
	}
	ts := append(append([]*sym.Term{}, c.PC...), extra...)
	if !c.S.CrossCheck(r, ts) {
		panic(pathEnd{Reason: "solver-disagreement", Detail: "z3 4.8.12 says " + r.String() + ", the second solver the opposite"})
	}
}

func (c *Ctx) Unsupported(format string, args ...interface{}) {
	panic(pathEnd{Reason: "unsupported", Detail: fmt.Sprintf(format, args...)})
}

func (c *Ctx) Note(format string, args ...interface{}) {
	c.Notes = append(c.Notes, fmt.Sprintf(format, args...))
}

// truth turns a bool-ish value into a Go bool, forking when symbolic.
func (c *Ctx) truth(v Value) bool {
	switch v := v.(type) {
	case bool:
		return v
	case *sym.Term:
		return c.Branch(v)
	}
	panic(fmt.Sprintf("truth: %T", v))
}

// boolTerm converts a bool-ish value into a term.
func (c *Ctx) boolTerm(v Value) *sym.Term {
	switch v := v.(type) {
	case bool:
		return c.B.Bool(v)
	case *sym.Term:
		return v
	}
	panic(fmt.Sprintf("boolTerm: %T", v))
}

func (c *Ctx) intTerm(v Value, w int) *sym.Term {
	switch v := v.(type) {
	case int64:
		return c.B.Int(v, w)
	case *sym.Term:
		if v.W != w {
			panic(fmt.Sprintf("intTerm: width %d want %d", v.W, w))
		}
		return v
	}
	panic(fmt.Sprintf("intTerm: %T", v))
}

func fromBoolTerm(t *sym.Term) Value {
	if t.IsConst() {
		return t.Val == 1
	}
	return t
}

func fromIntTerm(t *sym.Term, signed bool) Value {
	if t.IsConst() {
		if signed {
			return t.Signed()
		}
		return int64(t.Val)
	}
	return t
}

// ---------------------------------------------------------------- exploration

// xcheckMode: VERIF_XCHECK = off | final (default: verdicts of final assertions and model queries) | all (also
// the unsat verdicts that prune a branch).
func xcheckMode() string {
	switch m := os.Getenv("VERIF_XCHECK"); m {
	case "off", "all", "final":
		return m
	}
	if _, err := exec.LookPath("z3-new"); err != nil {
		return "off"
	}
	return "final"
}

type PathResult struct {
	Trace    []bool
	End      string // "done" or a pathEnd reason
	Detail   string
	Forks    int
	Steps    int
	Panic    *GoPanic
	Notes    []string
	Ret      interface{} // harness-provided summary
	Probe    interface{} // concrete instance of a path that ended as "unsupported" (from Ctx.ProbeFn)
	MaxDepth int
}

type ExploreStats struct {
	Paths        int
	Completed    int
	Inconclusive map[string]int
	Forks        int
	Steps        int
	Solver       sym.Stats
	Funcs        map[string]int
	Wall         float64
	Truncated    bool
	Details      []string
}

// Harness is host-side code run once per path. It returns a summary stored in PathResult.Ret.
type Harness func(c *Ctx) interface{}

type ExploreOpts struct {
	Workers   int
	Budget    Budget
	SolverCmd []string
	TimeoutMS int
	OnPath    func(r *PathResult) // called under a lock
	Deadline  time.Time
}

func (e *Engine) Explore(h Harness, o ExploreOpts) *ExploreStats {
	if o.Workers <= 0 {
		o.Workers = 8
	}
	if o.Budget.Steps == 0 {
		o.Budget.Steps = 5_000_000
	}
	if o.Budget.Wall == 0 {
		o.Budget.Wall = 90 * time.Second
	}
	if o.Budget.Depth == 0 {
		o.Budget.Depth = 2000
	}
	if o.Budget.MaxPaths == 0 {
		o.Budget.MaxPaths = 100000
	}
	if o.SolverCmd == nil {
		o.SolverCmd = []string{"z3", "-in"}
	}
	if o.TimeoutMS == 0 {
		o.TimeoutMS = 10000
	}
	t0 := time.Now()
	st := &ExploreStats{Inconclusive: map[string]int{}, Funcs: map[string]int{}}
	var mu sync.Mutex
	cond := sync.NewCond(&mu)
	work := [][]bool{nil}
	active := 0
	started := 0
	var wg sync.WaitGroup
	for w := 0; w < o.Workers; w++ {
		wg.Add(1)
		go func() {
			defer wg.Done()
			solver := sym.NewSolver(o.SolverCmd, o.TimeoutMS)
			if xm := xcheckMode(); xm != "off" {
				solver.X = sym.NewSolver([]string{"z3-new", "-in"}, o.TimeoutMS)
			}
			defer func() {
				mu.Lock()
				st.Solver.Add(solver.Stats)
				mu.Unlock()
				solver.Close()
			}()
			for {
				mu.Lock()
				for len(work) == 0 && active > 0 {
					cond.Wait()
				}
				if len(work) == 0 {
					mu.Unlock()
					cond.Broadcast()
					return
				}
				if started >= o.Budget.MaxPaths || (!o.Deadline.IsZero() && time.Now().After(o.Deadline)) {
					st.Truncated = true
					work = nil
					mu.Unlock()
					cond.Broadcast()
					return
				}
				prefix := work[len(work)-1]
				work = work[:len(work)-1]
				active++
				started++
				mu.Unlock()

				r, spawn, funcs := e.runPath(h, prefix, solver, o.Budget)

				mu.Lock()
				active--
				work = append(work, spawn...)
				st.Paths++
				st.Forks += r.Forks
				st.Steps += r.Steps
				if r.End == "done" {
					st.Completed++
				} else if r.End != "infeasible" && r.End != "assume-false" {
					st.Inconclusive[r.End]++
					if len(st.Details) < 20 {
						st.Details = append(st.Details, r.End+": "+r.Detail)
					}
				}
				for f, n := range funcs {
					st.Funcs[f.String()] += n
				}
				if o.OnPath != nil {
					o.OnPath(r)
				}
				mu.Unlock()
				cond.Broadcast()
			}
		}()
	}
	wg.Wait()
	st.Wall = time.Since(t0).Seconds()
	return st
}

func (e *Engine) runPath(h Harness, prefix []bool, solver *sym.Solver, budget Budget) (res *PathResult, spawn [][]bool, funcs map[*ssa.Function]int) {
	c := &Ctx{
		E: e, B: sym.NewBuilder(), S: solver,
		pcSet: map[*sym.Term]bool{}, prefix: prefix, budget: budget,
		globals: map[*ssa.Global]*Value{}, inited: map[*ssa.Package]bool{},
		FS: NewVFS(), Funcs: map[*ssa.Function]int{}, Data: map[string]interface{}{},
		lenInfo: map[*sym.Term]lenMeta{},
		dom:     map[*sym.Term]*[4]uint64{}, rel: map[*sym.Term]bool{}, tvars: map[*sym.Term][]*sym.Term{},
		started: time.Now(), wall: budget.Wall,
		XAll: xcheckMode() == "all",
	}
	solver.Begin()
	res = &PathResult{}
	defer func() {
		solver.End()
		res.Trace = c.trace
		res.Forks = c.Forks
		res.Steps = c.Steps
		res.Notes = c.Notes
		res.MaxDepth = c.maxDepth
		spawn = c.spawn
		funcs = c.Funcs
		if r := recover(); r != nil {
			switch r := r.(type) {
			case pathEnd:
				res.End, res.Detail = r.Reason, r.Detail
				if r.Reason == "unsupported" && c.ProbeFn != nil {
					func() {
						defer func() { recover() }()
						if sr, m := c.Sat(); sr == sym.Sat {
							res.Probe = c.ProbeFn(m)
						}
					}()
				}
			case *GoPanic:
				// a Go panic that escaped the harness: harnesses normally catch these with Try
				res.End, res.Detail, res.Panic = "go-panic", r.Msg+" @ "+strings.Join(lastN(r.Stack, 8), " <- "), r
			default:
				res.End = "engine-error"
				res.Detail = fmt.Sprintf("%v\n%s", r, strings.Join(c.stack, " <- "))
				if os.Getenv("VERIF_DEBUG") != "" {
					fmt.Fprintf(os.Stderr, "engine-error: %v\n%s\n", r, debug.Stack())
				}
				if len(c.stack) > 12 {
					res.Detail = fmt.Sprintf("%v\n%s", r, strings.Join(c.stack[len(c.stack)-12:], " <- "))
				}
			}
		}
	}()
	res.Ret = h(c)
	res.End = "done"
	return
}

// Try runs f and returns the Go panic of the interpreted program, if any.
func (c *Ctx) Try(f func()) (gp *GoPanic) {
	depth := c.depth
	stack := len(c.stack)
	defer func() {
		if r := recover(); r != nil {
			if p, ok := r.(*GoPanic); ok {
				gp = p
				c.depth = depth
				c.stack = c.stack[:stack]
				return
			}
			panic(r)
		}
	}()
	f()
	return nil
}

func (st *ExploreStats) TopFuncs(n int) []string {
	type kv struct {
		k string
		v int
	}
	var l []kv
	for k, v := range st.Funcs {
		l = append(l, kv{k, v})
	}
	sort.Slice(l, func(i, j int) bool { return l[i].v > l[j].v })
	var out []string
	for i, x := range l {
		if i >= n {
			break
		}
		out = append(out, x.k)
	}
	return out
}

func (st *ExploreStats) ModuleFuncs(prefix string) []string {
	var out []string
	for k := range st.Funcs {
		if strings.Contains(k, prefix) {
			out = append(out, k)
		}
	}
	sort.Strings(out)
	return out
}

var _ = types.Typ

func lastN(s []string, n int) []string {
	if len(s) > n {
		return s[len(s)-n:]
	}
	return s
}

// ResetPackageState forgets the values of all package-level variables (they are re-initialised on next use), as in a
// fresh process.
func (c *Ctx) ResetPackageState() {
	c.globals = map[*ssa.Global]*Value{}
	c.inited = map[*ssa.Package]bool{}
}

// WallExceeded reports whether the path has used more wall-clock time than a path may take (a symbolic loop of an
// interpreted script can make single steps arbitrarily expensive, so step budgets alone do not bound a path).
func (c *Ctx) WallExceeded() bool {
	return c.wall > 0 && time.Since(c.started) > c.wall
}
