package gosym

import (
	"fmt"
	"os"
	"testing"
)

var eng *Engine

func TestMain(m *testing.M) {
	var err error
	eng, err = Load("/repo")
	if err != nil {
		panic(err)
	}
	os.Exit(m.Run())
}

func TestTranspileConcrete(t *testing.T) {
	src := "func add(a int, b int) int {\n\treturn a + b\n}\ns := []int{1, 2}\ns[3] = add(1, 2)\nfor i, v := range s {\n\tprint(i, v)\n}\nif len(s) > 2 && true {\n\tprint(\"yes\")\n}\n"
	for _, conv := range []string{"bash", "batch"} {
		st := eng.Explore(func(c *Ctx) interface{} {
			c.FS.AddFile("/work/main.tsh", Conc(src))
			s, e, he := c.Transpile("/work/main.tsh", conv)
			fmt.Println(s.String(), e.String(), he)
			return nil
		}, ExploreOpts{Workers: 1})
		fmt.Printf("%+v\n", st.Inconclusive)
		fmt.Println(st.Details)
	}
}
