package gosym

import (
	"fmt"
	"go/types"
	"os"
	"runtime"
	"runtime/debug"
	"strings"

	"golang.org/x/tools/go/packages"
	"golang.org/x/tools/go/ssa"
	"golang.org/x/tools/go/ssa/ssautil"
)

const ModulePath = "github.com/monstermichl/typeshell"

// Engine holds the SSA program of the working tree; shared by all paths, read-only.
type Engine struct {
	Prog    *ssa.Program
	Pkgs    map[string]*ssa.Package // by import path
	Main    *ssa.Package
	RepoDir string
	LoadS   float64
}

// Load builds the SSA form of the repository's current working tree.
func Load(repoDir string) (*Engine, error) {
	cfg := &packages.Config{
		Mode: packages.LoadAllSyntax,
		Dir:  repoDir,
		Env:  append(os.Environ(), "GOFLAGS=-mod=mod", "GOPROXY=off", "GOSUMDB=off", "GOTOOLCHAIN=local"),
	}
	pats := []string{".", "./lexer", "./parser", "./transpiler", "./converters/bash", "./converters/batch"}
	pkgs, err := packages.Load(cfg, pats...)
	if err != nil {
		return nil, err
	}
	var errs []string
	packages.Visit(pkgs, nil, func(p *packages.Package) {
		if strings.HasPrefix(p.PkgPath, ModulePath) {
			for _, e := range p.Errors {
				errs = append(errs, e.Error())
			}
		}
	})
	if len(errs) > 0 {
		return nil, fmt.Errorf("repository does not compile: %s", strings.Join(errs, "; "))
	}
	prog, _ := ssautil.AllPackages(pkgs, ssa.InstantiateGenerics)
	prog.Build()
	// The SSA form of the standard library is a large, long-lived heap; collect rarely.
	runtime.GC()
	debug.SetGCPercent(400)
	e := &Engine{Prog: prog, Pkgs: map[string]*ssa.Package{}, RepoDir: repoDir}
	for _, p := range prog.AllPackages() {
		e.Pkgs[p.Pkg.Path()] = p
	}
	e.Main = e.Pkgs[ModulePath]
	return e, nil
}

func (e *Engine) Pkg(rel string) *ssa.Package {
	path := ModulePath
	if rel != "" {
		path += "/" + rel
	}
	p := e.Pkgs[path]
	if p == nil {
		panic("package not loaded: " + path)
	}
	return p
}

// Func returns a package-level function, e.g. Func("lexer", "Tokenize").
func (e *Engine) Func(pkg, name string) *ssa.Function {
	f := e.Pkg(pkg).Func(name)
	if f == nil {
		panic(pathEnd{Reason: "unsupported", Detail: fmt.Sprintf("function %s.%s not found", pkg, name)})
	}
	return f
}

// Method finds a method by name on the dynamic type of a value.
func (e *Engine) Method(t types.Type, name string) *ssa.Function {
	ms := e.Prog.MethodSets.MethodSet(t)
	for i := 0; i < ms.Len(); i++ {
		sel := ms.At(i)
		if sel.Obj().Name() == name {
			return e.Prog.MethodValue(sel)
		}
	}
	return nil
}

func isModule(p *ssa.Package) bool {
	return p != nil && strings.HasPrefix(p.Pkg.Path(), ModulePath)
}

// MethodOf returns method `name` of the named type pkg.typeName (pointer receiver set if ptr).
func (e *Engine) MethodOf(pkg, typeName, name string, ptr bool) *ssa.Function {
	m := e.Pkg(pkg).Members[typeName]
	tn, ok := m.(*ssa.Type)
	if !ok {
		panic(pathEnd{Reason: "unsupported", Detail: fmt.Sprintf("type %s.%s not found", pkg, typeName)})
	}
	var t types.Type = tn.Type()
	if ptr {
		t = types.NewPointer(t)
	}
	f := e.Method(t, name)
	if f == nil {
		panic(pathEnd{Reason: "unsupported", Detail: fmt.Sprintf("method %s.%s.%s not found", pkg, typeName, name)})
	}
	return f
}
