package gosym

import (
	"fmt"
	"os"
	"runtime/pprof"
	"testing"
	"time"
)

func TestPerf(t *testing.T) {
	src := "func add(a int, b int) int {\n\treturn a + b\n}\ns := []int{1, 2}\ns[3] = add(1, 2)\nfor i, v := range s {\n\tprint(i, v)\n}\nif len(s) > 2 && true {\n\tprint(\"yes\")\n}\n"
	f, _ := os.Create("/tmp/cpu.prof")
	pprof.StartCPUProfile(f)
	t0 := time.Now()
	steps := 0
	for i := 0; i < 20; i++ {
		st := eng.Explore(func(c *Ctx) interface{} {
			c.FS.AddFile("/work/main.tsh", Conc(src))
			c.Transpile("/work/main.tsh", "bash")
			c.Transpile("/work/main.tsh", "batch")
			return nil
		}, ExploreOpts{Workers: 1})
		steps = st.Steps
	}
	pprof.StopCPUProfile()
	fmt.Println("per path:", time.Since(t0)/20, "steps:", steps)
}
