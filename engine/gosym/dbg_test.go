package gosym

import (
	"fmt"
	"testing"
	"time"
)

func TestLexBytes(t *testing.T) {
	for n := 1; n <= 2; n++ {
		t0 := time.Now()
		st := eng.Explore(func(c *Ctx) interface{} {
			var segs []Seg
			for i := 0; i < n; i++ {
				b := c.B.Var(fmt.Sprintf("b%d", i), 8)
				c.S.Declare(b)
				segs = append(segs, Seg{B: b})
			}
			c.Tokenize(Str{Segs: segs})
			return nil
		}, ExploreOpts{Workers: 8})
		fmt.Println(n, st.Paths, st.Completed, st.Inconclusive, st.Solver.Queries, time.Since(t0), st.Details)
	}
}
