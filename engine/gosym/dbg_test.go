package gosym

import (
	"fmt"
	"testing"
)

func TestDbg(t *testing.T) {

	src := "if 1 > 2 && true {\n\tprint(\"yes\")\n}\n"
	st := eng.Explore(func(c *Ctx) interface{} {
		c.FS.AddFile("/work/main.tsh", Conc(src))
		pp := new(Value)
		*pp = c.Call(eng.Func("parser", "New"))
		m := eng.MethodOf("parser", "Parser", "Parse", true)
		r := c.Call(m, pp, Conc("/work/main.tsh")).(Tuple)
		fmt.Println(describe(r[0]), describe(r[1]))
		return nil
	}, ExploreOpts{Workers: 1})
	fmt.Println(st.Details)
}
