package gosym

import (
	"fmt"
	"go/token"
	"go/types"
	"unicode/utf8"

	"verif/engine/sym"

	"golang.org/x/tools/go/ssa"
)

func (c *Ctx) unop(fr *frame, in *ssa.UnOp) Value {
	x := c.get(fr, in.X)
	switch in.Op {
	case token.MUL: // load
		if x == nil {
			c.goPanic("runtime error: invalid memory address or nil pointer dereference", nil)
		}
		return copyVal(*(x.(*Value)))
	case token.NOT:
		switch x := x.(type) {
		case bool:
			return !x
		case *sym.Term:
			return fromBoolTerm(c.B.Not(x))
		}
	case token.SUB:
		w, signed := intWidth(in.X.Type())
		switch x := x.(type) {
		case int64:
			return wrapInt(-x, w, signed)
		case *sym.Term:
			return c.B.Neg(x)
		}
	case token.XOR:
		w, signed := intWidth(in.X.Type())
		switch x := x.(type) {
		case int64:
			return wrapInt(^x, w, signed)
		case *sym.Term:
			return c.B.BNot(x)
		}
	}
	c.Unsupported("unop %s on %T", in.Op, x)
	return nil
}

func isIntType(t types.Type) bool {
	b, ok := t.Underlying().(*types.Basic)
	return ok && b.Info()&types.IsInteger != 0
}

func isStringType(t types.Type) bool {
	b, ok := t.Underlying().(*types.Basic)
	return ok && b.Info()&types.IsString != 0
}

func isBoolType(t types.Type) bool {
	b, ok := t.Underlying().(*types.Basic)
	return ok && b.Info()&types.IsBoolean != 0
}

func (c *Ctx) binop(op token.Token, xt types.Type, x, y Value, yt types.Type) Value {
	switch op {
	case token.EQL:
		return c.equal(x, y)
	case token.NEQ:
		return c.not(c.equal(x, y))
	}
	if isStringType(xt) {
		xs, ys := x.(Str), y.(Str)
		switch op {
		case token.ADD:
			return Concat(xs, ys)
		case token.LSS, token.LEQ, token.GTR, token.GEQ:
			a, b := xs.MustGo(), ys.MustGo()
			switch op {
			case token.LSS:
				return a < b
			case token.LEQ:
				return a <= b
			case token.GTR:
				return a > b
			default:
				return a >= b
			}
		}
	}
	if isIntType(xt) {
		w, signed := intWidth(xt)
		xi, xc := x.(int64)
		yi, yc := y.(int64)
		if xc && yc {
			return c.concBin(op, xi, yi, w, signed)
		}
		// symbolic
		a := c.intTerm(x, w)
		var b *sym.Term
		if op == token.SHL || op == token.SHR {
			yw, _ := intWidth(yt)
			b = c.intTerm(y, yw)
			if yw < w {
				b = c.B.ZExt(b, w)
			} else if yw > w {
				b = c.B.Extract(b, 0, w)
			}
		} else {
			b = c.intTerm(y, w)
		}
		B := c.B
		var r *sym.Term
		switch op {
		case token.ADD:
			r = B.Bin(sym.OpAdd, a, b)
			c.propagateLen(a, b, r)
		case token.SUB:
			r = B.Bin(sym.OpSub, a, b)
			c.propagateLenSub(a, b, r)
		case token.MUL:
			r = B.Bin(sym.OpMul, a, b)
		case token.QUO, token.REM:
			if c.Branch(B.Eq(b, B.BV(0, w))) {
				c.goPanic("runtime error: integer divide by zero", nil)
			}
			switch {
			case op == token.QUO && signed:
				r = B.Bin(sym.OpSDiv, a, b)
			case op == token.QUO:
				r = B.Bin(sym.OpUDiv, a, b)
			case signed:
				r = B.Bin(sym.OpSRem, a, b)
			default:
				r = B.Bin(sym.OpURem, a, b)
			}
		case token.AND:
			r = B.Bin(sym.OpBAnd, a, b)
		case token.OR:
			r = B.Bin(sym.OpBOr, a, b)
		case token.XOR:
			r = B.Bin(sym.OpBXor, a, b)
		case token.AND_NOT:
			r = B.Bin(sym.OpBAnd, a, B.BNot(b))
		case token.SHL:
			r = B.Bin(sym.OpShl, a, b)
		case token.SHR:
			if signed {
				r = B.Bin(sym.OpAShr, a, b)
			} else {
				r = B.Bin(sym.OpLShr, a, b)
			}
		case token.LSS:
			return fromBoolTerm(B.Cmp(pick(signed, sym.OpSLt, sym.OpULt), a, b))
		case token.LEQ:
			return fromBoolTerm(B.Cmp(pick(signed, sym.OpSLe, sym.OpULe), a, b))
		case token.GTR:
			return fromBoolTerm(B.Cmp(pick(signed, sym.OpSLt, sym.OpULt), b, a))
		case token.GEQ:
			return fromBoolTerm(B.Cmp(pick(signed, sym.OpSLe, sym.OpULe), b, a))
		default:
			c.Unsupported("binop %s on symbolic ints", op)
		}
		return fromIntTerm(r, signed)
	}
	if isBoolType(xt) {
		a, b := c.boolTerm(x), c.boolTerm(y)
		switch op {
		case token.AND, token.LAND:
			return fromBoolTerm(c.B.And(a, b))
		case token.OR, token.LOR:
			return fromBoolTerm(c.B.Or(a, b))
		}
	}
	if xf, ok := x.(float64); ok {
		yf := y.(float64)
		switch op {
		case token.ADD:
			return xf + yf
		case token.SUB:
			return xf - yf
		case token.MUL:
			return xf * yf
		case token.QUO:
			return xf / yf
		case token.LSS:
			return xf < yf
		case token.LEQ:
			return xf <= yf
		case token.GTR:
			return xf > yf
		case token.GEQ:
			return xf >= yf
		}
	}
	c.Unsupported("binop %s on %T,%T (%v)", op, x, y, xt)
	return nil
}

func pick(c bool, a, b sym.Op) sym.Op {
	if c {
		return a
	}
	return b
}

// propagateLen keeps provenance of len(s)±k so that s[len(s)-1] can be resolved.
func (c *Ctx) propagateLen(a, b, r *sym.Term) {
	if m, ok := c.lenInfo[a]; ok && b.IsConst() {
		c.lenInfo[r] = lenMeta{m.s, m.off + b.Signed()}
	} else if m, ok := c.lenInfo[b]; ok && a.IsConst() {
		c.lenInfo[r] = lenMeta{m.s, m.off + a.Signed()}
	}
}

func (c *Ctx) propagateLenSub(a, b, r *sym.Term) {
	if m, ok := c.lenInfo[a]; ok && b.IsConst() {
		c.lenInfo[r] = lenMeta{m.s, m.off - b.Signed()}
	}
}

func (c *Ctx) concBin(op token.Token, x, y int64, w int, signed bool) Value {
	ux, uy := uint64(x), uint64(y)
	var r int64
	switch op {
	case token.ADD:
		r = x + y
	case token.SUB:
		r = x - y
	case token.MUL:
		r = x * y
	case token.QUO:
		if y == 0 {
			c.goPanic("runtime error: integer divide by zero", nil)
		}
		if signed {
			if y == -1 {
				r = -x
			} else {
				r = x / y
			}
		} else {
			r = int64(ux / uy)
		}
	case token.REM:
		if y == 0 {
			c.goPanic("runtime error: integer divide by zero", nil)
		}
		if signed {
			if y == -1 {
				r = 0
			} else {
				r = x % y
			}
		} else {
			r = int64(ux % uy)
		}
	case token.AND:
		r = x & y
	case token.OR:
		r = x | y
	case token.XOR:
		r = x ^ y
	case token.AND_NOT:
		r = x &^ y
	case token.SHL:
		if uy >= 64 {
			r = 0
		} else {
			r = x << uy
		}
	case token.SHR:
		if signed {
			if uy >= 64 {
				uy = 63
			}
			r = x >> uy
		} else {
			if uy >= 64 {
				r = 0
			} else {
				r = int64(ux >> uy)
			}
		}
	case token.LSS:
		if signed {
			return x < y
		}
		return ux < uy
	case token.LEQ:
		if signed {
			return x <= y
		}
		return ux <= uy
	case token.GTR:
		if signed {
			return x > y
		}
		return ux > uy
	case token.GEQ:
		if signed {
			return x >= y
		}
		return ux >= uy
	default:
		c.Unsupported("binop %s", op)
	}
	return wrapInt(r, w, signed)
}

func (c *Ctx) not(v Value) Value {
	switch v := v.(type) {
	case bool:
		return !v
	case *sym.Term:
		return fromBoolTerm(c.B.Not(v))
	}
	panic("not")
}

// equal implements == for every comparable kind; the result is bool or a Bool term.
func (c *Ctx) equal(x, y Value) Value {
	switch a := x.(type) {
	case nil:
		return isNil(y)
	case bool:
		switch b := y.(type) {
		case bool:
			return a == b
		case *sym.Term:
			return fromBoolTerm(c.B.Eq(c.B.Bool(a), b))
		}
	case int64:
		switch b := y.(type) {
		case int64:
			return a == b
		case *sym.Term:
			return fromBoolTerm(c.B.Eq(c.B.Int(a, b.W), b))
		}
	case *sym.Term:
		switch b := y.(type) {
		case bool:
			return fromBoolTerm(c.B.Eq(a, c.B.Bool(b)))
		case int64:
			return fromBoolTerm(c.B.Eq(a, c.B.Int(b, a.W)))
		case *sym.Term:
			return fromBoolTerm(c.B.Eq(a, b))
		}
	case Str:
		if b, ok := y.(Str); ok {
			return fromBoolTerm(c.StrEq(a, b))
		}
	case Struct:
		b := y.(Struct)
		acc := c.B.True
		for i := range a {
			acc = c.B.And(acc, c.boolTerm(c.equal(a[i], b[i])))
			if acc.IsFalse() {
				return false
			}
		}
		return fromBoolTerm(acc)
	case Array:
		b := y.(Array)
		acc := c.B.True
		for i := range a {
			acc = c.B.And(acc, c.boolTerm(c.equal(a[i], b[i])))
		}
		return fromBoolTerm(acc)
	case *Value:
		if y == nil {
			return a == nil
		}
		return a == y.(*Value)
	case Slice:
		if y == nil {
			return a.Elems == nil
		}
		if b, ok := y.(Slice); ok {
			if a.Elems == nil || b.Elems == nil {
				return a.Elems == nil && b.Elems == nil
			}
		}
	case *Map:
		if y == nil {
			return a == nil
		}
		if b, ok := y.(*Map); ok {
			return a == b
		}
	case Iface:
		b, ok := y.(Iface)
		if !ok {
			if y == nil {
				return a.T == nil
			}
			break
		}
		if a.T == nil || b.T == nil {
			return a.T == nil && b.T == nil
		}
		if !types.Identical(a.T, b.T) {
			return false
		}
		return c.equal(a.V, b.V)
	case *ssa.Function, *Closure, *HostFunc, *ssa.Builtin:
		if y == nil {
			return false
		}
	case float64:
		return a == y.(float64)
	case HostObj:
		return x == y
	}
	if y == nil {
		return isNil(x)
	}
	c.Unsupported("== on %T,%T", x, y)
	return nil
}

func isNil(v Value) bool {
	switch v := v.(type) {
	case nil:
		return true
	case *Value:
		return v == nil
	case Slice:
		return v.Elems == nil
	case *Map:
		return v == nil
	case Iface:
		return v.T == nil
	case *Closure:
		return v == nil
	case *ssa.Function:
		return v == nil
	}
	return false
}

// StrEq builds the condition under which two ropes denote the same string.
func (c *Ctx) StrEq(a, b Str) *sym.Term {
	B := c.B
	if !a.HasAtom() && !b.HasAtom() {
		la, _ := a.Len()
		lb, _ := b.Len()
		if la != lb {
			return B.False
		}
		if ga, ok := a.Go(); ok {
			if gb, ok := b.Go(); ok {
				return B.Bool(ga == gb)
			}
		}
		ua, ub := a.Units(), b.Units()
		acc := B.True
		for i := range ua {
			acc = B.And(acc, B.Eq(unitByte(B, ua[i]), unitByte(B, ub[i])))
			if acc.IsFalse() {
				return acc
			}
		}
		return acc
	}
	// with atoms: align segment-wise
	return c.strEqAtoms(a.Segs, b.Segs)
}

func unitByte(B *sym.Builder, u Seg) *sym.Term {
	if u.B != nil {
		return u.B
	}
	return B.BV(uint64(u.S[0]), 8)
}

func isDigits(s string) bool {
	if s == "" {
		return false
	}
	for i := 0; i < len(s); i++ {
		if s[i] < '0' || s[i] > '9' {
			return false
		}
	}
	return true
}

// strEqAtoms handles the shapes that occur in practice: equal segment
// structure, or an atom facing a concrete numeral delimited by non-digits.
func (c *Ctx) strEqAtoms(a, b []Seg) *sym.Term {
	B := c.B
	if len(a) == 0 || len(b) == 0 {
		if len(a) == 0 && len(b) == 0 {
			return B.True
		}
		// the non-empty side is non-empty text (atoms are non-empty)
		return B.False
	}
	x, y := a[0], b[0]
	switch {
	case x.D != nil && y.D != nil:
		// both start with a decimal: equal iff values equal and rests equal, provided
		// the rest of neither starts with a digit (otherwise the split is ambiguous)
		if startsWithDigitPossibly(a[1:]) || startsWithDigitPossibly(b[1:]) {
			if x.D == y.D {
				return c.strEqAtoms(a[1:], b[1:])
			}
			c.Unsupported("ambiguous decimal alignment in string comparison")
		}
		return B.And(B.Eq(x.D, y.D), c.strEqAtoms(a[1:], b[1:]))
	case x.D != nil || y.D != nil:
		if y.D != nil {
			a, b = b, a
			x, y = y, x
		}
		if startsWithDigitPossibly(a[1:]) {
			c.Unsupported("ambiguous decimal alignment in string comparison")
		}
		if y.B != nil {
			c.Unsupported("decimal atom compared with symbolic bytes")
		}
		// y concrete: take the maximal numeral prefix
		s := y.S
		i := 0
		if i < len(s) && s[i] == '-' {
			i++
		}
		j := i
		for j < len(s) && s[j] >= '0' && s[j] <= '9' {
			j++
		}
		if j == i {
			return B.False
		}
		if j == len(s) && len(b) > 1 && b[1].B != nil {
			c.Unsupported("decimal atom compared with symbolic bytes")
		}
		num := s[:j]
		// canonical form only
		digits := num[i:]
		if (len(digits) > 1 && digits[0] == '0') || num == "-0" || len(digits) > 18 {
			if len(digits) > 18 {
				c.Unsupported("very long numeral in comparison")
			}
			return B.False
		}
		var v int64
		fmt.Sscan(num, &v)
		rest := append([]Seg(nil), b[1:]...)
		if j < len(s) {
			rest = append([]Seg{{S: s[j:]}}, rest...)
		}
		return B.And(B.Eq(x.D, B.Int(v, 64)), c.strEqAtoms(a[1:], rest))
	}
	// both start with bytes: compare byte-wise up to the shorter run before an atom
	ua, ub := x, y
	var ra, rb []Seg
	if ua.IsConc() && len(ua.S) > 1 {
		ra = append([]Seg{{S: ua.S[1:]}}, a[1:]...)
		ua = Seg{S: ua.S[:1]}
	} else {
		ra = a[1:]
	}
	if ub.IsConc() && len(ub.S) > 1 {
		rb = append([]Seg{{S: ub.S[1:]}}, b[1:]...)
		ub = Seg{S: ub.S[:1]}
	} else {
		rb = b[1:]
	}
	h := B.Eq(unitByte(B, ua), unitByte(B, ub))
	if h.IsFalse() {
		return h
	}
	return B.And(h, c.strEqAtoms(ra, rb))
}

func startsWithDigitPossibly(s []Seg) bool {
	if len(s) == 0 {
		return false
	}
	g := s[0]
	switch {
	case g.D != nil:
		return true
	case g.B != nil:
		if g.B.Dom != nil {
			for ch := '0'; ch <= '9'; ch++ {
				if g.B.Dom[ch>>6]&(1<<(uint(ch)&63)) != 0 {
					return true
				}
			}
			return false
		}
		return true
	default:
		return g.S[0] >= '0' && g.S[0] <= '9'
	}
}

// ---------------------------------------------------------------- conversions

func (c *Ctx) convert(from, to types.Type, x Value) Value {
	fu, tu := from.Underlying(), to.Underlying()
	if tp, ok := tu.(*types.TypeParam); ok {
		tu = tp.Underlying()
	}
	// string <-> []byte / []rune
	if isStringType(fu) {
		if sl, ok := tu.(*types.Slice); ok {
			s := x.(Str)
			eb := sl.Elem().Underlying().(*types.Basic)
			if eb.Kind() == types.Uint8 {
				var el []Value
				for _, u := range s.Units() {
					switch {
					case u.D != nil:
						// a decimal atom travels through a byte slice as one opaque element
						el = append(el, AtomBytes{D: u.D})
					case u.B != nil:
						el = append(el, u.B)
					default:
						el = append(el, int64(u.S[0]))
					}
				}
				if el == nil {
					el = []Value{}
				}
				return Slice{Elems: el}
			}
			// []rune
			if g, ok := s.Go(); ok {
				el := []Value{}
				for _, r := range g {
					el = append(el, int64(r))
				}
				return Slice{Elems: el}
			}
			el := []Value{}
			for _, u := range s.Units() {
				switch {
				case u.D != nil:
					c.Unsupported("[]rune of a string with decimal atoms")
				case u.B != nil:
					if !asciiOnly(u.B) {
						c.Assume(c.B.Cmp(sym.OpULt, u.B, c.B.BV(0x80, 8)))
					}
					el = append(el, c.B.ZExt(u.B, 32))
				default:
					if u.S[0] >= 0x80 {
						c.Unsupported("[]rune of mixed symbolic/non-ASCII string")
					}
					el = append(el, int64(u.S[0]))
				}
			}
			return Slice{Elems: el}
		}
		if isStringType(tu) {
			return x
		}
	}
	if sl, ok := fu.(*types.Slice); ok && isStringType(tu) {
		s := x.(Slice)
		eb := sl.Elem().Underlying().(*types.Basic)
		var segs []Seg
		for _, e := range s.Elems {
			switch e := e.(type) {
			case AtomBytes:
				segs = append(segs, Seg{D: e.D})
			case int64:
				if eb.Kind() == types.Uint8 {
					segs = append(segs, Seg{S: string([]byte{byte(e)})})
				} else {
					segs = append(segs, Seg{S: string(rune(e))})
				}
			case *sym.Term:
				if eb.Kind() == types.Uint8 {
					segs = append(segs, Seg{B: e})
				} else {
					c.Unsupported("string of symbolic runes")
				}
			}
		}
		return normalize(segs)
	}
	if isIntType(fu) && isStringType(tu) {
		// string(rune) / string(byte)
		switch v := x.(type) {
		case int64:
			w, signed := intWidth(fu)
			v = wrapInt(v, w, signed)
			if v < 0 || v > utf8.MaxRune {
				return Conc("�")
			}
			return Conc(string(rune(v)))
		case *sym.Term:
			b8 := v
			if v.W != 8 {
				// only zero-extended bytes are supported
				if v.Op == sym.OpZExt && v.Args[0].W == 8 {
					b8 = v.Args[0]
				} else {
					c.Unsupported("string(symbolic rune)")
				}
			}
			if asciiOnly(b8) || c.Branch(c.B.Cmp(sym.OpULt, b8, c.B.BV(0x80, 8))) {
				return ByteStr(b8)
			}
			// two-byte UTF-8 encoding of U+0080..U+00FF
			hi := c.B.Bin(sym.OpBOr, c.B.BV(0xC0, 8), c.B.Bin(sym.OpLShr, b8, c.B.BV(6, 8)))
			lo := c.B.Bin(sym.OpBOr, c.B.BV(0x80, 8), c.B.Bin(sym.OpBAnd, b8, c.B.BV(0x3F, 8)))
			return normalize([]Seg{{B: hi}, {B: lo}})
		}
	}
	if isIntType(fu) && isIntType(tu) {
		fw, fs := intWidth(fu)
		tw, ts := intWidth(tu)
		switch v := x.(type) {
		case int64:
			return wrapInt(v, tw, ts)
		case *sym.Term:
			_ = fw
			if tw > v.W {
				if fs {
					return c.B.SExt(v, tw)
				}
				return c.B.ZExt(v, tw)
			}
			return fromIntTerm(c.B.Extract(v, 0, tw), ts)
		}
	}
	if _, ok := fu.(*types.Basic); ok {
		if fb := fu.(*types.Basic); fb.Info()&types.IsFloat != 0 {
			if isIntType(tu) {
				return int64(x.(float64))
			}
			return x
		}
		if tb, ok := tu.(*types.Basic); ok && tb.Info()&types.IsFloat != 0 {
			if v, ok := x.(int64); ok {
				return float64(v)
			}
		}
	}
	if _, ok := tu.(*types.Pointer); ok {
		return x
	}
	if tb, ok := tu.(*types.Basic); ok && tb.Kind() == types.UnsafePointer {
		c.Unsupported("unsafe.Pointer conversion")
	}
	c.Unsupported("convert %v -> %v", from, to)
	return nil
}

func asciiOnly(b *sym.Term) bool {
	if b.Op != sym.OpVar || b.Dom == nil {
		return false
	}
	return b.Dom[2] == 0 && b.Dom[3] == 0
}
