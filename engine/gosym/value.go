// Package gosym executes the go/ssa form of the repository symbolically:
// concrete Go values with symbolic leaves (sym.Term), strings as ropes of
// concrete bytes / symbolic bytes / decimal atoms, one path at a time with
// replay-based forking decided by an SMT solver.
package gosym

import (
	"fmt"
	"go/types"
	"strconv"
	"strings"

	"verif/engine/sym"

	"golang.org/x/tools/go/ssa"
)

// Value is one of:
//
//	nil                 (nil pointer / map / slice / func)
//	bool | *sym.Term(W==0)
//	int64 | *sym.Term(W>0)      every integer kind; width/sign come from the SSA type
//	Str                 string
//	Struct, Array       aggregates (value semantics: copied on load/store)
//	*Value              pointer
//	Slice               slice header over []Value
//	*Map
//	Iface               interface value
//	Tuple
//	*ssa.Function | *ssa.Builtin | *Closure | *HostFunc
//	HostObj             objects of modelled stdlib types
type Value interface{}

type Struct []Value
type Array []Value
type Tuple []Value

type Slice struct {
	Elems []Value // len/cap as in Go; nil slice <=> Elems == nil
}

type Iface struct {
	T types.Type // nil => nil interface
	V Value
}

// AtomBytes is the element a decimal atom becomes inside a []byte (only copied around, never inspected).
type AtomBytes struct{ D *sym.Term }

type Closure struct {
	Fn  *ssa.Function
	Env []Value
}

type HostFunc struct {
	Name string
	Fn   func(c *Ctx, args []Value) Value
}

// HostObj is a value of a modelled standard-library type; methods are looked up by name.
type HostObj interface {
	HostType() string
	Call(c *Ctx, method string, args []Value) Value
}

// ---------------------------------------------------------------- strings

// Seg is one rope segment: concrete bytes, one symbolic byte, or the decimal
// text of a 64-bit signed term.
type Seg struct {
	S string
	B *sym.Term // BV8
	D *sym.Term // BV64, decimal atom
}

func (s Seg) IsConc() bool { return s.B == nil && s.D == nil }

type Str struct{ Segs []Seg }

func Conc(s string) Str {
	if s == "" {
		return Str{}
	}
	return Str{[]Seg{{S: s}}}
}

func (s Str) IsConc() bool {
	return len(s.Segs) == 0 || (len(s.Segs) == 1 && s.Segs[0].IsConc())
}

func (s Str) HasAtom() bool {
	for _, g := range s.Segs {
		if g.D != nil {
			return true
		}
	}
	return false
}

// Go returns the concrete string; ok=false if the rope has symbolic parts.
func (s Str) Go() (string, bool) {
	switch {
	case len(s.Segs) == 0:
		return "", true
	case len(s.Segs) == 1 && s.Segs[0].IsConc():
		return s.Segs[0].S, true
	}
	return "", false
}

func (s Str) MustGo() string {
	g, ok := s.Go()
	if !ok {
		panic(pathEnd{Reason: "unsupported", Detail: "concrete string required, got " + s.String()})
	}
	return g
}

// Len returns the byte length; ok=false when decimal atoms make it symbolic.
func (s Str) Len() (int, bool) {
	n := 0
	for _, g := range s.Segs {
		switch {
		case g.D != nil:
			return 0, false
		case g.B != nil:
			n++
		default:
			n += len(g.S)
		}
	}
	return n, true
}

// MinLen counts every atom as one byte.
func (s Str) MinLen() int {
	n := 0
	for _, g := range s.Segs {
		switch {
		case g.D != nil, g.B != nil:
			n++
		default:
			n += len(g.S)
		}
	}
	return n
}

func (s Str) String() string {
	var sb strings.Builder
	for _, g := range s.Segs {
		switch {
		case g.D != nil:
			if g.D.IsConst() {
				sb.WriteString(strconv.FormatInt(g.D.Signed(), 10))
			} else {
				fmt.Fprintf(&sb, "⟨dec %s⟩", termName(g.D))
			}
		case g.B != nil:
			fmt.Fprintf(&sb, "⟨%s⟩", termName(g.B))
		default:
			sb.WriteString(g.S)
		}
	}
	return sb.String()
}

func termName(t *sym.Term) string {
	if t.Op == sym.OpVar {
		return t.Name
	}
	return fmt.Sprintf("t%d", t.ID)
}

func normalize(segs []Seg) Str {
	out := make([]Seg, 0, len(segs))
	for _, g := range segs {
		if g.D != nil && g.D.IsConst() {
			g = Seg{S: strconv.FormatInt(g.D.Signed(), 10)}
		}
		if g.B != nil && g.B.IsConst() {
			g = Seg{S: string([]byte{byte(g.B.Val)})}
		}
		if g.IsConc() {
			if g.S == "" {
				continue
			}
			if n := len(out); n > 0 && out[n-1].IsConc() {
				out[n-1].S += g.S
				continue
			}
		}
		out = append(out, g)
	}
	return Str{out}
}

func Concat(parts ...Str) Str {
	var segs []Seg
	for _, p := range parts {
		segs = append(segs, p.Segs...)
	}
	return normalize(segs)
}

func ByteStr(b *sym.Term) Str { return normalize([]Seg{{B: b}}) }
func DecStr(d *sym.Term) Str  { return normalize([]Seg{{D: d}}) }

// Units expands the rope into per-byte units; atoms stay single units.
// A unit is a Seg with len(S)==1, or B, or D.
func (s Str) Units() []Seg {
	var u []Seg
	for _, g := range s.Segs {
		if g.IsConc() {
			for i := 0; i < len(g.S); i++ {
				u = append(u, Seg{S: g.S[i : i+1]})
			}
		} else {
			u = append(u, g)
		}
	}
	return u
}

// Sub returns s[lo:hi] for a rope without atoms in the touched range
// (atoms may appear outside it only if they precede... no: any atom before
// hi makes offsets symbolic). ok=false when unsupported.
func (s Str) Sub(lo, hi int) (Str, bool) {
	var out []Seg
	pos := 0
	for _, g := range s.Segs {
		if pos >= hi {
			break
		}
		switch {
		case g.D != nil:
			return Str{}, false
		case g.B != nil:
			if pos >= lo && pos < hi {
				out = append(out, g)
			}
			pos++
		default:
			a, b := pos, pos+len(g.S)
			if b > lo && a < hi {
				x, y := max(a, lo)-a, min(b, hi)-a
				out = append(out, Seg{S: g.S[x:y]})
			}
			pos = b
		}
	}
	if pos < hi {
		return Str{}, false
	}
	return normalize(out), true
}

// SubFrom returns s[lo:], allowed when no atom lies before lo.
func (s Str) SubFrom(lo int) (Str, bool) {
	var out []Seg
	pos := 0
	for i, g := range s.Segs {
		if pos >= lo {
			out = append(out, s.Segs[i:]...)
			return normalize(out), true
		}
		switch {
		case g.D != nil:
			return Str{}, false
		case g.B != nil:
			pos++
		default:
			if pos+len(g.S) > lo {
				out = append(out, Seg{S: g.S[lo-pos:]})
			}
			pos += len(g.S)
		}
	}
	if pos < lo {
		return Str{}, false
	}
	return normalize(out), true
}

// ByteAt returns the byte at a concrete index as a term (BV8).
func (s Str) ByteAt(b *sym.Builder, i int) (*sym.Term, bool) {
	pos := 0
	for _, g := range s.Segs {
		switch {
		case g.D != nil:
			return nil, false
		case g.B != nil:
			if pos == i {
				return g.B, true
			}
			pos++
		default:
			if i < pos+len(g.S) {
				return b.BV(uint64(g.S[i-pos]), 8), true
			}
			pos += len(g.S)
		}
	}
	return nil, false
}

// ---------------------------------------------------------------- maps

type Map struct {
	Keys []Value
	Vals []Value
	idx  map[string]int // concrete keys only
	KT   types.Type
}

func NewMap(kt types.Type) *Map { return &Map{idx: map[string]int{}, KT: kt} }

func concKey(k Value) (string, bool) {
	switch k := k.(type) {
	case Str:
		if g, ok := k.Go(); ok {
			return "s:" + g, true
		}
	case int64:
		return "i:" + strconv.FormatInt(k, 10), true
	case bool:
		if k {
			return "b:1", true
		}
		return "b:0", true
	}
	return "", false
}

func (m *Map) reindex() {
	m.idx = map[string]int{}
	for i, k := range m.Keys {
		if ck, ok := concKey(k); ok {
			m.idx[ck] = i
		}
	}
}

func (m *Map) allConc() bool { return len(m.idx) == len(m.Keys) }

// find returns the index of key or -1; forks on symbolic keys.
func (m *Map) find(c *Ctx, key Value) int {
	if ck, ok := concKey(key); ok && m.allConc() {
		if i, ok := m.idx[ck]; ok {
			return i
		}
		return -1
	}
	for i, k := range m.Keys {
		if c.truth(c.equal(k, key)) {
			return i
		}
	}
	return -1
}

func (m *Map) Get(c *Ctx, key Value) (Value, bool) {
	if m == nil {
		return nil, false
	}
	if i := m.find(c, key); i >= 0 {
		return m.Vals[i], true
	}
	return nil, false
}

func (m *Map) Set(c *Ctx, key, val Value) {
	if i := m.find(c, key); i >= 0 {
		m.Vals[i] = val
		return
	}
	m.Keys = append(m.Keys, key)
	m.Vals = append(m.Vals, val)
	if ck, ok := concKey(key); ok {
		m.idx[ck] = len(m.Keys) - 1
	}
}

func (m *Map) Delete(c *Ctx, key Value) {
	if m == nil {
		return
	}
	if i := m.find(c, key); i >= 0 {
		m.Keys = append(m.Keys[:i:i], m.Keys[i+1:]...)
		m.Vals = append(m.Vals[:i:i], m.Vals[i+1:]...)
		m.reindex()
	}
}

func (m *Map) Clone() *Map {
	if m == nil {
		return nil
	}
	n := &Map{Keys: append([]Value(nil), m.Keys...), Vals: make([]Value, len(m.Vals)), KT: m.KT}
	for i, v := range m.Vals {
		n.Vals[i] = copyVal(v)
	}
	n.reindex()
	return n
}

// ---------------------------------------------------------------- helpers

func copyVal(v Value) Value {
	switch v := v.(type) {
	case Struct:
		n := make(Struct, len(v))
		for i, x := range v {
			n[i] = copyVal(x)
		}
		return n
	case Array:
		n := make(Array, len(v))
		for i, x := range v {
			n[i] = copyVal(x)
		}
		return n
	}
	return v
}

func zero(t types.Type) Value {
	switch t := t.Underlying().(type) {
	case *types.Basic:
		switch {
		case t.Info()&types.IsBoolean != 0:
			return false
		case t.Info()&types.IsInteger != 0:
			return int64(0)
		case t.Info()&types.IsString != 0:
			return Str{}
		case t.Kind() == types.UnsafePointer, t.Kind() == types.UntypedNil:
			return nil
		case t.Info()&types.IsFloat != 0:
			return float64(0)
		}
		panic(fmt.Sprintf("zero: basic %v", t))
	case *types.Struct:
		s := make(Struct, t.NumFields())
		for i := range s {
			s[i] = zero(t.Field(i).Type())
		}
		return s
	case *types.Array:
		a := make(Array, t.Len())
		for i := range a {
			a[i] = zero(t.Elem())
		}
		return a
	case *types.Interface:
		return Iface{}
	case *types.Slice:
		return Slice{}
	case *types.Tuple:
		tu := make(Tuple, t.Len())
		for i := range tu {
			tu[i] = zero(t.At(i).Type())
		}
		return tu
	case *types.Map:
		return (*Map)(nil)
	case *types.Pointer, *types.Signature, *types.Chan:
		return nil
	}
	panic(fmt.Sprintf("zero: %T %v", t, t))
}

func intWidth(t types.Type) (w int, signed bool) {
	b, ok := t.Underlying().(*types.Basic)
	if !ok {
		panic(fmt.Sprintf("intWidth: %v", t))
	}
	switch b.Kind() {
	case types.Int8:
		return 8, true
	case types.Int16:
		return 16, true
	case types.Int32:
		return 32, true
	case types.Int, types.Int64, types.UntypedInt, types.UntypedRune:
		return 64, true
	case types.Uint8:
		return 8, false
	case types.Uint16:
		return 16, false
	case types.Uint32:
		return 32, false
	case types.Uint, types.Uint64, types.Uintptr:
		return 64, false
	}
	panic(fmt.Sprintf("intWidth: %v", t))
}

func wrapInt(v int64, w int, signed bool) int64 {
	if w == 64 {
		return v
	}
	s := uint(64 - w)
	if signed {
		return v << s >> s
	}
	return int64(uint64(v) << s >> s)
}
