package gosym

import "go/types"

// Transpile runs transpiler.New().Transpile(path, <target>.New()) on this path
// through the exported API of the repository. It returns the script, and the
// error text (hasErr=false when the returned error is nil).
func (c *Ctx) Transpile(path string, target string) (script Str, errText Str, hasErr bool) {
	tp := new(Value)
	*tp = c.Call(c.E.Func("transpiler", "New"))
	return c.TranspileWith(tp, path, c.NewConverter(target))
}

// NewConverter calls converters/<target>.New() and wraps the result as a transpiler.Converter.
func (c *Ctx) NewConverter(target string) Value {
	newFn := c.E.Func("converters/"+target, "New")
	cv := c.Call(newFn)
	return Iface{T: newFn.Signature.Results().At(0).Type(), V: cv}
}

// NewTranspiler returns a pointer to a fresh transpiler object.
func (c *Ctx) NewTranspiler() *Value {
	tp := new(Value)
	*tp = c.Call(c.E.Func("transpiler", "New"))
	return tp
}

func (c *Ctx) TranspileWith(tp *Value, path string, conv Value) (script Str, errText Str, hasErr bool) {
	m := c.E.MethodOf("transpiler", "transpiler", "Transpile", true)
	r := c.Call(m, tp, Conc(path), conv).(Tuple)
	script = r[0].(Str)
	errText, hasErr = c.ErrText(r[1])
	return
}

// Tokenize runs lexer.Tokenize and returns the token structs and error.
type Tok struct {
	Type  Value
	Value Str
	Row   Value
	Col   Value
}

func (c *Ctx) Tokenize(src Str) (toks []Tok, errText Str, hasErr bool) {
	r := c.Call(c.E.Func("lexer", "Tokenize"), src).(Tuple)
	tt := c.E.Pkg("lexer").Members["Token"].(interface{ Type() types.Type }).Type()
	mType, mValue := c.E.Method(tt, "Type"), c.E.Method(tt, "Value")
	mRow, mCol := c.E.Method(tt, "Row"), c.E.Method(tt, "Column")
	for _, e := range r[0].(Slice).Elems {
		toks = append(toks, Tok{
			Type:  c.Call(mType, e),
			Value: c.Call(mValue, e).(Str),
			Row:   c.Call(mRow, e),
			Col:   c.Call(mCol, e),
		})
	}
	errText, hasErr = c.ErrText(r[1])
	return
}
