package gosym

import (
	"crypto/sha256"
	"fmt"
	"go/types"
	"io/fs"
	"path/filepath"
	"sort"
	"strconv"
	"strings"
	"unicode"

	"verif/engine/sym"
)

// HostErr models the error values produced by errors.New / fmt.Errorf / os.*.
type HostErr struct{ Msg Str }

func (e *HostErr) HostType() string { return "error" }
func (e *HostErr) Call(c *Ctx, m string, a []Value) Value {
	switch m {
	case "Error":
		return e.Msg
	case "Unwrap":
		return Iface{}
	}
	c.Unsupported("error method %s", m)
	return nil
}

var hostErrType = types.NewNamed(types.NewTypeName(0, nil, "hostError", nil), types.NewStruct(nil, nil), nil)
var hostObjType = types.NewNamed(types.NewTypeName(0, nil, "hostObject", nil), types.NewStruct(nil, nil), nil)

func mkErr(msg Str) Value     { return Iface{T: hostErrType, V: &HostErr{Msg: msg}} }
func mkErrS(msg string) Value { return mkErr(Conc(msg)) }

// ErrText returns the text of an error-typed interface value ("" , false for nil).
func (c *Ctx) ErrText(v Value) (Str, bool) {
	i, ok := v.(Iface)
	if !ok || i.T == nil {
		return Str{}, false
	}
	if h, ok := i.V.(*HostErr); ok {
		return h.Msg, true
	}
	if m := c.E.Method(i.T, "Error"); m != nil {
		return c.Call(m, i.V).(Str), true
	}
	return Conc("<error>"), true
}

type intrinsic func(c *Ctx, a []Value) Value

var intrinsics map[string]intrinsic

// MarkerInts maps marker literal text to the name of a symbolic int variable.
// strconv.Atoi on a marker returns that variable (this is how integer
// literals of a generated program become symbolic without touching the
// parser's internals).
const MarkerBase = 7000000

func IsMarker(s string) (int, bool) {
	if len(s) == 7 && s[0] == '7' {
		if n, err := strconv.Atoi(s); err == nil && n >= MarkerBase && n < MarkerBase+1000 {
			return n - MarkerBase, true
		}
	}
	return 0, false
}

// MarkerVar returns the symbolic int that stands for marker k on this path.
func (c *Ctx) MarkerVar(k int) *sym.Term {
	v := c.B.Var(fmt.Sprintf("lit%d", k), 64)
	c.S.Declare(v)
	return v
}

func strArg(v Value) Str { return v.(Str) }

func strSlice(v Value) []Str {
	var out []Str
	for _, e := range v.(Slice).Elems {
		out = append(out, e.(Str))
	}
	return out
}

func mkStrSlice(ss []Str) Value {
	el := make([]Value, len(ss))
	for i, s := range ss {
		el[i] = s
	}
	return Slice{Elems: el}
}

func init() {
	intrinsics = map[string]intrinsic{
		"fmt.Sprintf": func(c *Ctx, a []Value) Value { return c.sprintf(strArg(a[0]), a[1].(Slice).Elems) },
		"fmt.Errorf":  func(c *Ctx, a []Value) Value { return mkErr(c.sprintf(strArg(a[0]), a[1].(Slice).Elems)) },
		"fmt.Sprint": func(c *Ctx, a []Value) Value {
			var parts []Str
			for _, e := range a[0].(Slice).Elems {
				parts = append(parts, c.fmtV(e))
			}
			return Concat(parts...)
		},
		"fmt.Println": func(c *Ctx, a []Value) Value { return Tuple{int64(0), Iface{}} },
		"fmt.Printf":  func(c *Ctx, a []Value) Value { return Tuple{int64(0), Iface{}} },
		"errors.New":  func(c *Ctx, a []Value) Value { return mkErr(strArg(a[0])) },

		"strings.Join":       func(c *Ctx, a []Value) Value { return strJoin(strSlice(a[0]), strArg(a[1])) },
		"strings.HasPrefix":  func(c *Ctx, a []Value) Value { return fromBoolTerm(c.HasPrefix(strArg(a[0]), strArg(a[1]))) },
		"strings.HasSuffix":  func(c *Ctx, a []Value) Value { return fromBoolTerm(c.HasSuffix(strArg(a[0]), strArg(a[1]))) },
		"strings.TrimSpace":  func(c *Ctx, a []Value) Value { return c.trim(strArg(a[0]), " \t\n\v\f\r\x85\xa0", true, true) },
		"strings.TrimLeft":   func(c *Ctx, a []Value) Value { return c.trim(strArg(a[0]), strArg(a[1]).MustGo(), true, false) },
		"strings.TrimRight":  func(c *Ctx, a []Value) Value { return c.trim(strArg(a[0]), strArg(a[1]).MustGo(), false, true) },
		"strings.Trim":       func(c *Ctx, a []Value) Value { return c.trim(strArg(a[0]), strArg(a[1]).MustGo(), true, true) },
		"strings.TrimSuffix": func(c *Ctx, a []Value) Value { return c.trimSuffix(strArg(a[0]), strArg(a[1])) },
		"strings.TrimPrefix": func(c *Ctx, a []Value) Value { return c.trimPrefix(strArg(a[0]), strArg(a[1])) },
		"strings.ReplaceAll": func(c *Ctx, a []Value) Value { return c.replaceAll(strArg(a[0]), strArg(a[1]), strArg(a[2])) },
		"strings.Split":      func(c *Ctx, a []Value) Value { return mkStrSlice(c.split(strArg(a[0]), strArg(a[1]))) },
		"strings.Contains": func(c *Ctx, a []Value) Value {
			return len(c.split(strArg(a[0]), strArg(a[1]))) > 1
		},
		"strings.ToLower": func(c *Ctx, a []Value) Value { return caseMap(c, strArg(a[0]), false) },
		"strings.ToUpper": func(c *Ctx, a []Value) Value { return caseMap(c, strArg(a[0]), true) },
		"strings.Repeat": func(c *Ctx, a []Value) Value {
			n := c.concInt(a[1], "strings.Repeat")
			var parts []Str
			for i := 0; i < n; i++ {
				parts = append(parts, strArg(a[0]))
			}
			return Concat(parts...)
		},

		"strconv.Itoa": func(c *Ctx, a []Value) Value { return c.itoa(a[0]) },
		"strconv.FormatInt": func(c *Ctx, a []Value) Value {
			if b, ok := a[1].(int64); ok && b == 10 {
				return c.itoa(a[0])
			}
			c.Unsupported("FormatInt base")
			return nil
		},
		"strconv.Atoi":      func(c *Ctx, a []Value) Value { return c.atoi(strArg(a[0])) },
		"strconv.ParseBool": intrParseBool,
		"strconv.Unquote":   intrUnquote,
		"strconv.Quote":     func(c *Ctx, a []Value) Value { return Conc(strconv.Quote(strArg(a[0]).MustGo())) },

		"regexp.MustCompile": func(c *Ctx, a []Value) Value {
			p := new(Value)
			*p = newHostRegexp(c, strArg(a[0]).MustGo())
			return p
		},
		"(*regexp.Regexp).FindString":         intrFindString,
		"(*regexp.Regexp).FindStringSubmatch": intrFindStringSubmatch,
		"(*regexp.Regexp).MatchString":        intrMatchString,
		"(*regexp.Regexp).ReplaceAllString":   intrReplaceAllString,
		"(*regexp.Regexp).ReplaceAllLiteralString": func(c *Ctx, a []Value) Value {
			re, s, r := reArg(a[0]), strArg(a[1]), strArg(a[2])
			if g, ok := s.Go(); ok {
				if rg, ok := r.Go(); ok {
					return Conc(re.re.ReplaceAllLiteralString(g, rg))
				}
			}
			return replaceAllSym(c, re, s, r)
		},
		"(*regexp.Regexp).FindAllString": func(c *Ctx, a []Value) Value {
			re, s := reArg(a[0]), strArg(a[1])
			n, okN := a[2].(int64)
			if g, ok := s.Go(); ok && okN {
				var out []Str
				for _, x := range re.re.FindAllString(g, int(n)) {
					out = append(out, Conc(x))
				}
				if out == nil {
					return Slice{}
				}
				return mkStrSlice(out)
			}
			c.Unsupported("regexp FindAllString on symbolic text")
			return nil
		},
		"(*regexp.Regexp).Split": func(c *Ctx, a []Value) Value {
			re, s := reArg(a[0]), strArg(a[1])
			n, okN := a[2].(int64)
			if g, ok := s.Go(); ok && okN {
				var out []Str
				for _, x := range re.re.Split(g, int(n)) {
					out = append(out, Conc(x))
				}
				if out == nil {
					return Slice{}
				}
				return mkStrSlice(out)
			}
			c.Unsupported("regexp Split on symbolic text")
			return nil
		},
		"(*regexp.Regexp).FindStringIndex": func(c *Ctx, a []Value) Value {
			re, s := reArg(a[0]), strArg(a[1])
			if g, ok := s.Go(); ok {
				loc := re.re.FindStringIndex(g)
				if loc == nil {
					return Slice{}
				}
				return Slice{Elems: []Value{int64(loc[0]), int64(loc[1])}}
			}
			found, m, _ := re.findSubmatch(c, s)
			if !found {
				return Slice{}
			}
			return Slice{Elems: []Value{int64(m.start), int64(m.end)}}
		},
		"(*regexp.Regexp).String": func(c *Ctx, a []Value) Value { return Conc(reArg(a[0]).src) },

		"unicode.IsUpper": func(c *Ctx, a []Value) Value {
			switch r := a[0].(type) {
			case int64:
				return unicode.IsUpper(rune(r))
			case *sym.Term:
				// ASCII assumption was added by the []rune conversion
				lo, hi := c.B.BV('A', r.W), c.B.BV('Z', r.W)
				return fromBoolTerm(c.B.And(c.B.Cmp(sym.OpULe, lo, r), c.B.Cmp(sym.OpULe, r, hi)))
			}
			panic("IsUpper")
		},

		"slices.Contains[[]string string]": intrContains,

		"maps.Clone[map[string]string string string]": func(c *Ctx, a []Value) Value { return a[0].(*Map).Clone() },

		"os.Stat":       intrStat,
		"os.ReadFile":   intrReadFile,
		"os.WriteFile":  intrWriteFile,
		"os.Executable": func(c *Ctx, a []Value) Value { return Tuple{Conc(c.FS.Exe), Iface{}} },
		"os.Exit": func(c *Ctx, a []Value) Value {
			panic(&GoPanic{Msg: fmt.Sprintf("os.Exit(%v)", a[0]), Val: Iface{T: types.Typ[types.Int], V: a[0]}, Exit: true})
		},

		"path/filepath.IsAbs": func(c *Ctx, a []Value) Value { return filepath.IsAbs(c.pathArg(a[0])) },
		"path/filepath.Abs": func(c *Ctx, a []Value) Value {
			p := c.pathArg(a[0])
			if !filepath.IsAbs(p) {
				p = filepath.Join(c.FS.Cwd, p)
			}
			return Tuple{Conc(filepath.Clean(p)), Iface{}}
		},
		"path/filepath.Join": func(c *Ctx, a []Value) Value {
			var parts []string
			for _, s := range strSlice(a[0]) {
				parts = append(parts, c.pathStr(s))
			}
			return Conc(filepath.Join(parts...))
		},
		"path/filepath.Clean": func(c *Ctx, a []Value) Value { return Conc(filepath.Clean(c.pathArg(a[0]))) },
		"path/filepath.Rel": func(c *Ctx, a []Value) Value {
			rel, err := filepath.Rel(c.pathArg(a[0]), c.pathArg(a[1]))
			if err != nil {
				c.Unsupported("filepath.Rel fails: %v", err)
			}
			return Tuple{Conc(rel), Iface{}}
		},
		"path/filepath.ToSlash":   func(c *Ctx, a []Value) Value { return a[0] },
		"path/filepath.FromSlash": func(c *Ctx, a []Value) Value { return a[0] },
		"path/filepath.Dir":       func(c *Ctx, a []Value) Value { return Conc(filepath.Dir(c.pathArg(a[0]))) },
		"path/filepath.Base":      func(c *Ctx, a []Value) Value { return Conc(filepath.Base(c.pathArg(a[0]))) },
		"path/filepath.Ext":       func(c *Ctx, a []Value) Value { return Conc(filepath.Ext(c.pathArg(a[0]))) },

		"crypto/sha256.New": func(c *Ctx, a []Value) Value { return Iface{T: hostObjType, V: &HostHash{}} },
	}
	// pure string helpers on concrete arguments go to the real implementation (symbolic arguments: unsupported)
	conc2 := func(f func(a, b string) Value) intrinsic {
		return func(c *Ctx, a []Value) Value { return f(strArg(a[0]).MustGo(), strArg(a[1]).MustGo()) }
	}
	// searches: concrete arguments go to the real implementation; a text with symbolic bytes is searched position by
	// position, each candidate position decided by the solver (ropes with decimal atoms are outside the model)
	intrinsics["strings.Index"] = func(c *Ctx, a []Value) Value { return c.symIndex(strArg(a[0]), strArg(a[1]), false) }
	intrinsics["strings.LastIndex"] = func(c *Ctx, a []Value) Value { return c.symIndex(strArg(a[0]), strArg(a[1]), true) }
	intrinsics["strings.Count"] = func(c *Ctx, a []Value) Value {
		s, sep := strArg(a[0]), strArg(a[1])
		if g, ok := s.Go(); ok {
			if h, ok := sep.Go(); ok {
				return int64(strings.Count(g, h))
			}
		}
		if l, _ := sep.Len(); l == 0 || s.HasAtom() || sep.HasAtom() {
			c.Unsupported("strings.Count on this symbolic text")
		}
		n := int64(0)
		u, nd := s.Units(), sep.Units()
		for i := 0; i+len(nd) <= len(u); {
			if c.Branch(c.matchUnits(u, i, nd)) {
				n++
				i += len(nd)
			} else {
				i++
			}
		}
		return n
	}
	intrinsics["strings.EqualFold"] = conc2(func(a, b string) Value { return strings.EqualFold(a, b) })
	intrinsics["strings.ContainsAny"] = func(c *Ctx, a []Value) Value {
		s, set := strArg(a[0]), strArg(a[1]).MustGo()
		if g, ok := s.Go(); ok {
			return strings.ContainsAny(g, set)
		}
		acc := c.B.False
		for _, u := range s.Units() {
			acc = c.B.Or(acc, c.unitIn(u, set))
		}
		return fromBoolTerm(acc)
	}
	intrinsics["strings.IndexAny"] = func(c *Ctx, a []Value) Value {
		s, set := strArg(a[0]), strArg(a[1]).MustGo()
		if g, ok := s.Go(); ok {
			return int64(strings.IndexAny(g, set))
		}
		for i, u := range s.Units() {
			if c.Branch(c.unitIn(u, set)) {
				return int64(i)
			}
		}
		return int64(-1)
	}
	intrinsics["strings.Fields"] = func(c *Ctx, a []Value) Value {
		s := strArg(a[0])
		if g, ok := s.Go(); ok {
			var out []Str
			for _, f := range strings.Fields(g) {
				out = append(out, Conc(f))
			}
			return mkStrSlice(out)
		}
		// symbolic: split at blanks decided per byte
		var out []Str
		var cur []Seg
		for _, u := range s.Units() {
			if c.Branch(c.unitIn(u, " \t\n\v\f\r")) {
				if len(cur) > 0 {
					out = append(out, unitsStr(cur))
					cur = nil
				}
				continue
			}
			cur = append(cur, u)
		}
		if len(cur) > 0 {
			out = append(out, unitsStr(cur))
		}
		return mkStrSlice(out)
	}
	intrinsics["strings.IndexByte"] = func(c *Ctx, a []Value) Value {
		b, ok := a[1].(int64)
		if !ok {
			c.Unsupported("strings.IndexByte with a symbolic byte")
		}
		return c.symIndex(strArg(a[0]), Conc(string([]byte{byte(b)})), false)
	}
	intrinsics["strings.LastIndexByte"] = func(c *Ctx, a []Value) Value {
		b, ok := a[1].(int64)
		if !ok {
			c.Unsupported("strings.LastIndexByte with a symbolic byte")
		}
		return c.symIndex(strArg(a[0]), Conc(string([]byte{byte(b)})), true)
	}
	intrinsics["strings.Title"] = func(c *Ctx, a []Value) Value { return Conc(strings.Title(strArg(a[0]).MustGo())) }
	intrinsics["strconv.FormatBool"] = func(c *Ctx, a []Value) Value {
		if b, ok := a[0].(bool); ok {
			return Conc(strconv.FormatBool(b))
		}
		if c.Branch(a[0].(*sym.Term)) {
			return Conc("true")
		}
		return Conc("false")
	}
	// maps.Clone of any instantiation ends in the run time's maps.clone(any) any
	intrinsics["maps.clone"] = func(c *Ctx, a []Value) Value {
		if iv, ok := a[0].(Iface); ok {
			if m, ok := iv.V.(*Map); ok {
				return Iface{T: iv.T, V: m.Clone()}
			}
		}
		c.Unsupported("maps.clone of %T", a[0])
		return nil
	}
	// generic instances are named with their type arguments; register the common spellings
	for _, n := range []string{
		"maps.Clone[map[string]github.com/monstermichl/typeshell/parser.Variable string github.com/monstermichl/typeshell/parser.Variable]",
		"maps.Clone[map[string]github.com/monstermichl/typeshell/parser.FunctionDefinition string github.com/monstermichl/typeshell/parser.FunctionDefinition]",
	} {
		intrinsics[n] = func(c *Ctx, a []Value) Value { return a[0].(*Map).Clone() }
	}
}

func (c *Ctx) pathArg(v Value) string { return c.pathStr(v.(Str)) }

func (c *Ctx) pathStr(s Str) string {
	if g, ok := s.Go(); ok {
		return g
	}
	c.Unsupported("symbolic file path %s", s.String())
	return ""
}

// ---------------------------------------------------------------- fmt

func (c *Ctx) fmtV(v Value) Str {
	switch x := v.(type) {
	case Iface:
		if x.T == nil {
			return Conc("<nil>")
		}
		if h, ok := x.V.(*HostErr); ok {
			return h.Msg
		}
		if _, isHost := x.V.(HostObj); !isHost {
			if m := c.E.Method(x.T, "Error"); m != nil {
				return c.Call(m, x.V).(Str)
			}
			if m := c.E.Method(x.T, "String"); m != nil && m.Signature.Params().Len() == 0 {
				if s, ok := c.Call(m, x.V).(Str); ok {
					return s
				}
			}
		}
		return c.fmtV(x.V)
	case Str:
		return x
	case int64:
		return Conc(strconv.FormatInt(x, 10))
	case bool:
		return Conc(strconv.FormatBool(x))
	case *sym.Term:
		if x.W == 0 {
			if c.Branch(x) {
				return Conc("true")
			}
			return Conc("false")
		}
		return c.itoa(x)
	case Struct:
		parts := []Str{Conc("{")}
		for i, f := range x {
			if i > 0 {
				parts = append(parts, Conc(" "))
			}
			parts = append(parts, c.fmtV(f))
		}
		parts = append(parts, Conc("}"))
		return Concat(parts...)
	case Slice:
		parts := []Str{Conc("[")}
		for i, f := range x.Elems {
			if i > 0 {
				parts = append(parts, Conc(" "))
			}
			parts = append(parts, c.fmtV(f))
		}
		parts = append(parts, Conc("]"))
		return Concat(parts...)
	case nil:
		return Conc("<nil>")
	}
	return Conc(fmt.Sprintf("%v", v))
}

func (c *Ctx) sprintf(format Str, args []Value) Str {
	f := format.MustGo()
	var parts []Str
	ai := 0
	i := 0
	lit := 0
	for i < len(f) {
		if f[i] != '%' {
			i++
			continue
		}
		parts = append(parts, Conc(f[lit:i]))
		i++
		if i >= len(f) {
			parts = append(parts, Conc("%!(NOVERB)"))
			lit = i
			break
		}
		if f[i] == '%' {
			parts = append(parts, Conc("%"))
			i++
			lit = i
			continue
		}
		// flags / width are not used by the code under test with symbolic data
		start := i
		for i < len(f) && strings.IndexByte("+-# 0123456789.", f[i]) >= 0 {
			i++
		}
		if i >= len(f) {
			parts = append(parts, Conc("%!(NOVERB)"))
			lit = i
			break
		}
		verb := f[i]
		flags := f[start:i]
		i++
		lit = i
		if ai >= len(args) {
			parts = append(parts, Conc("%!"+string(verb)+"(MISSING)"))
			continue
		}
		arg := args[ai]
		ai++
		inner := arg
		if ifc, ok := arg.(Iface); ok {
			inner = ifc.V
		}
		switch verb {
		case 's', 'v':
			parts = append(parts, c.fmtV(arg))
		case 'd':
			switch x := inner.(type) {
			case int64:
				parts = append(parts, Conc(fmt.Sprintf("%"+flags+"d", x)))
			case *sym.Term:
				parts = append(parts, c.itoa(x))
			default:
				parts = append(parts, Concat(Conc("%!d("), c.fmtV(arg), Conc(")")))
			}
		case 'q':
			parts = append(parts, Conc(strconv.Quote(c.fmtV(arg).MustGo())))
		case 'x':
			switch x := inner.(type) {
			case Slice:
				var bs []byte
				for _, e := range x.Elems {
					b, ok := e.(int64)
					if !ok {
						c.Unsupported("%%x of symbolic bytes")
					}
					bs = append(bs, byte(b))
				}
				parts = append(parts, Conc(fmt.Sprintf("%x", bs)))
			case Str:
				parts = append(parts, Conc(fmt.Sprintf("%x", x.MustGo())))
			case int64:
				parts = append(parts, Conc(fmt.Sprintf("%x", x)))
			case *HostHex:
				parts = append(parts, x.S)
			default:
				c.Unsupported("%%x of %T", inner)
			}
		case 't':
			parts = append(parts, c.fmtV(arg))
		case 'c':
			if x, ok := inner.(int64); ok {
				parts = append(parts, Conc(string(rune(x))))
			} else {
				c.Unsupported("%%c symbolic")
			}
		default:
			parts = append(parts, Concat(Conc("%!"+string(verb)+"("), c.fmtV(arg), Conc(")")))
		}
	}
	parts = append(parts, Conc(f[lit:]))
	if ai < len(args) {
		parts = append(parts, Conc("%!(EXTRA)"))
	}
	return Concat(parts...)
}

// ---------------------------------------------------------------- strconv

func (c *Ctx) itoa(v Value) Str {
	switch x := v.(type) {
	case int64:
		return Conc(strconv.FormatInt(x, 10))
	case *sym.Term:
		t := x
		if t.W < 64 {
			t = c.B.SExt(t, 64)
		}
		return DecStr(t)
	}
	panic("itoa")
}

func atoiErr(s string) Value {
	return mkErrS(`strconv.Atoi: parsing ` + strconv.Quote(s) + `: invalid syntax`)
}

func (c *Ctx) atoi(s Str) Value {
	if g, ok := s.Go(); ok {
		if k, isM := IsMarker(g); isM {
			return Tuple{c.MarkerVar(k), Iface{}}
		}
		n, err := strconv.Atoi(g)
		if err != nil {
			return Tuple{int64(0), mkErrS(err.Error())}
		}
		return Tuple{int64(n), Iface{}}
	}
	// a single decimal atom converts back to its value
	if len(s.Segs) == 1 && s.Segs[0].D != nil {
		return Tuple{s.Segs[0].D, Iface{}}
	}
	// symbolic digit string: [+-]? digits, no atoms; at most 18 digits (no overflow)
	units := s.Units()
	for _, u := range units {
		if u.D != nil {
			c.Unsupported("Atoi on mixed rope %s", s.String())
		}
	}
	if len(units) == 0 {
		return Tuple{int64(0), atoiErr("")}
	}
	B := c.B
	neg := B.False
	body := units
	first := unitByte(B, units[0])
	isMinus := B.Eq(first, B.BV('-', 8))
	isPlus := B.Eq(first, B.BV('+', 8))
	if c.Branch(B.Or(isMinus, isPlus)) {
		neg = isMinus
		body = units[1:]
	}
	if len(body) == 0 {
		return Tuple{int64(0), atoiErr(s.String())}
	}
	if len(body) > 18 {
		c.Unsupported("Atoi on more than 18 symbolic digits")
	}
	allDigits := B.True
	acc := B.BV(0, 64)
	for _, u := range body {
		b := unitByte(B, u)
		allDigits = B.And(allDigits, B.Cmp(sym.OpULe, B.BV('0', 8), b), B.Cmp(sym.OpULe, b, B.BV('9', 8)))
		d := B.ZExt(B.Bin(sym.OpSub, b, B.BV('0', 8)), 64)
		acc = B.Bin(sym.OpAdd, B.Bin(sym.OpMul, acc, B.BV(10, 64)), d)
	}
	if !c.Branch(allDigits) {
		return Tuple{int64(0), atoiErr(s.String())}
	}
	val := B.Ite(neg, B.Neg(acc), acc)
	return Tuple{fromIntTerm(val, true), Iface{}}
}

func intrParseBool(c *Ctx, a []Value) Value {
	s := strArg(a[0])
	if g, ok := s.Go(); ok {
		b, err := strconv.ParseBool(g)
		if err != nil {
			return Tuple{false, mkErrS(err.Error())}
		}
		return Tuple{b, Iface{}}
	}
	for _, cand := range []string{"1", "t", "T", "TRUE", "true", "True"} {
		if c.Branch(c.StrEq(s, Conc(cand))) {
			return Tuple{true, Iface{}}
		}
	}
	for _, cand := range []string{"0", "f", "F", "FALSE", "false", "False"} {
		if c.Branch(c.StrEq(s, Conc(cand))) {
			return Tuple{false, Iface{}}
		}
	}
	return Tuple{false, mkErrS("strconv.ParseBool: invalid syntax")}
}

// intrUnquote models strconv.Unquote for the shape the lexer uses: a
// double-quoted two-character escape `"\X"`; anything concrete goes to the
// real function.
func intrUnquote(c *Ctx, a []Value) Value {
	s := strArg(a[0])
	if g, ok := s.Go(); ok {
		r, err := strconv.Unquote(g)
		if err != nil {
			return Tuple{Str{}, mkErrS(err.Error())}
		}
		return Tuple{Conc(r), Iface{}}
	}
	s = c.Simplify(s)
	if g, ok := s.Go(); ok {
		r, err := strconv.Unquote(g)
		if err != nil {
			return Tuple{Str{}, mkErrS(err.Error())}
		}
		return Tuple{Conc(r), Iface{}}
	}
	units := s.Units()
	invalid := Tuple{Str{}, mkErrS("invalid syntax")}
	isCh := func(u Seg, ch byte) bool {
		if u.D != nil {
			return false
		}
		if u.B == nil {
			return u.S[0] == ch
		}
		return c.Branch(c.B.Eq(u.B, c.B.BV(uint64(ch), 8)))
	}
	if len(units) == 4 && isCh(units[0], '"') && isCh(units[1], '\\') && isCh(units[3], '"') && units[2].D == nil {
		b := unitByte(c.B, units[2])
		table := []struct {
			ch  byte
			out string
		}{{'a', "\a"}, {'b', "\b"}, {'f', "\f"}, {'n', "\n"}, {'r', "\r"}, {'t', "\t"}, {'v', "\v"}, {'\\', "\\"}, {'"', "\""}}
		for _, e := range table {
			if c.Branch(c.B.Eq(b, c.B.BV(uint64(e.ch), 8))) {
				return Tuple{Conc(e.out), Iface{}}
			}
		}
		// \' is invalid inside double quotes; \x \u \U \0-7 need more characters
		return invalid
	}
	// "\xHH" and "\OOO" with symbolic digits (the lexer's pattern already checked the digit classes)
	if len(units) == 6 && isCh(units[0], '"') && isCh(units[1], '\\') && isCh(units[5], '"') {
		B := c.B
		bt := func(u Seg) *sym.Term { return unitByte(B, u) }
		inR := func(b *sym.Term, lo, hi byte) *sym.Term {
			return B.And(B.Cmp(sym.OpULe, B.BV(uint64(lo), 8), b), B.Cmp(sym.OpULe, b, B.BV(uint64(hi), 8)))
		}
		if isCh(units[2], 'x') {
			hexv := func(b *sym.Term) (*sym.Term, *sym.Term) {
				dig, low, up := inR(b, '0', '9'), inR(b, 'a', 'f'), inR(b, 'A', 'F')
				v := B.Ite(dig, B.Bin(sym.OpSub, b, B.BV('0', 8)), B.Ite(low, B.Bin(sym.OpSub, b, B.BV('a'-10, 8)), B.Bin(sym.OpSub, b, B.BV('A'-10, 8))))
				return v, B.Or(dig, low, up)
			}
			h, okh := hexv(bt(units[3]))
			l, okl := hexv(bt(units[4]))
			if !c.Branch(B.And(okh, okl)) {
				return invalid
			}
			return Tuple{ByteStr(B.Bin(sym.OpBOr, B.Bin(sym.OpShl, h, B.BV(4, 8)), l)), Iface{}}
		}
		oct := B.And(inR(bt(units[2]), '0', '7'), inR(bt(units[3]), '0', '7'), inR(bt(units[4]), '0', '7'))
		if c.Branch(oct) {
			d := func(u Seg) *sym.Term { return B.ZExt(B.Bin(sym.OpSub, bt(u), B.BV('0', 8)), 16) }
			v := B.Bin(sym.OpAdd, B.Bin(sym.OpAdd, B.Bin(sym.OpMul, d(units[2]), B.BV(64, 16)), B.Bin(sym.OpMul, d(units[3]), B.BV(8, 16))), d(units[4]))
			if c.Branch(B.Cmp(sym.OpULt, B.BV(255, 16), v)) {
				return invalid
			}
			return Tuple{ByteStr(B.Extract(v, 0, 8)), Iface{}}
		}
		return invalid
	}
	c.Unsupported("strconv.Unquote on %s", s.String())
	return nil
}

// ---------------------------------------------------------------- strings

func strJoin(ss []Str, sep Str) Str {
	var parts []Str
	for i, s := range ss {
		if i > 0 {
			parts = append(parts, sep)
		}
		parts = append(parts, s)
	}
	return Concat(parts...)
}

func (c *Ctx) HasPrefix(s, p Str) *sym.Term {
	pu := p.Units()
	if len(pu) == 0 {
		return c.B.True
	}
	su := s.Units()
	acc := c.B.True
	for i, u := range pu {
		if u.D != nil {
			c.Unsupported("HasPrefix with atom in prefix")
		}
		if i >= len(su) {
			return c.B.False
		}
		if su[i].D != nil {
			// a decimal atom starts with '-' or a digit
			pb := unitByte(c.B, u)
			if pb.IsConst() && pb.Val != '-' && (pb.Val < '0' || pb.Val > '9') {
				return c.B.False
			}
			c.Unsupported("HasPrefix across decimal atom")
		}
		acc = c.B.And(acc, c.B.Eq(unitByte(c.B, su[i]), unitByte(c.B, u)))
		if acc.IsFalse() {
			return acc
		}
	}
	return acc
}

func (c *Ctx) HasSuffix(s, p Str) *sym.Term {
	pu := p.Units()
	if len(pu) == 0 {
		return c.B.True
	}
	su := s.Units()
	acc := c.B.True
	for i := range pu {
		u := pu[len(pu)-1-i]
		if u.D != nil {
			c.Unsupported("HasSuffix with atom in suffix")
		}
		if i >= len(su) {
			return c.B.False
		}
		x := su[len(su)-1-i]
		if x.D != nil {
			pb := unitByte(c.B, u)
			if pb.IsConst() && (pb.Val < '0' || pb.Val > '9') && !(pb.Val == '-') {
				return c.B.False
			}
			c.Unsupported("HasSuffix across decimal atom")
		}
		acc = c.B.And(acc, c.B.Eq(unitByte(c.B, x), unitByte(c.B, u)))
		if acc.IsFalse() {
			return acc
		}
	}
	return acc
}

// matchUnits: the needle units equal the text units from position i on.
func (c *Ctx) matchUnits(u []Seg, i int, nd []Seg) *sym.Term {
	acc := c.B.True
	for k, n := range nd {
		acc = c.B.And(acc, c.StrEq(unitsStr(u[i+k:i+k+1]), unitsStr([]Seg{n})))
		if acc.IsFalse() {
			return acc
		}
	}
	return acc
}

// symIndex: strings.Index / LastIndex on ropes; every candidate position is a solver-decided branch.
func (c *Ctx) symIndex(s, sep Str, last bool) Value {
	if g, ok := s.Go(); ok {
		if h, ok := sep.Go(); ok {
			if last {
				return int64(strings.LastIndex(g, h))
			}
			return int64(strings.Index(g, h))
		}
	}
	if s.HasAtom() || sep.HasAtom() {
		c.Unsupported("string search in a text with a decimal atom")
	}
	u, nd := s.Units(), sep.Units()
	if len(nd) == 0 {
		if last {
			return int64(len(u))
		}
		return int64(0)
	}
	if !last {
		for i := 0; i+len(nd) <= len(u); i++ {
			if c.Branch(c.matchUnits(u, i, nd)) {
				return int64(i)
			}
		}
		return int64(-1)
	}
	for i := len(u) - len(nd); i >= 0; i-- {
		if c.Branch(c.matchUnits(u, i, nd)) {
			return int64(i)
		}
	}
	return int64(-1)
}

func (c *Ctx) unitIn(u Seg, cutset string) *sym.Term {
	if u.D != nil {
		// decimal atoms consist of '-' and digits
		for i := 0; i < len(cutset); i++ {
			if cutset[i] == '-' || (cutset[i] >= '0' && cutset[i] <= '9') {
				c.Unsupported("trim cutset overlaps decimal atom")
			}
		}
		return c.B.False
	}
	if u.B == nil {
		return c.B.Bool(strings.IndexByte(cutset, u.S[0]) >= 0)
	}
	var parts []*sym.Term
	for i := 0; i < len(cutset); i++ {
		parts = append(parts, c.B.Eq(u.B, c.B.BV(uint64(cutset[i]), 8)))
	}
	return c.B.Or(parts...)
}

func (c *Ctx) trim(s Str, cutset string, left, right bool) Str {
	if g, ok := s.Go(); ok {
		switch {
		case left && right:
			return Conc(strings.Trim(g, cutset))
		case left:
			return Conc(strings.TrimLeft(g, cutset))
		default:
			return Conc(strings.TrimRight(g, cutset))
		}
	}
	u := s.Units()
	if left {
		for len(u) > 0 && c.Branch(c.unitIn(u[0], cutset)) {
			u = u[1:]
		}
	}
	if right {
		for len(u) > 0 && c.Branch(c.unitIn(u[len(u)-1], cutset)) {
			u = u[:len(u)-1]
		}
	}
	return unitsStr(u)
}

func (c *Ctx) trimSuffix(s, suf Str) Str {
	if c.Branch(c.HasSuffix(s, suf)) {
		u := s.Units()
		return unitsStr(u[:len(u)-len(suf.Units())])
	}
	return s
}

func (c *Ctx) trimPrefix(s, pre Str) Str {
	if c.Branch(c.HasPrefix(s, pre)) {
		return unitsStr(s.Units()[len(pre.Units()):])
	}
	return s
}

// matchAt: condition that sep occurs in units at position i (sep concrete).
func (c *Ctx) matchAt(u []Seg, i int, sep string) *sym.Term {
	if i+len(sep) > len(u) {
		return c.B.False
	}
	acc := c.B.True
	for k := 0; k < len(sep); k++ {
		x := u[i+k]
		if x.D != nil {
			if sep[k] == '-' || (sep[k] >= '0' && sep[k] <= '9') {
				c.Unsupported("separator may occur inside a decimal atom")
			}
			return c.B.False
		}
		acc = c.B.And(acc, c.B.Eq(unitByte(c.B, x), c.B.BV(uint64(sep[k]), 8)))
		if acc.IsFalse() {
			return acc
		}
	}
	return acc
}

func (c *Ctx) split(s, sepS Str) []Str {
	sep := sepS.MustGo()
	if g, ok := s.Go(); ok {
		var out []Str
		for _, p := range strings.Split(g, sep) {
			out = append(out, Conc(p))
		}
		return out
	}
	if sep == "" {
		c.Unsupported("Split with empty separator on symbolic string")
	}
	u := s.Units()
	var out []Str
	start := 0
	i := 0
	for i < len(u) {
		if c.Branch(c.matchAt(u, i, sep)) {
			out = append(out, unitsStr(u[start:i]))
			i += len(sep)
			start = i
		} else {
			i++
		}
	}
	out = append(out, unitsStr(u[start:]))
	return out
}

func (c *Ctx) replaceAll(s, oldS, newS Str) Str {
	old := oldS.MustGo()
	if g, ok := s.Go(); ok {
		if n, ok := newS.Go(); ok {
			return Conc(strings.ReplaceAll(g, old, n))
		}
	}
	if old == "" {
		c.Unsupported("ReplaceAll with empty old")
	}
	parts := c.split(s, oldS)
	return strJoin(parts, newS)
}

func intrContains(c *Ctx, a []Value) Value {
	acc := c.B.False
	for _, e := range a[0].(Slice).Elems {
		acc = c.B.Or(acc, c.StrEq(e.(Str), strArg(a[1])))
		if acc.IsTrue() {
			return true
		}
	}
	return fromBoolTerm(acc)
}

// ---------------------------------------------------------------- regexp

func reArg(v Value) *HostRegexp { return (*(v.(*Value))).(*HostRegexp) }

func intrFindString(c *Ctx, a []Value) Value {
	re, s := reArg(a[0]), strArg(a[1])
	if g, ok := s.Go(); ok {
		return Conc(re.re.FindString(g))
	}
	found, m, u := re.findSubmatch(c, s)
	if !found {
		return Str{}
	}
	return unitsStr(u[m.start:m.end])
}

func intrFindStringSubmatch(c *Ctx, a []Value) Value {
	re, s := reArg(a[0]), strArg(a[1])
	if g, ok := s.Go(); ok {
		m := re.re.FindStringSubmatch(g)
		if m == nil {
			return Slice{}
		}
		var out []Str
		for _, x := range m {
			out = append(out, Conc(x))
		}
		return mkStrSlice(out)
	}
	found, m, u := re.findSubmatch(c, s)
	if !found {
		return Slice{}
	}
	var out []Str
	for i := 0; i+1 < len(m.caps); i += 2 {
		if m.caps[i] < 0 {
			out = append(out, Str{})
		} else {
			out = append(out, unitsStr(u[m.caps[i]:m.caps[i+1]]))
		}
	}
	return mkStrSlice(out)
}

func intrReplaceAllString(c *Ctx, a []Value) Value {
	re, s, r := reArg(a[0]), strArg(a[1]), strArg(a[2])
	if g, ok := s.Go(); ok {
		if rg, ok := r.Go(); ok {
			return Conc(re.re.ReplaceAllString(g, rg))
		}
	}
	if rg, ok := r.Go(); !ok || strings.Contains(rg, "$") {
		c.Unsupported("regexp ReplaceAllString with a template on symbolic text")
	}
	return replaceAllSym(c, re, s, r)
}

// replaceAllSym: leftmost-first replacement of every match in a text with symbolic bytes (the replacement is
// literal). Patterns that can match the empty string are outside the model.
func replaceAllSym(c *Ctx, re *HostRegexp, s Str, repl Str) Str {
	if re.re.MatchString("") {
		c.Unsupported("regexp replace with a pattern that matches the empty string on symbolic text")
	}
	var out []Str
	rest := s
	for guard := 0; guard < 4096; guard++ {
		found, m, u := re.findSubmatch(c, rest)
		if !found || m.end <= m.start {
			out = append(out, rest)
			return Concat(out...)
		}
		out = append(out, unitsStr(u[:m.start]), repl)
		rest = unitsStr(u[m.end:])
	}
	c.Unsupported("regexp replace: too many matches")
	return Str{}
}

func intrMatchString(c *Ctx, a []Value) Value {
	re, s := reArg(a[0]), strArg(a[1])
	if g, ok := s.Go(); ok {
		return re.re.MatchString(g)
	}
	acc := c.B.False
	for _, cand := range re.enumerate(c, s.Units(), 4096) {
		acc = c.B.Or(acc, cand.cond)
	}
	return fromBoolTerm(acc)
}

// ---------------------------------------------------------------- sha256

type HostHash struct{ data []Str }

// HostHex is the result of Sum on symbolic content: an opaque 64-hex-digit rope.
type HostHex struct{ S Str }

func (h *HostHash) HostType() string { return "hash.Hash" }
func (h *HostHash) Call(c *Ctx, m string, a []Value) Value {
	switch m {
	case "Write":
		// argument is a []byte
		var segs []Seg
		for _, e := range a[0].(Slice).Elems {
			switch e := e.(type) {
			case int64:
				segs = append(segs, Seg{S: string([]byte{byte(e)})})
			case *sym.Term:
				segs = append(segs, Seg{B: e})
			}
		}
		h.data = append(h.data, normalize(segs))
		return Tuple{int64(len(a[0].(Slice).Elems)), Iface{}}
	case "Sum":
		all := Concat(h.data...)
		if g, ok := all.Go(); ok {
			if c.FS.HashOverride != nil {
				if hx, ok := c.FS.HashOverride(c, g); ok {
					return &HostHex{S: hx}
				}
			}
			sum := sha256.Sum256([]byte(g))
			el := make([]Value, len(sum))
			for i, b := range sum {
				el[i] = int64(b)
			}
			return Slice{Elems: el}
		}
		if c.FS.SymHash != "" {
			// stub: the digest of content with symbolic bytes is a fixed hex string (the harness states that the
			// property under check does not depend on the digest's value)
			return &HostHex{S: Conc(c.FS.SymHash)}
		}
		c.Unsupported("sha256 of symbolic content")
	}
	c.Unsupported("hash method %s", m)
	return nil
}

func (h *HostHex) HostType() string                       { return "hexsum" }
func (h *HostHex) Call(c *Ctx, m string, a []Value) Value { c.Unsupported("hexsum." + m); return nil }

// ---------------------------------------------------------------- os

// VFS is the virtual file system a path sees.
type VFS struct {
	Files        map[string]Str
	Dirs         map[string]bool
	Cwd          string
	Exe          string
	Writes       []string
	HashOverride func(c *Ctx, content string) (Str, bool)
	SymHash      string // digest (64 hex digits) reported for content with symbolic bytes; "" = unsupported
	WriteErr     bool
	// modification times: arbitrary (symbolic) instants, one variable per file and write; the only constraint is
	// that a write does not make a file older than it was
	MTimes map[string]*sym.Term
	mtimeN int
}

// MTime is the modification time (seconds) of a path: an unconstrained symbolic instant within a sane range.
func (fs *VFS) MTime(c *Ctx, n string) *sym.Term {
	if fs.MTimes == nil {
		fs.MTimes = map[string]*sym.Term{}
	}
	if t, ok := fs.MTimes[n]; ok {
		return t
	}
	t := c.B.Var("mtime_"+n, 64)
	c.S.Declare(t)
	c.AssumeUnchecked(c.B.And(c.B.Cmp(sym.OpSLe, c.B.Int(1_000_000_000, 64), t), c.B.Cmp(sym.OpSLe, t, c.B.Int(2_000_000_000, 64))))
	fs.MTimes[n] = t
	return t
}

func (fs *VFS) touch(c *Ctx, n string) {
	old, had := fs.MTimes[n]
	fs.mtimeN++
	t := c.B.Var(fmt.Sprintf("mtime_%s#w%d", n, fs.mtimeN), 64)
	c.S.Declare(t)
	lo := c.B.Int(1_000_000_000, 64)
	if had {
		lo = old
	}
	c.AssumeUnchecked(c.B.And(c.B.Cmp(sym.OpSLe, lo, t), c.B.Cmp(sym.OpSLe, t, c.B.Int(2_000_000_000, 64))))
	if fs.MTimes == nil {
		fs.MTimes = map[string]*sym.Term{}
	}
	fs.MTimes[n] = t
}

func NewVFS() *VFS {
	return &VFS{Files: map[string]Str{}, Dirs: map[string]bool{"/": true}, Cwd: "/work", Exe: "/vfs/bin/tsh"}
}

// Abs is the absolute, cleaned form of a path of the virtual file system.
func (fs *VFS) Abs(p string) string { return fs.norm(p) }

func (fs *VFS) norm(p string) string {
	if !filepath.IsAbs(p) {
		p = filepath.Join(fs.Cwd, p)
	}
	return filepath.Clean(p)
}

func (fs *VFS) AddFile(p string, content Str) {
	p = fs.norm(p)
	fs.Files[p] = content
	for d := filepath.Dir(p); ; d = filepath.Dir(d) {
		fs.Dirs[d] = true
		if d == "/" || d == "." {
			break
		}
	}
}

func (fs *VFS) AddDir(p string) {
	p = fs.norm(p)
	for d := p; ; d = filepath.Dir(d) {
		fs.Dirs[d] = true
		if d == "/" || d == "." {
			break
		}
	}
}

func (fs *VFS) Paths() []string {
	var out []string
	for p := range fs.Files {
		out = append(out, p)
	}
	sort.Strings(out)
	return out
}

type HostFileInfo struct {
	dir  bool
	name string
	path string
}

func (f *HostFileInfo) HostType() string { return "fs.FileInfo" }
func (f *HostFileInfo) Call(c *Ctx, m string, a []Value) Value {
	switch m {
	case "IsDir":
		return f.dir
	case "Name":
		return Conc(f.name)
	case "Mode":
		if f.dir {
			return int64(fs.ModeDir | 0o755)
		}
		return int64(0o644)
	case "Size":
		if s, ok := c.FS.Files[f.path]; ok {
			if g, conc := s.Go(); conc {
				return int64(len(g))
			}
		}
	case "ModTime":
		// a time.Time without monotonic reading: wall = 0, ext = seconds since year 1, loc = nil (UTC)
		tp := c.E.Pkgs["time"]
		if tp != nil && tp.Type("Time") != nil {
			if st, ok := zero(tp.Type("Time").Type()).(Struct); ok && len(st) == 3 {
				const unixToInternal = (1969*365 + 1969/4 - 1969/100 + 1969/400) * 86400
				st[1] = c.B.Bin(sym.OpAdd, c.FS.MTime(c, f.path), c.B.Int(unixToInternal, 64))
				return st
			}
		}
	}
	c.Unsupported("FileInfo.%s", m)
	return nil
}

func notExist(op, p string) Value { return mkErrS(op + " " + p + ": no such file or directory") }

func intrStat(c *Ctx, a []Value) Value {
	p := c.pathArg(a[0])
	if p == "" {
		return Tuple{Iface{}, notExist("stat", p)}
	}
	n := c.FS.norm(p)
	if _, ok := c.FS.Files[n]; ok {
		return Tuple{Iface{T: hostObjType, V: &HostFileInfo{dir: false, name: filepath.Base(n), path: n}}, Iface{}}
	}
	if c.FS.Dirs[n] {
		return Tuple{Iface{T: hostObjType, V: &HostFileInfo{dir: true, name: filepath.Base(n), path: n}}, Iface{}}
	}
	return Tuple{Iface{}, notExist("stat", p)}
}

func intrReadFile(c *Ctx, a []Value) Value {
	p := c.pathArg(a[0])
	n := c.FS.norm(p)
	if s, ok := c.FS.Files[n]; ok {
		var el []Value
		for _, u := range s.Units() {
			switch {
			case u.B != nil:
				el = append(el, u.B)
			case u.D != nil:
				c.Unsupported("file content with decimal atom")
			default:
				el = append(el, int64(u.S[0]))
			}
		}
		if el == nil {
			el = []Value{}
		}
		return Tuple{Slice{Elems: el}, Iface{}}
	}
	if c.FS.Dirs[n] {
		return Tuple{Slice{}, mkErrS("read " + p + ": is a directory")}
	}
	return Tuple{Slice{}, notExist("open", p)}
}

func intrWriteFile(c *Ctx, a []Value) Value {
	p := c.pathArg(a[0])
	n := c.FS.norm(p)
	if c.FS.WriteErr || !c.FS.Dirs[filepath.Dir(n)] || c.FS.Dirs[n] {
		return mkErrS("open " + p + ": cannot write")
	}
	var segs []Seg
	for _, e := range a[1].(Slice).Elems {
		switch e := e.(type) {
		case AtomBytes:
			segs = append(segs, Seg{D: e.D})
		case int64:
			segs = append(segs, Seg{S: string([]byte{byte(e)})})
		case *sym.Term:
			segs = append(segs, Seg{B: e})
		}
	}
	c.FS.Files[n] = normalize(segs)
	c.FS.touch(c, n)
	c.FS.Writes = append(c.FS.Writes, n)
	return Iface{}
}

// Simplify replaces symbolic bytes whose domain has been narrowed to one value by constants.
func (c *Ctx) Simplify(s Str) Str {
	changed := false
	segs := make([]Seg, len(s.Segs))
	copy(segs, s.Segs)
	for i, g := range segs {
		if g.B != nil && g.B.Op == sym.OpVar && !c.rel[g.B] {
			if vals := domValues(c.domOf(g.B)); len(vals) == 1 {
				segs[i] = Seg{S: string([]byte{byte(vals[0])})}
				changed = true
			}
		}
	}
	if !changed {
		return s
	}
	return normalize(segs)
}

// caseMap is strings.ToLower / strings.ToUpper on a rope; symbolic bytes are assumed ASCII and mapped by a term.
func caseMap(c *Ctx, s Str, upper bool) Str {
	if g, ok := s.Go(); ok {
		if upper {
			return Conc(strings.ToUpper(g))
		}
		return Conc(strings.ToLower(g))
	}
	B := c.B
	var segs []Seg
	for _, u := range s.Units() {
		switch {
		case u.D != nil:
			segs = append(segs, u) // decimal digits and a sign have no case
		case u.B != nil:
			if !asciiOnly(u.B) {
				c.Assume(B.Cmp(sym.OpULt, u.B, B.BV(0x80, 8)))
			}
			lo, hi, delta := byte('A'), byte('Z'), uint64(32)
			if upper {
				lo, hi, delta = 'a', 'z', uint64(256-32)
			}
			in := B.And(B.Cmp(sym.OpULe, B.BV(uint64(lo), 8), u.B), B.Cmp(sym.OpULe, u.B, B.BV(uint64(hi), 8)))
			segs = append(segs, Seg{B: B.Ite(in, B.Bin(sym.OpAdd, u.B, B.BV(delta, 8)), u.B)})
		default:
			if u.S[0] >= 0x80 {
				c.Unsupported("case mapping of a mixed symbolic/non-ASCII string")
			}
			if upper {
				segs = append(segs, Seg{S: strings.ToUpper(u.S)})
			} else {
				segs = append(segs, Seg{S: strings.ToLower(u.S)})
			}
		}
	}
	return normalize(segs)
}
